#!/bin/sh
# dev-time: apply a kept seed to /repo, run the checks of its property, undo.  usage: seed_check.sh <seed-id> [more ids]
cd /verif
for id in "$@"; do
  prop=${id%%-*}
  if grep -qE "\"status\": \"(obsolete|neutralised)" /verif/seeded/$id/meta.json 2>/dev/null; then echo "$id: obsolete (see meta.json)"; continue; fi
  if ! git -C /repo apply --check $( [ -f /verif/seeded/$id/patch_rebased.diff ] && echo /verif/seeded/$id/patch_rebased.diff || echo /verif/seeded/$id/patch.diff ) 2>/dev/null; then echo "$id: patch does not apply to the current tree"; continue; fi
  git -C /repo apply $( [ -f /verif/seeded/$id/patch_rebased.diff ] && echo /verif/seeded/$id/patch_rebased.diff || echo /verif/seeded/$id/patch.diff )
  out=$(python3 checks/run.py $prop 2>&1); rc=$?
  git -C /repo checkout -- .
  echo "$id: rc=$rc $(echo "$out" | grep -E ': RF[0-9a-z]+:' | sed -E 's/.*: (RF[0-9a-z]+):.*/\1/' | sort | uniq -c | tr '\n' ' ') $(echo "$out" | grep -c ANALYSIS-BROKEN) broken"
done
