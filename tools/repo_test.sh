#!/bin/sh
# rebuild /repo/_build (l2m is broken upstream: keep going) and run the 45-test baseline
cd /repo && cmake --build _build -j16 -- -k 0 > /var/tmp/build.log 2>&1
# any compile error outside the (upstream-broken) llvm2mir target means stale binaries: report it
if grep -E "error:" /var/tmp/build.log | grep -v "llvm2mir" | grep -q .; then
  echo "BUILD FAILED:"; grep -E "error:" /var/tmp/build.log | grep -v llvm2mir | head -5
  exit 1
fi
ctest --test-dir _build -j8 --timeout 900 > /var/tmp/ctest.log 2>&1
grep -E "tests passed|tests failed" /var/tmp/ctest.log
