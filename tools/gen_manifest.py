#!/usr/bin/env python3
"""Regenerate /verif/MANIFEST.json from the claimed-property table below and checks/props.py."""
import json, os, sys
VERIF = os.path.dirname(os.path.dirname(os.path.abspath(__file__)))
sys.path.insert(0, os.path.join(VERIF, 'checks'))
import props

CLAIMS = {
    'C01': ('RF8 folder/interpreter signature agreement, RF7h pattern coverage, RF9 x86 pattern width/signedness/condition codes and '
            'integer memory classes, RF9m ModRM/SIB decision table, RF18 flag-producer preservation, RF7i replacement-language reader '
            'agreement, RF33 indirect-jump CFG edges, RF34 narrowing in store-to-load forwarding, RF23/25/26/38/41 folding tables, RF32 side-effect '
            'opcode protection, RF36 liveness-scan agreement, RF39/RF40 address-scale and flag discipline, RF43 spill-slot reuse, RF44 lost-copy guard, '
            'RF48 branch reversal, RF49 overlap predicate, RF52 address-taken labels survive jump optimisation, RF54 addr elimination only for full-width stores, '
            'RF55 kill set of memory availability, RF62 combiner memory staleness, RF63 one-step builtin conversions, RF64 range predicates on un-narrowed values, '
            'RF30 no cloning of switch/jmpi blocks, RF68 memory-clobber opcodes in GVN availability, RF69 alloca escape through call arguments, RF70 loop-phi guard of ssa_combine, '
            'RF18b rewrite classifiers, RF32 incl. the combiner move, RF67 null-then-dereference, RF32t trapping divisions (abstract execution of the LICM guard), '
            'RF86 division folds cannot trap, RF87 power-of-two width, RF97 call liveness of by-value blocks, RF9 overflow producers are flag-setting instructions (no lea), RF99 tied globals at calls (known finding), RF110 machinize-eliminated FP opcodes not produced by the combiner, RF114 renaming shortcut of make_conventional_ssa (lost copy / swap), RF70 incl. the branch folder, RF120 growth loops, RF131 spill/restore order at one place, RF48b opcode maps, RF138 reference operand equality, RF54 incl. cross-class loads, RF140 early clobbers vs pattern scratch registers, RF148 operand exchanges keep SSA edges, memory-type key of GVN merges only value-equal types (RF149), extension-pair decision helpers (RF23 helper form), per-instruction scratch of the conflict builder (RF179), reload counters reset before reservations (RF198), store address arithmetic in front of an overflow producer (RF200)',
            'Decides named structural clauses that are necessary conditions of generator/interpreter equivalence: the GVN constant '
            'folder applies per opcode the same C operator on the same operand width/signedness as the interpreter; every opcode that '
            'reaches instruction selection has a pattern; x86 encodings carry the width, signedness and condition code the opcode name '
            'demands; memory operands are encoded so that the CPU decodes the requested base/index/displacement; every indirect jump '
            'has a CFG edge to every address-taken label; a reload after a narrow store is extended; overflow-flag producers are not '
            'removed by shortcuts. It does not decide the optimisation passes in general, register allocation or any value-level '
            'behaviour.', '3 C01'),
    'C02': ('opcode-signature agreement against the naming convention (RF8), interpreter dispatch exhaustiveness (RF7a), x86 tables '
            '(RF9), extension/narrowing maps (RF7e/7f), one-step builtin conversions (RF63), range predicates on un-narrowed values (RF64), division folds (RF86), power-of-two width (RF87), xor form of mov 0 while overflow flags are live (RF101), address arithmetic never after an overflow producer (RF100), BT/BF folding on immediates (RF38), ALLOCA replacement is 64-bit (RF9), lea address forms (RF9), neutral-constant shortcut of strength reduction (RF141), memory-type key of GVN (RF149), opcodes machinize rewrites away are not produced again (RF110), no 64-bit value through a narrower return type (RF170), scale through its logarithm (RF197), RF200',
            'Decides, for every opcode, that interpreter, constant folder and x86 patterns use the operator, width and signedness that '
            'MIR.md\'s naming convention prescribes, and that every emitted interpreter code has a handler. Boundary-value arithmetic '
            'inside one signature is not decided.', '3 C02'),
    'C03': ('machine-code template discipline of the wrapper / basic-block wrapper / thunks (RF11), thunk redirection through the '
            'code-write protocol (RF4d), label-operand position agreement between duplicator, simplifier and interpreter (RF7g), '
            'interface switch protocol: single writer of the public address and thunk redirection on every setter path (RF31), '
            'indirect-jump CFG edges (RF33), origin of addresses stored into lref data (RF42), address-taken labels (RF52/RF53), API view of a callee at link time (RF56), '
            'direct-call offset range test (RF64), direct-call patching needs machine code (RF77), interpreter label unit (RF89), dynamic stack alignment of the call wrapper (RF11a), positional pairing of label references and successor versions only under equal counts (RF104), interpreter shim block fetch vs psABI (RF111), one stable address per label under lazy bb generation (RF124), code address never used as the address value of a function (RF132), protect window covers the bytes written (RF4), shim block copies in the activation (RF147), loaded temp data addressed through item->addr by both engines (RF151), bb version generation never edits the shared instruction list (RF165), bb stubs only for a function whose generator state was just built (RF177), size of register-passed blocks in the FFI cache key (RF182), FFI register counters advance only with a register (RF187), interpreter frame covers every register of the code (RF193)',
            'Decides narrow structural necessary conditions of interface independence: the glue that switches a function from stub to '
            'generated code preserves every argument register and the stack, both thunk patterns have one size so retargeting never '
            'overwrites a neighbour, redirection writes go through the protected code-write path, label targets are rewired at the '
            'same operand positions in every engine, the public address of a function is written once (the thunk) and every interface '
            'setter and lazy handler re-targets that thunk on every path that can follow a fresh load. Behavioural equivalence across '
            'interfaces and call orders is not decided.', '3 C03'),
    'C04': ('RF18 flag-producer preservation, RF7e extension-map agreement, RF7g label-operand positions, RF7b call-family coverage, '
            'RF28 alloca consolidation by path-wise linear forms, RF29 simplified memory operands, RF16j label forwarding-pointer scrub, RF38/41/48 '
            'folding and reversal tables, RF45 fresh merge registers, RF46 top alloca precedes calls, RF50 fresh inline registers, RF51 alignment inside the consolidated alloca area, '
            'RF56 inliner reads the API view of the callee, RF71 scans that run off the list, RF72 jump over code after a replaced ret, RF73 block argument copies released, '
            'RF83 result extension in front of the common ret, RF90 merged alloca runs once, RF91 own register of the merged alloca, RF98 insertions inside the call bracket, RF100 address arithmetic never follows an overflow producer, RF113 link-time passes are not re-entered, RF48b no opcode map negates an ordered FP relation, RF46 incl. branches, RF142 single-register address shortcut of simplify_op, operand writes of the inliner are a frozen table (RF153), value-number table emptied by every per-function driver (RF161), FP constants looked up by bits (RF180), alloca after ret (RF46), own register of the merged top alloca (RF190), RF200',
            'Decides that the link-time shortcut set is disjoint from overflow-flag producers, that result/argument extension maps agree '
            'with the target\'s, that label bookkeeping covers every label-carrying opcode, that the inliner\'s consolidated alloca size '
            'covers every offset it hands out, that memory operands it builds are base-only, and that label forwarding pointers used '
            'while copying a callee are reset on every path. Register renaming and value-level behaviour are not decided.',
            '3 C04'),
    'C05': ('ABI constant agreement (RF10), block class mapping (RF10b), argument-register counter discipline (RF10c/d), long double '
            'stack-slot alignment (RF10e), trampoline cache-key completeness and separation (RF12/RF12b), frame pointer kept around an sp bracket (RF126), register fit of one-class blocks (RF133), result extension index (RF144), container growth not skipped '
            '(RF3b), %al count (RF10h), block stack placement (RF10i), result extension after the result move (RF10j), prologue frame residues mod 16 (RF65), '
            'per-call trampoline buffer (RF47), narrowing maps (RF7f), extension map (RF7e), result moves anchored at the call (RF84), zero-size block copy template (RF74), '
            'sp-dependent instructions not moved by the combiner (RF32), call liveness of by-value blocks (RF97), extension folding table also here (RF23), al set in front of a variadic native call (RF174), call clobbers killed before implicit argument registers become live (RF178), size in the FFI cache key (RF182), FFI register counters (RF187)',
            'Decides that every copy of the SysV argument/return register tables and counts in the FFI trampoline generator, the code '
            'generator and c2mir agree with the psABI and with each other; that block classes map to the register classes the psABI '
            'gives them; that register counters advance exactly for arguments passed in registers; that long double stack slots are '
            '16-byte aligned at every caller/callee/va site; and that the trampoline cache key covers every input.',
            '3 C05'),
    'C06': ('ABI constant agreement for the callee side (RF10/RF10b/RF10e): callee-saved set, vararg save-area layout, incoming long '
            'double slot alignment; VA_START and shim block tables (RF10f/g); save/restore symmetry of the machine-code templates (RF11); '
            'single-return invariant (RF30); x86 pattern table incl. emission-time rewrites (RF9); prologue frame residues mod 16 by dataflow (RF65); spill-slot reuse inside the allocated slots (RF43), interpreter shim block fetch vs psABI (RF111), nothing saved below sp (RF127), register fit of one-class blocks (RF133), shim block copies in the activation (RF147), extension folding table (RF23), register-passed block storage covers whole eightbytes (RF155), no extension of an incoming parameter dropped (RF166), frame pointer kept around every sp adjustment (RF126), integer results in rax, rdx (RF186)',
            'Decides table/constant agreement with the psABI, template symmetry, and that no pass can create a second return that the '
            'single epilogue would miss; does not decide register allocation.', '3 C06'),
    'C10': ('tagged-union discipline in the text writer (RF6), writer/scanner vocabulary agreement (RF7c), scanner input function '
            '(RF22, RF22b), label-table scope (RF15), FP print precision and lossy FP-to-integer printing (RF37), trailing labels (RF7k), every string byte printed (RF80), reserved-name bookkeeping in the scanner (RF85), fixed-length string escapes (RF103), alias suffix writer/scanner agreement by abstract execution (RF106), per-statement scanner state (RF116), spelling of non-finite FP values (RF118, known finding), octal escape length in the scanner (RF143), integer tokens converted unsigned (RF159), lref text for every shape (RF172), hard register of a declared variable by name (RF192)',
            'Decides that the textual writer reads only the active union member on every path and terminates each item kind, and that '
            'every keyword, type name, data element type the writer can print is accepted by the scanner. Numeric round trip of values '
            'is not decided.', '3 C10'),
    'C11': ('binary writer/reader vocabulary agreement (RF7d), label provenance (RF15), padding of type-punned temporaries (RF14), '
            'tagged-union discipline (RF6), byte callbacks as the only sink/source (RF7j), encoder counter discipline (RF13c), token payload read once (RF75), '
            'memory operand fields by abstract execution of writer and reader (RF82), shared header reader (RF96), compression layer verdict (RF88), reserved-name bookkeeping in the reader (RF85b), opcode acceptance agreement of writer and reader (RF115), label counter kept ahead of explicit label numbers (RF121), scalar operand mode survives the binary form (RF129), label table of the reader is an injective function, by abstract execution (RF176), no FP conversion of values in the reader/writer (RF191), encoder literal run and staging typestate (RF13s, RF183)',
            'Decides vocabulary agreement between write_* and read_*, that lref labels come from the reader\'s label table, and that no '
            'indeterminate byte reaches the output stream. Value encodings are not decided.', '3 C11'),
    'C12': ('bounded-write guard coverage in the decoder (RF13, including copy helpers and the written-prefix clause for back references), no wrap of the 32-bit '
            'range tests (RF13w: abstract execution of the number reader over all first bytes), check-hash zero-length guards on both sides (RF13h), literal-run invariant of the encoder (RF13s), verdict and end element taken by MIR_read (RF88), '
            'encoder counter discipline (RF13c), back-reference offset computed from the dictionary as the lookup left it (RF105), each encoder buffer encoded once (RF135), sticky failure verdict of the decoder (RF146), failure exits (RF13e), check hash never narrowed (RF160), decoder follows every reference the encoder can write (RF173), typestate of the encoder staging buffers (RF183)',
            'Decides the memory-safety clause only: every write into and copy within the decoder\'s fixed buffers is dominated by a '
            'bound check on the same index expression that covers the whole extent touched, also through copy helpers. Losslessness '
            'and detection of every corruption are not decided.', '3 C12'),
    'C13': ('must-pass-through rules on setup_global / MIR_link / MIR_load_module (RF16c-e), interned-key discipline (RF24), add_item as a '
            'transition system over declaration orders (RF16l), RF6 on add_item, exported section registered through its head item (RF79), reference operands stay on import items (RF108), who may write item->addr (RF123), who may write op.u.ref (RF136), reference operand equality (RF138), engines never follow ref_def (RF150), undefined export / forward diagnostics reachable (RF157), no diagnostic after a registration in the environment within one item of MIR_link (RF158), every exported item registered (RF168), MIR_link sees modules loaded during the link (RF196)',
            'Decides necessary structural conditions: the environment entry is overwritten on every load; every import/export/forward '
            'is bound on every non-error path from the module item table; the redefinition error is guarded by exactly the reference '
            'guard set; table probes use interned names. History semantics are not decided.', '3 C13'),
    'C14': ('size-pass/placement-pass agreement and initialisation obligation in load_bss_data_section (RF16f), provenance of '
            'resolved addresses in MIR_link (RF16d), store-width agreement (RF7f), contiguity clause (RF16f), lref detection over all items (RF53), lref list rebuilt on reload (RF76), section published at its head (RF79), interpreter label unit (RF89), placement pass leaves lref cells alone (RF16f lref clause), expr data store width (RF128), ref cells hold the public address (RF132), section addresses come from the section allocation only (RF16m), loaded temp data (RF151), counted strings never measured as C strings (RF162), writes of load_bss_data_section sized by the placed item (RF171), a second load looks at every item (RF188), lref displacement in every engine (RF194)',
            'Decides that both passes use the same kind predicates and per-kind size expressions, that bss is zeroed on every load, and '
            'that forward/export addresses come from the definition found in the module item table. Byte contents are not decided.',
            '3 C14'),
    'C15': ('operand-mode table vs specification (RF17), call-family coverage (RF7b) and operand classification (RF19c), memory-operand '
            'decision tables (RF19, RF19e), register-required operands (RF19d), register look-up rule (RF16h), output-capable operand modes (RF81), '
            'null-then-dereference in the validator (RF67), operand-count exemptions (RF94), repeated-name check dominates every return of create_func_reg (RF102), operands exempt from validation and callee kind (RF134), mode comparison table (RF145), per-instruction checks per opcode and operand count (RF154), validation exemptions evaluated under every operand mode (RF134), expected modes of switch (RF169), every diagnostic leaves the context without an open function (RF184), property operand checked at creation (RF195), documented undefined-type va_list memory accepted (RF201)',
            'Decides the static table that the run-time validator consults, row by row against the documented grammar, and that error '
            'branches call the error function with a specific code.', '3 C15'),
    'C16': ('duplicate/restore protocol on every generation path (RF16a/b/i), scratch use of insn data scrubbed (RF16j), no instruction write '
            'before the working copy exists (RF16k), label-operand '
            'positions (RF7g), lref cell written by one engine (RF42b, known finding), API view of a callee (RF56), generator stores only engine-private '
            'descriptor fields (RF66), direct-call patching needs machine code (RF77), generator state that outlives a function is reset on every path (RF107), growth loops of parallel vectors (RF120), thunk re-targeted by every interface setter (RF31b), code address never stands for the function (RF132), generator frees only its own item data (RF163), lref cells survive a re-load (RF16f, RF171), wrapper templates preserve the argument registers (RF11), current module restored from a saved value (RF199)',
            'Decides the must-pass-through protocol of generate_func_code, sibling agreement of saved/restored fields, and that every '
            'forwarding pointer parked in the original labels while instructions are copied is reset on every path.', '3 C16'),
    'C17': ('who-may-call allocator confinement (RF1), init/finish create-destroy pairing (RF2/RF27), single owner of item data (RF2b), realloc old-size contract (RF3), '
            'code-memory write protocol (RF4), ownership of locally created containers and objects on every path (RF78, RF78b), region allocator of c2mir released only at session end (RF109), interpreter data released on every branch of MIR_link (RF122), owning slots of the generator context (RF130), no use of a bb_insn behind the deletion of its instruction (RF137), every variable vector re-interned on a context change (RF152), macro call under construction not on the stack (RF164), generator frees only its own item data (RF163), bb version generation never frees shared instructions (RF165), one releaser for a redundant declaration item (RF181), interpreter data released before the inline flag (RF185), environment item freed or listed on every path (RF189)',
            'Decides for every function of the three library units that no C-library allocator is referenced outside the default '
            'callbacks, that every MIR_realloc passes the container\'s true previous capacity, that every container created at init is '
            'destroyed at finish, and that code memory is written only between protect(write) and protect(exec). Heap ownership that '
            'moves through data structures at run time (double free, use after free) is not decided.', '3 C17'),
    'C18': ('process-wide mutable state in mir, gen, c2mir and mir2c (RF5), non-reentrant libc who-may-call, protect window within the written pages (RF4), flow of the c2mir sentinel err_node into linking calls (RF5s)',
            'Decides the property\'s second sentence: no variable with static storage in any library unit is written or escapes into a '
            'pointer through which its type is written. Schedules are not explored.', '3 C18'),
    'C20': ('opcode template signature agreement under every operand kind (RF8), opcode coverage (RF7h), operand union discipline (RF6), '
            'register typing (RF21), FP constant precision (RF37), overflow flags (RF57), reference operands (RF58), item declarations and call text by abstract '
            'execution of the printer over model modules (RF59, RF60, RF61), special immediates (RF92), data strings in comments (RF93), element printer (RF95), fixed-length string escapes (RF103), long double never narrowed in printers (RF112), declarations of one name connected by add_item (RF117), non-finite data elements (RF118c), source signedness of integer-to-FP conversions (RF139), wrapping operators computed in unsigned types (RF8 clause), overflow templates executed: types, flags, result through a temporary assigned last (RF156), address text of memory operands evaluated (RF167), translator never writes into the module (RF175), FP immediates keep a decimal point in C (RF37 clause), export in front of its data (RF60)',
            'Decides that each opcode\'s C template uses the operator/width/signedness the interpreter uses, that every public opcode has '
            'a case, and that out_op reads the union member matching the operand mode.', '3 C20'),
}

NA = {
    'C01': 'not yet implemented in this framework revision (planned: narrow structural clauses only; equivalence over all programs is out of reach of static analysis)',
    'C02': 'not yet implemented in this framework revision (planned: opcode signature agreement)',
    'C04': 'not yet implemented in this framework revision (planned: RF18/RF7e/RF7g clauses)',
    'C05': 'not yet implemented in this framework revision (planned: ABI constant agreement)',
    'C06': 'not yet implemented in this framework revision (planned: ABI constant agreement, callee side)',
    'C07': 'semantics of a C11 front end over all programs: value computations with no sibling implementation or machine-checkable specification in the tree to cross-check; no sound static argument in reach',
    'C08': 'struct/bit-field layout is arithmetic over arbitrary declarations; the only structural part (BLK+n class encoding shared with the back end) belongs to C05',
    'C09': 'token-sequence equality over all macro sets is a property of the expansion algorithm\'s dynamics; nothing in the code\'s shape implies it',
    'C10': 'not yet implemented in this framework revision',
    'C11': 'not yet implemented in this framework revision',
    'C12': 'not yet implemented in this framework revision',
    'C13': 'not yet implemented in this framework revision',
    'C14': 'not yet implemented in this framework revision',
    'C15': 'not yet implemented in this framework revision',
    'C16': 'not yet implemented in this framework revision',
    'C19': 'operation-sequence semantics of open addressing with tombstones, word-mask arithmetic and iterator state are value/history properties; no abstract domain available here proves them and a syntactic proxy would be vacuous or brittle',
    'C20': 'not yet implemented in this framework revision',
}

ALL = ['C%02d' % i for i in range(1, 21)]


def main():
    claimed = sorted(props.PLAN)
    checks = []
    for p in claimed:
        tech, text, ref = CLAIMS[p]
        checks.append({
            'property_id': p,
            'quick_cmd': 'python3 checks/run.py %s --tier quick' % p,
            'thorough_cmd': 'python3 checks/run.py %s --tier thorough' % p,
            'evidence_file': 'evidence/%s.json' % p,
            'replay_cmd_template': 'python3 checks/run.py %s --replay {path}' % p,
            'engine': 'mirsa+rules',
            'level_claimed': {'category': 'other', 'text': 'Static analysis (no execution). ' + text, 'design_ref': 'DESIGN.md section ' + ref},
            'level_note': 'Trusted base: clang 14 front end/CFG/constant evaluator, the specification tables under /verif/spec '
                          '(MIR.md naming convention, x86-64 ISA, SysV psABI), the exceptions table. Scope: x86-64 SysV build '
                          'configuration with NDEBUG. Exit 2 (ANALYSIS-BROKEN) means a construct is in a shape the extractor cannot '
                          'classify: neither pass nor violation.',
            'technique': 'static analysis: ' + tech,
        })
    na = [{'property_id': p, 'reason': NA[p]} for p in ALL if p not in claimed]
    m = {
        'version': 1,
        'setup_cmd': 'sh tools/setup.sh',
        'hooks': {
            'guard': 'VNMAKAROV_MIR_VERIF',
            'enable': 'none needed: the checks read /repo\'s source as it is; no instrumentation is compiled in',
            'baseline_off_cmd': 'cd /repo && cmake --build _build -j16 -- -k 0 ; ctest --test-dir _build -j8 --timeout 900',
            'source_commits': [],
            'add_only': True,
        },
        'engines': [
            {'name': 'mirsa+rules', 'path': 'engine/mirsa.cc, checks/', 'serves_properties': claimed,
             'kind_free_text': 'LibTooling fact extractor (clang AST + CFG, re-run on /repo on every check) and repository-specific '
                               'rule families in Python: who-may-call, pairing, typestate, tagged-union value-set dataflow, sibling '
                               'agreement, table-vs-specification'},
        ],
        'checks': checks,
        'not_applicable': na,
        'notes': 'Family: static analysis only. Every verdict is computed from /repo\'s current source text; nothing is executed. '
                 'Genuine defects found are listed in known_findings.json (status known: reported as KNOWN-FINDING lines; status '
                 'fixed: repaired by a fix: commit in /repo, suppress nothing).',
    }
    with open(os.path.join(VERIF, 'MANIFEST.json'), 'w') as f:
        json.dump(m, f, indent=1)
    print('claimed:', ' '.join(claimed))


if __name__ == '__main__':
    main()
