#!/bin/sh
# usage: verify_seed.sh <worktree with the change applied and seed/ dir>
# confirms: (1) suite passes with the change, (2) demo fails with it, (3) demo passes without it
WT=$1
cd $WT || exit 2
git diff > /var/tmp/seed_$$.diff
rm -rf _build
cmake -G Ninja -B _build -S . -DCMAKE_BUILD_TYPE=RelWithDebInfo >/dev/null 2>&1
cmake --build _build -j16 -- -k 0 >/dev/null 2>&1
echo "== tests with change:"; ctest --test-dir _build -j8 --timeout 900 2>&1 | grep -E "tests passed|tests failed|Failed|\*\*\*" | head -8
echo "== demo with change:"; (cd seed && timeout 300 sh run.sh $WT >/var/tmp/seed_demo_with_$$.log 2>&1; echo "rc=$?"); tail -3 /var/tmp/seed_demo_with_$$.log
git apply -R /var/tmp/seed_$$.diff
cmake --build _build -j16 -- -k 0 >/dev/null 2>&1
echo "== demo without change:"; (cd seed && timeout 300 sh run.sh $WT >/var/tmp/seed_demo_without_$$.log 2>&1; echo "rc=$?"); tail -3 /var/tmp/seed_demo_without_$$.log
git apply /var/tmp/seed_$$.diff; rm -f /var/tmp/seed_$$.diff
rm -f /var/tmp/seed_demo_with_$$.log /var/tmp/seed_demo_without_$$.log
