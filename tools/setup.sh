#!/bin/sh
# MANIFEST.setup_cmd: build the fact extractor from files on disk only (offline, ~15 s)
set -e
cd "$(dirname "$0")/.."
mkdir -p build evidence reports
clang++ $(llvm-config-14 --cxxflags) -fno-rtti -O1 engine/mirsa.cc -o build/mirsa \
  /usr/lib/llvm-14/lib/libclang-cpp.so.14 /usr/lib/llvm-14/lib/libLLVM-14.so
echo "mirsa built"
