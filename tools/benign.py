#!/usr/bin/env python3
"""dev-time: apply each behaviour-preserving edit of tools/mutants/benign.json to /repo, run the named checks, revert.
Expected: exit 0 (silent) or exit 2 (ANALYSIS-BROKEN: the rule says it cannot classify the new shape); exit 1 is a false alarm."""
import json, subprocess, sys, os
V = os.path.dirname(os.path.dirname(os.path.abspath(__file__)))
ms = json.load(open(os.path.join(V, 'tools', 'mutants', 'benign.json')))
bad = 0
for m in ms:
    if 'patch' in m:    # a whole patch file (several hunks) instead of one replacement
        r = subprocess.run(['git', '-C', '/repo', 'apply', os.path.join(V, 'tools', 'mutants', m['patch'])], capture_output=True, text=True)
        if r.returncode != 0:
            print('%-4s SKIP (patch does not apply)' % m['id'])
            bad += 1
            continue
    else:
        p = os.path.join('/repo', m['file'])
        s = open(p).read()
        if (s.count(m['old']) != 1 and not m.get('all')) or s.count(m['old']) == 0:
            print('%-4s SKIP (anchor occurs %d times)' % (m['id'], s.count(m['old'])))
            bad += 1
            continue
        open(p, 'w').write(s.replace(m['old'], m['new']))
    try:
        cc = subprocess.run(['gcc', '-fsyntax-only', '-w', '-DMIR_PARALLEL_GEN', '-I/repo', '-std=gnu11', '-fsigned-char', '-DNDEBUG',
                             os.path.join('/repo', m.get('unit', m['file']))], capture_output=True, text=True)
        if cc.returncode != 0:
            print('%-4s DOES NOT COMPILE' % m['id'])
            bad += 1
            continue
        res = []
        for prop in m['props']:
            r = subprocess.run(['python3', os.path.join(V, 'checks', 'run.py'), prop], capture_output=True, text=True, cwd=V)
            res.append('%s rc=%d%s' % (prop, r.returncode, ' FALSE ALARM' if r.returncode == 1 else ''))
            if r.returncode == 1:
                bad += 1
                print('\n'.join(l[:200] for l in r.stdout.splitlines() if ': RF' in l)[:600])
        print('%-4s %-55s %s' % (m['id'], m['what'][:55], '; '.join(res)))
    finally:
        subprocess.run(['git', '-C', '/repo', 'checkout', '--', m['file']])
sys.exit(1 if bad else 0)
