# dev-time helper: load (and cache) TUs for interactive exploration.  Not used by checks.
import sys, os, pickle
sys.path.insert(0, '/verif/checks')
from lib import facts as F
def load(unit, extra=()):
    os.makedirs('/var/tmp/mvdev', exist_ok=True)
    return F.extract(unit, '/var/tmp/mvdev', extra)
