#!/usr/bin/env python3
"""dev-time: apply each mutant of tools/mutants/list.json to /repo, run the named check, expect exit 1, revert.
usage: mutate.py [id-prefix]"""
import json, subprocess, sys, os
V = os.path.dirname(os.path.dirname(os.path.abspath(__file__)))
ms = json.load(open(os.path.join(V, 'tools', 'mutants', 'list.json')))
pref = sys.argv[1] if len(sys.argv) > 1 else ''
bad = 0
for m in ms:
    if not m['id'].startswith(pref):
        continue
    p = os.path.join('/repo', m['file'])
    s = open(p).read()
    if s.count(m['old']) != 1:
        print('%-8s SKIP (anchor occurs %d times)' % (m['id'], s.count(m['old'])))
        bad += 1
        continue
    open(p, 'w').write(s.replace(m['old'], m['new']))
    try:
        cc = subprocess.run(['gcc', '-fsyntax-only', '-w', '-DMIR_PARALLEL_GEN', '-I/repo', '-std=gnu11', '-fsigned-char', '-DNDEBUG',
                             os.path.join('/repo', m.get('unit', m['file']))], capture_output=True, text=True)
        if cc.returncode != 0:
            print('%-8s DOES NOT COMPILE' % m['id'])
            bad += 1
            continue
        res = []
        for prop in m['props']:
            r = subprocess.run(['python3', os.path.join(V, 'checks', 'run.py'), prop], capture_output=True, text=True, cwd=V)
            hit = [l for l in r.stdout.splitlines() if m['rule'] + ':' in l]
            res.append('%s rc=%d %s' % (prop, r.returncode, 'HIT' if (r.returncode == 1 and hit) else 'MISS'))
            if not (r.returncode == 1 and hit):
                bad += 1
        print('%-8s %-50s %s' % (m['id'], m['what'][:50], '; '.join(res)))
    finally:
        subprocess.run(['git', '-C', '/repo', 'checkout', '--', m['file']])
sys.exit(1 if bad else 0)
