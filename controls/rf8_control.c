/* positive control for RF8 (interpreter-shaped): handlers with a wrong signedness / width / operator */
#include <stdint.h>
typedef union { int64_t i; uint64_t u; void *a; } val_t;
typedef val_t *code_t;
static int64_t *get_iop (val_t *bp, code_t c) { return &bp[c->i].i; }
static uint64_t *get_uop (val_t *bp, code_t c) { return &bp[c->i].u; }
void eval (val_t *bp, code_t pc) {
  code_t ops;
  if (bp == 0) { pc->a = &&L_MIR_UDIV; return; }
  goto *pc->a;
L_MIR_UDIV: ops = pc + 1; pc += 3 + 1; { int64_t *r = get_iop (bp, ops), p1 = *get_iop (bp, ops + 1), p2 = *get_iop (bp, ops + 2); *r = p1 / p2; } goto *pc->a;   /* signed */
L_MIR_ADDS: ops = pc + 1; pc += 3 + 1; { int64_t *r = get_iop (bp, ops), p1 = *get_iop (bp, ops + 1), p2 = *get_iop (bp, ops + 2); *r = p1 + p2; } goto *pc->a;   /* 64-bit */
L_MIR_ULT: ops = pc + 1; pc += 3 + 1; { uint64_t *r = get_uop (bp, ops), p1 = *get_uop (bp, ops + 1), p2 = *get_uop (bp, ops + 2); *r = p1 <= p2; } goto *pc->a;  /* operator */
L_MIR_SUB: ops = pc + 1; pc += 3 + 1; { int64_t *r = get_iop (bp, ops), p1 = *get_iop (bp, ops + 1), p2 = *get_iop (bp, ops + 2); *r = p2 - p1; } goto *pc->a;   /* operand order */
L_MIR_EXT8: ops = pc + 1; pc += 2 + 1; { int64_t *r = get_iop (bp, ops); uint8_t s = (uint8_t) *get_iop (bp, ops + 1); *r = (int64_t) s; } goto *pc->a;       /* zero ext */
L_MIR_MUL: ops = pc + 1; pc += 3 + 1; { int64_t *r = get_iop (bp, ops), p1 = *get_iop (bp, ops + 1), p2 = *get_iop (bp, ops + 2); *r = p1 * p2; } goto *pc->a;   /* fine */
}
