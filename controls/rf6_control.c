/* positive control for RF6 */
#include <stdio.h>
#include "mir.h"
/* incomplete dispatch: the bss branch forgets to return and falls into the data printer */
void print_item (FILE *f, MIR_item_t item) {
  if (item->item_type == MIR_import_item) { fprintf (f, "import %s\n", item->u.import_id); return; }
  if (item->item_type == MIR_export_item) { fprintf (f, "export %s\n", item->u.export_id); return; }
  if (item->item_type == MIR_forward_item) { fprintf (f, "forward %s\n", item->u.forward_id); return; }
  if (item->item_type == MIR_func_item) return;
  if (item->item_type == MIR_proto_item) return;
  if (item->item_type == MIR_ref_data_item) return;
  if (item->item_type == MIR_lref_data_item) return;
  if (item->item_type == MIR_expr_data_item) return;
  if (item->item_type == MIR_bss_item) { fprintf (f, "bss %lu\n", (unsigned long) item->u.bss->len); }
  fprintf (f, "data %lu\n", (unsigned long) item->u.data->nel);
}
/* contradiction: the double member is read under the long double tag */
void print_op (FILE *f, MIR_op_t op) {
  switch (op.mode) {
  case MIR_OP_INT: fprintf (f, "%ld", (long) op.u.i); break;
  case MIR_OP_LDOUBLE: fprintf (f, "%g", op.u.d); break;
  case MIR_OP_DOUBLE: fprintf (f, "%g", op.u.d); break;
  default: break;
  }
}
/* fine: in-place retagging and guarded reads */
void ok (MIR_op_t *op) {
  if (op->mode == MIR_OP_MEM && op->u.mem.base == 0) { op->mode = MIR_OP_INT; op->u.i = op->u.mem.disp; }
}
