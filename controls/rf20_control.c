/* positive control for RF20: the first loop steps from the wrong variable, the second is fine */
#include <stdio.h>
#include "mir-dlist.h"
typedef struct el *el_t;
DEF_DLIST_LINK (el_t);
struct el { int v; DLIST_LINK (el_t) link; };
DEF_DLIST (el_t, link);
int stuck (el_t item) {
  int n = 0;
  for (el_t curr = item; curr != NULL; curr = DLIST_NEXT (el_t, item)) { n += curr->v; printf ("%d", n); }
  return n;
}
int fine (el_t item) {
  int n = 0;
  for (el_t curr = item; curr != NULL; curr = DLIST_NEXT (el_t, curr)) n += curr->v;
  return n;
}
