/* positive control for RF1: raw allocator use outside the default callbacks */
#include <stdlib.h>
#include <string.h>
#include "mir-alloc.h"
struct thing { int x; };
struct thing *make (MIR_alloc_t a) { struct thing *t = MIR_malloc (a, sizeof (struct thing)); return t; }
void drop (struct thing *t) { free (t); }          /* mismatch: MIR-allocated, raw free */
char *dup (const char *s) { return strdup (s); }   /* raw allocation */
void (*release) (void *) = free;                   /* address taken */
