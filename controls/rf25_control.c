/* positive control for RF25 */
#include <stdint.h>
int64_t mask_bad (int sh) { int64_t mask = (1 << sh) - 1; return mask; }     /* flagged */
int64_t mask_ok (int sh) { int64_t mask = ((int64_t) 1 << sh) - 1; return mask; }
int64_t mask_guarded (int sh) { if (sh < 31) return (1 << sh) - 1; return 0; }
int small (int n) { return 1 << n; }
