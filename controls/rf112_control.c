/* positive control for RF112: a long double value narrowed on its way to a printer */
#include <stdio.h>
union val { float f; double d; long double ld; };
struct op { int mode; union val u; };
static int special (FILE *f, double v) { if (v == v) return 0; fprintf (f, "nan"); return 1; }
void print_bad (FILE *f, struct op op) { if (!special (f, op.u.ld)) fprintf (f, "%Lg", op.u.ld); }   /* flagged: ld -> double */
void print_ok (FILE *f, struct op op) { if (op.u.ld != op.u.ld) fprintf (f, "nan"); else fprintf (f, "%Lg", op.u.ld); }
void print_d (FILE *f, struct op op) { if (!special (f, op.u.d)) fprintf (f, "%g", op.u.d); }
