/* positive control for RF5: each static below must be reported */
struct box { int v; struct box *next; };
static int counter;                       /* written */
static struct box shared_box = {1, 0};    /* escapes through a non-const pointer, type is written */
static const int limit = 10;              /* fine */
static int table[4] = {1, 2, 3, 4};       /* element written */
static char *names[] = {"a", "b"};        /* never written: fine */
void touch (struct box *b) { b->v = 2; }
int bump (void) { return ++counter; }
struct box *leak (void) { return &shared_box; }
void poke (int i) { table[i] = limit; }
const char *name (int i) { return names[i]; }
int next_id (void) { static int id; return id++; }   /* function static written */
