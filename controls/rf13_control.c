/* positive control for RF13/RF14 shaped like the decoder of mir-reduce.h */
#include <stdint.h>
#include <string.h>
#define BUF_LEN 1024
struct dec { uint32_t ind2pos[BUF_LEN]; uint8_t buf[BUF_LEN]; };
typedef unsigned long (*reader_t) (void *, unsigned long, void *);
int reduce_decode_get (struct dec *data, reader_t reader, void *aux, uint32_t sym_len, uint32_t ref_len, uint32_t ref_ind) {
  uint32_t pos = 0, curr_ind = 0, sym_pos;
  for (;;) {
    if (sym_len > 100) break;                                   /* forgets pos + sym_len > BUF_LEN */
    if (reader (&data->buf[pos], sym_len, aux) != sym_len) break;
    pos += sym_len;
    sym_pos = data->ind2pos[curr_ind - ref_ind];                /* no curr_ind < ref_ind rejection */
    if (sym_pos + ref_len > BUF_LEN) break;
    memcpy (&data->buf[pos], &data->buf[sym_pos], ref_len);     /* destination unchecked, source checked */
    pos += ref_len;
    if (pos >= BUF_LEN) return data->buf[0];
  }
  return -1;
}
void reduce_decode_start (void) {}
void reduce_decode_finish (void) {}
