// mirsa — generic fact extractor for the MIR static checks (LibTooling, clang 14).
//
// Usage: mirsa <out.json> <root-prefix> <source.c> -- <compile flags>
//
// Emits one JSON document for the translation unit:
//   types    : interned type table (spelling, canonical spelling, kind, width, signedness)
//   enums    : enum name/typedef -> [[enumerator, value]...]
//   records  : record name -> size, fields (name, type, bit offset, bit size)
//   globals  : variables with static storage defined under <root-prefix> (with initialiser tree)
//   functions: every function defined under <root-prefix>: params, statement tree (ids), CFG
// The tool knows nothing about the rules; all rule logic lives in /verif/checks.
#include "clang/AST/ASTConsumer.h"
#include "clang/AST/ASTContext.h"
#include "clang/AST/Decl.h"
#include "clang/AST/Expr.h"
#include "clang/AST/RecordLayout.h"
#include "clang/AST/Stmt.h"
#include "clang/Analysis/CFG.h"
#include "clang/Frontend/CompilerInstance.h"
#include "clang/Frontend/FrontendAction.h"
#include "clang/Lex/Lexer.h"
#include "clang/Tooling/CompilationDatabase.h"
#include "clang/Tooling/Tooling.h"
#include "llvm/Support/JSON.h"
#include "llvm/Support/raw_ostream.h"
#include <map>
#include <set>
#include <string>
#include <vector>

using namespace clang;
using llvm::json::OStream;

static std::string g_out, g_root;

namespace {

struct Dumper {
  ASTContext &Ctx;
  SourceManager &SM;
  OStream &J;
  std::map<const clang::Type *, int> typeIds;  // keyed on QualType opaque ptr below
  std::map<void *, int> qtIds;
  std::vector<QualType> types;
  std::map<const Decl *, int> declIds;
  std::map<const Stmt *, int> stmtIds;
  int nextStmt = 0;
  std::set<const RecordDecl *> recordsSeen;
  std::vector<const RecordDecl *> recordQueue;

  Dumper (ASTContext &C, OStream &J) : Ctx (C), SM (C.getSourceManager ()), J (J) {}

  int typeId (QualType T) {
    void *k = T.getAsOpaquePtr ();
    auto it = qtIds.find (k);
    if (it != qtIds.end ()) return it->second;
    int id = (int) types.size ();
    qtIds[k] = id;
    types.push_back (T);
    noteRecords (T);
    return id;
  }
  void noteRecords (QualType T) {
    QualType C = T.getCanonicalType ();
    for (int depth = 0; depth < 8; depth++) {
      if (const auto *PT = C->getAs<PointerType> ()) {
        C = PT->getPointeeType ().getCanonicalType ();
      } else if (const auto *AT = dyn_cast<ArrayType> (C.getTypePtr ())) {
        C = AT->getElementType ().getCanonicalType ();
      } else
        break;
    }
    if (const auto *RT = C->getAs<RecordType> ()) {
      const RecordDecl *RD = RT->getDecl ()->getDefinition ();
      if (RD && recordsSeen.insert (RD).second) recordQueue.push_back (RD);
    }
  }
  int declId (const Decl *D) {
    D = D->getCanonicalDecl ();
    auto it = declIds.find (D);
    if (it != declIds.end ()) return it->second;
    int id = (int) declIds.size () + 1;
    declIds[D] = id;
    return id;
  }
  std::string fileOf (SourceLocation L) {
    L = SM.getExpansionLoc (L);
    if (L.isInvalid ()) return "";
    PresumedLoc P = SM.getPresumedLoc (L);
    if (P.isInvalid ()) return "";
    return P.getFilename ();
  }
  unsigned lineOf (SourceLocation L) {
    L = SM.getExpansionLoc (L);
    if (L.isInvalid ()) return 0;
    return SM.getExpansionLineNumber (L);
  }
  bool underRoot (SourceLocation L) {
    std::string f = fileOf (L);
    size_t start = 0;
    while (start <= g_root.size ()) {  // colon-separated list of root prefixes
      size_t end = g_root.find (':', start);
      if (end == std::string::npos) end = g_root.size ();
      if (end > start && f.compare (0, end - start, g_root, start, end - start) == 0) return true;
      start = end + 1;
    }
    return false;
  }
  std::string macroOf (SourceLocation L) {
    if (!L.isMacroID ()) return "";
    // outermost macro name
    SourceLocation Cur = L;
    std::string name;
    while (Cur.isMacroID ()) {
      name = Lexer::getImmediateMacroName (Cur, SM, Ctx.getLangOpts ()).str ();
      Cur = SM.getImmediateMacroCallerLoc (Cur);
    }
    return name;
  }
  std::string recName (const RecordDecl *RD) {
    std::string n = RD->getNameAsString ();
    if (n.empty ()) {
      if (const TypedefNameDecl *TD = RD->getTypedefNameForAnonDecl ()) n = TD->getNameAsString ();
    }
    if (n.empty ()) {
      std::string f = fileOf (RD->getLocation ());
      size_t slash = f.rfind ('/');
      if (slash != std::string::npos) f = f.substr (slash + 1);
      n = "anon@" + f + ":" + std::to_string (lineOf (RD->getLocation ()));
    }
    return n;
  }

  const Expr *skipParens (const Expr *E) {
    for (;;) {
      if (const auto *P = dyn_cast<ParenExpr> (E))
        E = P->getSubExpr ();
      else if (const auto *C = dyn_cast<ConstantExpr> (E))
        E = C->getSubExpr ();
      else
        return E;
    }
  }

  void emitValue (const Expr *E) {
    if (E->isValueDependent ()) return;
    QualType T = E->getType ();
    if (T.isNull ()) return;
    if (!(T->isIntegralOrEnumerationType ())) return;
    if (!E->isPRValue ()) return;
    Expr::EvalResult R;
    if (E->EvaluateAsInt (R, Ctx, Expr::SE_NoSideEffects)) {
      llvm::APSInt V = R.Val.getInt ();
      if (V.isSigned () || V.getActiveBits () <= 63)
        J.attribute ("v", V.isSigned () ? V.getSExtValue () : (int64_t) V.getZExtValue ());
      else
        J.attribute ("vu", toString (V, 10));
    }
  }

  std::string strBytes (const StringLiteral *S) {
    // map bytes 1:1 to code points (latin-1) so JSON stays valid and lossless
    std::string out;
    if (S->getCharByteWidth () != 1) return "<wide>";
    StringRef B = S->getBytes ();
    for (unsigned char c : B) {
      if (c < 0x80)
        out.push_back ((char) c);
      else {
        out.push_back ((char) (0xC0 | (c >> 6)));
        out.push_back ((char) (0x80 | (c & 0x3F)));
      }
    }
    return out;
  }

  void dumpChildOrNull (const Stmt *S) {
    if (S == nullptr)
      J.value (nullptr);
    else
      dumpStmt (S);
  }

  void dumpStmt (const Stmt *S) {
    if (const auto *E = dyn_cast<Expr> (S)) {
      const Expr *I = skipParens (E);
      if (I != E) {
        // map the wrapper to the inner node id after dumping the inner
        dumpStmt (I);
        stmtIds[S] = stmtIds[I];
        return;
      }
    }
    int id = nextStmt++;
    stmtIds[S] = id;
    J.objectBegin ();
    J.attribute ("k", S->getStmtClassName ());
    J.attribute ("i", id);
    J.attribute ("l", (int64_t) lineOf (S->getBeginLoc ()));
    if (S->getBeginLoc ().isMacroID ()) {
      std::string m = macroOf (S->getBeginLoc ());
      if (!m.empty ()) J.attribute ("m", m);
    }
    std::vector<const Stmt *> kids;
    bool fixedKids = false;
    if (const auto *E = dyn_cast<Expr> (S)) {
      J.attribute ("t", typeId (E->getType ()));
      if (!isa<IntegerLiteral> (E) && !isa<InitListExpr> (E) && !isa<StringLiteral> (E))
        emitValue (E);
    }
    switch (S->getStmtClass ()) {
    case Stmt::DeclRefExprClass: {
      const auto *DR = cast<DeclRefExpr> (S);
      const ValueDecl *D = DR->getDecl ();
      J.attribute ("n", D->getNameAsString ());
      if (const auto *VD = dyn_cast<VarDecl> (D)) {
        const char *dk = "local";
        if (isa<ParmVarDecl> (VD))
          dk = "param";
        else if (VD->isFileVarDecl ())
          dk = "global";
        else if (VD->isStaticLocal ())
          dk = "slocal";
        else if (VD->hasExternalStorage ())
          dk = "global";
        J.attribute ("dk", dk);
        J.attribute ("d", declId (VD));
      } else if (isa<FunctionDecl> (D)) {
        J.attribute ("dk", "func");
      } else if (const auto *EC = dyn_cast<EnumConstantDecl> (D)) {
        J.attribute ("dk", "enumc");
        J.attribute ("v", EC->getInitVal ().getExtValue ());
      } else
        J.attribute ("dk", "other");
      break;
    }
    case Stmt::MemberExprClass: {
      const auto *ME = cast<MemberExpr> (S);
      J.attribute ("n", ME->getMemberDecl ()->getNameAsString ());
      J.attribute ("arrow", ME->isArrow ());
      if (const auto *FD = dyn_cast<FieldDecl> (ME->getMemberDecl ()))
        J.attribute ("rec", recName (FD->getParent ()));
      break;
    }
    case Stmt::CallExprClass: {
      const auto *CE = cast<CallExpr> (S);
      if (const FunctionDecl *FD = CE->getDirectCallee ()) J.attribute ("callee", FD->getNameAsString ());
      break;
    }
    case Stmt::BinaryOperatorClass:
    case Stmt::CompoundAssignOperatorClass: {
      const auto *BO = cast<BinaryOperator> (S);
      J.attribute ("op", BO->getOpcodeStr ());
      if (const auto *CA = dyn_cast<CompoundAssignOperator> (S)) {
        J.attribute ("ct", typeId (CA->getComputationResultType ()));
      }
      break;
    }
    case Stmt::UnaryOperatorClass: {
      const auto *UO = cast<UnaryOperator> (S);
      J.attribute ("op", UnaryOperator::getOpcodeStr (UO->getOpcode ()));
      if (UO->isPostfix ()) J.attribute ("post", true);
      break;
    }
    case Stmt::IntegerLiteralClass: {
      const auto *IL = cast<IntegerLiteral> (S);
      llvm::APInt V = IL->getValue ();
      if (V.getActiveBits () <= 63)
        J.attribute ("v", (int64_t) V.getZExtValue ());
      else
        J.attribute ("vu", toString (V, 10, false));
      break;
    }
    case Stmt::CharacterLiteralClass:
      J.attribute ("v", (int64_t) cast<CharacterLiteral> (S)->getValue ());
      break;
    case Stmt::FloatingLiteralClass: {
      llvm::SmallString<32> str;
      cast<FloatingLiteral> (S)->getValue ().toString (str);
      J.attribute ("fv", str.str ());
      break;
    }
    case Stmt::StringLiteralClass:
      J.attribute ("s", strBytes (cast<StringLiteral> (S)));
      break;
    case Stmt::ImplicitCastExprClass:
    case Stmt::CStyleCastExprClass:
      J.attribute ("ck", cast<CastExpr> (S)->getCastKindName ());
      break;
    case Stmt::UnaryExprOrTypeTraitExprClass: {
      const auto *UE = cast<UnaryExprOrTypeTraitExpr> (S);
      J.attribute ("trait", UE->getKind () == UETT_SizeOf ? "sizeof" : (UE->getKind () == UETT_AlignOf ? "alignof" : "other"));
      if (UE->isArgumentType ()) J.attribute ("at", typeId (UE->getArgumentType ()));
      break;
    }
    case Stmt::LabelStmtClass:
      J.attribute ("n", cast<LabelStmt> (S)->getDecl ()->getNameAsString ());
      break;
    case Stmt::GotoStmtClass:
      J.attribute ("n", cast<GotoStmt> (S)->getLabel ()->getNameAsString ());
      break;
    case Stmt::AddrLabelExprClass:
      J.attribute ("n", cast<AddrLabelExpr> (S)->getLabel ()->getNameAsString ());
      break;
    case Stmt::CaseStmtClass: {
      const auto *CS = cast<CaseStmt> (S);
      Expr::EvalResult R;
      if (CS->getLHS ()->EvaluateAsInt (R, Ctx)) J.attribute ("lo", R.Val.getInt ().getExtValue ());
      if (CS->getRHS () && CS->getRHS ()->EvaluateAsInt (R, Ctx)) J.attribute ("hi", R.Val.getInt ().getExtValue ());
      // enumerator name when the label is a plain enumerator
      if (const auto *DR = dyn_cast<DeclRefExpr> (CS->getLHS ()->IgnoreParenImpCasts ()))
        J.attribute ("n", DR->getDecl ()->getNameAsString ());
      if (CS->getRHS ())
        if (const auto *DR = dyn_cast<DeclRefExpr> (CS->getRHS ()->IgnoreParenImpCasts ()))
          J.attribute ("nhi", DR->getDecl ()->getNameAsString ());
      kids = {CS->getSubStmt ()};
      fixedKids = true;
      break;
    }
    case Stmt::DefaultStmtClass:
      kids = {cast<DefaultStmt> (S)->getSubStmt ()};
      fixedKids = true;
      break;
    case Stmt::IfStmtClass: {
      const auto *IS = cast<IfStmt> (S);
      kids = {IS->getCond (), IS->getThen (), IS->getElse ()};
      fixedKids = true;
      break;
    }
    case Stmt::SwitchStmtClass: {
      const auto *SS = cast<SwitchStmt> (S);
      kids = {SS->getCond (), SS->getBody ()};
      fixedKids = true;
      break;
    }
    case Stmt::WhileStmtClass: {
      const auto *WS = cast<WhileStmt> (S);
      kids = {WS->getCond (), WS->getBody ()};
      fixedKids = true;
      break;
    }
    case Stmt::DoStmtClass: {
      const auto *DS = cast<DoStmt> (S);
      kids = {DS->getBody (), DS->getCond ()};
      fixedKids = true;
      break;
    }
    case Stmt::ForStmtClass: {
      const auto *FS = cast<ForStmt> (S);
      kids = {FS->getInit (), FS->getCond (), FS->getInc (), FS->getBody ()};
      fixedKids = true;
      break;
    }
    case Stmt::InitListExprClass: {
      const auto *IL = cast<InitListExpr> (S);
      const InitListExpr *Sem = IL->isSemanticForm () ? IL : (IL->getSemanticForm () ? IL->getSemanticForm () : IL);
      for (unsigned i = 0; i < Sem->getNumInits (); i++) kids.push_back (Sem->getInit (i));
      if (Sem->hasArrayFiller ()) J.attribute ("filler", true);
      fixedKids = true;
      break;
    }
    case Stmt::DeclStmtClass: {
      const auto *DS = cast<DeclStmt> (S);
      J.attributeBegin ("decls");
      J.arrayBegin ();
      for (const Decl *D : DS->decls ()) {
        if (const auto *VD = dyn_cast<VarDecl> (D)) {
          J.objectBegin ();
          J.attribute ("n", VD->getNameAsString ());
          J.attribute ("d", declId (VD));
          J.attribute ("t", typeId (VD->getType ()));
          if (VD->isStaticLocal ()) J.attribute ("static", true);
          if (VD->hasInit ()) {
            J.attributeBegin ("init");
            dumpStmt (VD->getInit ());
            J.attributeEnd ();
          }
          J.objectEnd ();
        }
      }
      J.arrayEnd ();
      J.attributeEnd ();
      fixedKids = true;  // initialisers are under decls
      break;
    }
    case Stmt::GCCAsmStmtClass:
    case Stmt::MSAsmStmtClass: fixedKids = true; break;
    case Stmt::OffsetOfExprClass: fixedKids = true; break;
    default: break;
    }
    if (!fixedKids)
      for (const Stmt *C : S->children ()) kids.push_back (C);
    if (!kids.empty ()) {
      J.attributeBegin ("c");
      J.arrayBegin ();
      for (const Stmt *C : kids) dumpChildOrNull (C);
      J.arrayEnd ();
      J.attributeEnd ();
    }
    J.objectEnd ();
  }

  void dumpCFG (const FunctionDecl *FD) {
    CFG::BuildOptions BO;
    BO.PruneTriviallyFalseEdges = true;
    BO.AddEHEdges = false;
    BO.AddImplicitDtors = false;
    BO.AddInitializers = false;
    std::unique_ptr<CFG> cfg = CFG::buildCFG (FD, FD->getBody (), &Ctx, BO);
    if (!cfg) {
      J.attribute ("cfg", nullptr);
      return;
    }
    J.attributeBegin ("cfg");
    J.objectBegin ();
    J.attribute ("entry", (int64_t) cfg->getEntry ().getBlockID ());
    J.attribute ("exit", (int64_t) cfg->getExit ().getBlockID ());
    J.attributeBegin ("blocks");
    J.arrayBegin ();
    for (const CFGBlock *B : *cfg) {
      J.objectBegin ();
      J.attribute ("id", (int64_t) B->getBlockID ());
      J.attributeBegin ("e");
      J.arrayBegin ();
      int lastElem = -1;
      for (const CFGElement &El : *B) {
        if (auto CS = El.getAs<CFGStmt> ()) {
          const Stmt *St = CS->getStmt ();
          auto it = stmtIds.find (St);
          if (it == stmtIds.end ()) {
            // `int a, b = f ();` is split by the CFG builder into synthetic one-declaration statements
            if (const auto *DS = dyn_cast<DeclStmt> (St)) {
              for (auto P : cfg->synthetic_stmts ()) {
                if (P.first == DS) {
                  it = stmtIds.find (P.second);
                  break;
                }
              }
            }
          }
          if (it != stmtIds.end () && it->second != lastElem) {
            J.value (it->second);
            lastElem = it->second;
          }
        }
      }
      J.arrayEnd ();
      J.attributeEnd ();
      if (const Stmt *T = B->getTerminatorStmt ()) {
        auto it = stmtIds.find (T);
        if (it != stmtIds.end ()) J.attribute ("term", it->second);
        J.attribute ("tk", T->getStmtClassName ());
      }
      if (const Stmt *C = B->getTerminatorCondition (false)) {
        auto it = stmtIds.find (C);
        if (it != stmtIds.end ()) J.attribute ("cond", it->second);
      }
      if (const Stmt *L = B->getLabel ()) {
        auto it = stmtIds.find (L);
        if (it != stmtIds.end ()) J.attribute ("label", it->second);
      }
      if (B->hasNoReturnElement ()) J.attribute ("noreturn", true);
      J.attributeBegin ("s");
      J.arrayBegin ();
      bool anyUnreach = false;
      for (auto SI = B->succ_begin (); SI != B->succ_end (); ++SI) {
        if (const CFGBlock *R = SI->getReachableBlock ())
          J.value ((int64_t) R->getBlockID ());
        else if (const CFGBlock *U = SI->getPossiblyUnreachableBlock ()) {
          J.value ((int64_t) U->getBlockID ());
          anyUnreach = true;
        } else
          J.value (nullptr);
      }
      J.arrayEnd ();
      J.attributeEnd ();
      if (anyUnreach) {
        J.attributeBegin ("u");
        J.arrayBegin ();
        for (auto SI = B->succ_begin (); SI != B->succ_end (); ++SI) J.value (SI->getReachableBlock () == nullptr);
        J.arrayEnd ();
        J.attributeEnd ();
      }
      J.objectEnd ();
    }
    J.arrayEnd ();
    J.attributeEnd ();
    J.objectEnd ();
    J.attributeEnd ();
  }

  void dumpFunction (const FunctionDecl *FD) {
    nextStmt = 0;
    stmtIds.clear ();
    J.objectBegin ();
    J.attribute ("name", FD->getNameAsString ());
    J.attribute ("file", fileOf (FD->getLocation ()));
    J.attribute ("line", (int64_t) lineOf (FD->getLocation ()));
    J.attribute ("endline", (int64_t) lineOf (FD->getBody ()->getEndLoc ()));
    J.attribute ("static", FD->getStorageClass () == SC_Static);
    J.attribute ("inline", FD->isInlineSpecified ());
    J.attribute ("variadic", FD->isVariadic ());
    J.attribute ("noreturn", FD->isNoReturn ());
    J.attribute ("ret", typeId (FD->getReturnType ()));
    J.attributeBegin ("params");
    J.arrayBegin ();
    for (const ParmVarDecl *P : FD->parameters ()) {
      J.objectBegin ();
      J.attribute ("n", P->getNameAsString ());
      J.attribute ("d", declId (P));
      J.attribute ("t", typeId (P->getType ()));
      J.objectEnd ();
    }
    J.arrayEnd ();
    J.attributeEnd ();
    J.attributeBegin ("body");
    dumpStmt (FD->getBody ());
    J.attributeEnd ();
    dumpCFG (FD);
    J.objectEnd ();
  }

  void dumpGlobal (const VarDecl *VD, const FunctionDecl *Owner) {
    J.objectBegin ();
    J.attribute ("name", VD->getNameAsString ());
    J.attribute ("d", declId (VD));
    J.attribute ("file", fileOf (VD->getLocation ()));
    J.attribute ("line", (int64_t) lineOf (VD->getLocation ()));
    J.attribute ("t", typeId (VD->getType ()));
    J.attribute ("static", VD->getStorageClass () == SC_Static);
    J.attribute ("extern_decl", VD->hasExternalStorage () && !VD->hasInit ());
    J.attribute ("tls", VD->getTLSKind () != VarDecl::TLS_None);
    if (Owner) J.attribute ("func", Owner->getNameAsString ());
    QualType T = VD->getType ();
    // const at the object level: for arrays look at the element type
    QualType ET = T;
    while (const ArrayType *AT = Ctx.getAsArrayType (ET)) ET = AT->getElementType ();
    J.attribute ("const_obj", ET.isConstQualified ());
    const VarDecl *Def = VD->getDefinition ();
    const Expr *Init = Def ? Def->getInit () : VD->getInit ();
    if (Init) {
      nextStmt = 0;
      stmtIds.clear ();
      J.attributeBegin ("init");
      dumpStmt (Init);
      J.attributeEnd ();
    }
    J.objectEnd ();
  }

  void dumpTypes () {
    J.attributeBegin ("types");
    J.arrayBegin ();
    // types may grow while dumping (records reference field types) — index loop
    for (size_t i = 0; i < types.size (); i++) {
      QualType T = types[i];
      QualType C = T.getCanonicalType ();
      J.objectBegin ();
      J.attribute ("s", T.getAsString ());
      J.attribute ("c", C.getAsString ());
      const char *kind = "other";
      if (C->isVoidType ())
        kind = "void";
      else if (C->isBooleanType ())
        kind = "bool";
      else if (C->isEnumeralType ())
        kind = "enum";
      else if (C->isIntegerType ())
        kind = "int";
      else if (C->isRealFloatingType ())
        kind = "float";
      else if (C->isFunctionPointerType ())
        kind = "fptr";
      else if (C->isPointerType ())
        kind = "ptr";
      else if (C->isArrayType ())
        kind = "array";
      else if (C->isRecordType ())
        kind = C->isUnionType () ? "union" : "struct";
      else if (C->isFunctionType ())
        kind = "func";
      J.attribute ("kind", kind);
      bool sizable = false;
      if (C->isBuiltinType () && !C->isVoidType () && !C->isPlaceholderType ())
        sizable = true;
      else if (C->isPointerType ())
        sizable = true;
      else if (C->isEnumeralType () || C->isRecordType ())
        sizable = !C->isIncompleteType ();
      else if (isa<ConstantArrayType> (C.getTypePtr ()))
        sizable = !Ctx.getBaseElementType (C)->isIncompleteType ();
      if (sizable) J.attribute ("w", (int64_t) Ctx.getTypeSize (C));
      if (C->isIntegerType () || C->isEnumeralType ()) J.attribute ("signed", C->isSignedIntegerOrEnumerationType ());
      J.attribute ("const", C.isConstQualified ());
      if (const auto *PT = C->getAs<PointerType> ()) {
        J.attribute ("pointee", typeId (PT->getPointeeType ()));
      } else if (const ArrayType *AT = Ctx.getAsArrayType (C)) {
        J.attribute ("elem", typeId (AT->getElementType ()));
        if (const auto *CAT = dyn_cast<ConstantArrayType> (AT)) J.attribute ("n", (int64_t) CAT->getSize ().getZExtValue ());
      }
      if (const auto *RT = C->getAs<RecordType> ()) J.attribute ("rec", recName (RT->getDecl ()));
      if (const auto *ET = C->getAs<EnumType> ()) {
        std::string n = ET->getDecl ()->getNameAsString ();
        if (n.empty ())
          if (const TypedefNameDecl *TD = ET->getDecl ()->getTypedefNameForAnonDecl ()) n = TD->getNameAsString ();
        J.attribute ("enum", n);
      }
      J.objectEnd ();
    }
    J.arrayEnd ();
    J.attributeEnd ();
  }

  void dumpRecords () {
    // must be called before dumpTypes; may enqueue further records
    J.attributeBegin ("records");
    J.objectBegin ();
    std::set<std::string> emitted;
    for (size_t i = 0; i < recordQueue.size (); i++) {
      const RecordDecl *RD = recordQueue[i];
      std::string n = recName (RD);
      if (n.empty () || RD->isInvalidDecl () || !RD->isCompleteDefinition ()) continue;
      if (!emitted.insert (n).second) continue;
      const ASTRecordLayout &L = Ctx.getASTRecordLayout (RD);
      J.attributeBegin (n);
      J.objectBegin ();
      J.attribute ("union", RD->isUnion ());
      J.attribute ("size", (int64_t) L.getSize ().getQuantity ());
      J.attribute ("file", fileOf (RD->getLocation ()));
      J.attribute ("line", (int64_t) lineOf (RD->getLocation ()));
      J.attributeBegin ("fields");
      J.arrayBegin ();
      unsigned idx = 0;
      for (const FieldDecl *F : RD->fields ()) {
        J.objectBegin ();
        J.attribute ("n", F->getNameAsString ());
        J.attribute ("t", typeId (F->getType ()));
        J.attribute ("off", (int64_t) L.getFieldOffset (idx));
        if (F->isBitField ()) J.attribute ("bits", (int64_t) F->getBitWidthValue (Ctx));
        J.objectEnd ();
        idx++;
      }
      J.arrayEnd ();
      J.attributeEnd ();
      J.objectEnd ();
      J.attributeEnd ();
    }
    J.objectEnd ();
    J.attributeEnd ();
  }
};

class Consumer : public ASTConsumer {
public:
  void HandleTranslationUnit (ASTContext &Ctx) override {
    std::error_code EC;
    llvm::raw_fd_ostream OS (g_out, EC);
    if (EC) {
      llvm::errs () << "mirsa: cannot write " << g_out << "\n";
      exit (3);
    }
    OStream J (OS);
    Dumper D (Ctx, J);
    J.objectBegin ();
    J.attribute ("root", g_root);
    TranslationUnitDecl *TU = Ctx.getTranslationUnitDecl ();
    // enums
    J.attributeBegin ("enums");
    J.objectBegin ();
    std::set<std::string> seenEnums;
    for (const Decl *Dl : TU->decls ()) {
      const EnumDecl *ED = nullptr;
      std::string name;
      if (const auto *E = dyn_cast<EnumDecl> (Dl)) {
        if (!E->isCompleteDefinition ()) continue;
        ED = E;
        name = E->getNameAsString ();
        if (name.empty ())
          if (const TypedefNameDecl *TD = E->getTypedefNameForAnonDecl ()) name = TD->getNameAsString ();
        if (name.empty ()) name = "<anon@" + D.fileOf (E->getLocation ()) + ":" + std::to_string (D.lineOf (E->getLocation ())) + ">";
      } else
        continue;
      if (!D.underRoot (ED->getLocation ())) continue;
      if (!seenEnums.insert (name).second) continue;
      J.attributeBegin (name);
      J.arrayBegin ();
      for (const EnumConstantDecl *EC : ED->enumerators ()) {
        J.arrayBegin ();
        J.value (EC->getNameAsString ());
        J.value (EC->getInitVal ().getExtValue ());
        J.arrayEnd ();
      }
      J.arrayEnd ();
      J.attributeEnd ();
    }
    J.objectEnd ();
    J.attributeEnd ();
    // typedef'd enum aliases: typedef enum X {...} Y;  map Y -> X
    J.attributeBegin ("enum_typedefs");
    J.objectBegin ();
    for (const Decl *Dl : TU->decls ()) {
      if (const auto *TD = dyn_cast<TypedefNameDecl> (Dl)) {
        if (!D.underRoot (TD->getLocation ())) continue;
        QualType U = TD->getUnderlyingType ().getCanonicalType ();
        if (const auto *ET = U->getAs<EnumType> ()) {
          std::string n = ET->getDecl ()->getNameAsString ();
          if (!n.empty () && n != TD->getNameAsString ()) J.attribute (TD->getNameAsString (), n);
        }
      }
    }
    J.objectEnd ();
    J.attributeEnd ();
    // functions
    J.attributeBegin ("functions");
    J.arrayBegin ();
    std::vector<std::pair<const VarDecl *, const FunctionDecl *>> statics;
    std::vector<std::string> decl_only;
    for (const Decl *Dl : TU->decls ()) {
      if (const auto *FD = dyn_cast<FunctionDecl> (Dl)) {
        if (!FD->doesThisDeclarationHaveABody ()) continue;
        if (!D.underRoot (FD->getLocation ())) continue;
        D.dumpFunction (FD);
        // function-static variables
        struct Finder {
          std::vector<const VarDecl *> out;
          void visit (const Stmt *S) {
            if (!S) return;
            if (const auto *DS = dyn_cast<DeclStmt> (S))
              for (const Decl *X : DS->decls ())
                if (const auto *VD = dyn_cast<VarDecl> (X))
                  if (VD->isStaticLocal ()) out.push_back (VD);
            for (const Stmt *C : S->children ()) visit (C);
          }
        } F;
        F.visit (FD->getBody ());
        for (const VarDecl *VD : F.out) statics.push_back ({VD, FD});
      }
    }
    J.arrayEnd ();
    J.attributeEnd ();
    // globals
    J.attributeBegin ("globals");
    J.arrayBegin ();
    std::set<const Decl *> seenVars;
    for (const Decl *Dl : TU->decls ()) {
      if (const auto *VD = dyn_cast<VarDecl> (Dl)) {
        if (!D.underRoot (VD->getLocation ())) continue;
        const VarDecl *Canon = VD->getCanonicalDecl ();
        const VarDecl *Def = VD->getDefinition ();
        // emit once per variable: prefer the definition
        if (Def && VD != Def) continue;
        if (!Def && VD != Canon) continue;
        if (!seenVars.insert (Canon).second) continue;
        D.dumpGlobal (VD, nullptr);
      }
    }
    for (auto &P : statics) D.dumpGlobal (P.first, P.second);
    J.arrayEnd ();
    J.attributeEnd ();
    D.dumpRecords ();
    // records may have added types and types may add records: iterate to a fixpoint by
    // dumping types last (typeId() inside dumpTypes extends the vector it walks)
    D.dumpTypes ();
    J.objectEnd ();
    OS << "\n";
  }
};

class Action : public ASTFrontendAction {
public:
  std::unique_ptr<ASTConsumer> CreateASTConsumer (CompilerInstance &CI, StringRef) override {
    CI.getDiagnostics ().setSuppressAllDiagnostics (false);
    return std::make_unique<Consumer> ();
  }
};

}  // namespace

int main (int argc, const char **argv) {
  if (argc < 5) {
    llvm::errs () << "usage: mirsa <out.json> <root-prefix> <source.c> -- <flags>\n";
    return 2;
  }
  g_out = argv[1];
  g_root = argv[2];
  std::string src = argv[3];
  int i = 4;
  if (std::string (argv[i]) != "--") {
    llvm::errs () << "mirsa: expected --\n";
    return 2;
  }
  std::vector<std::string> flags;
  for (i = i + 1; i < argc; i++) flags.push_back (argv[i]);
  clang::tooling::FixedCompilationDatabase DB (".", flags);
  clang::tooling::ClangTool Tool (DB, {src});
  int rc = Tool.run (clang::tooling::newFrontendActionFactory<Action> ().get ());
  return rc;
}
