#include <stdio.h>
#include <string.h>
#include <stdlib.h>
#include <setjmp.h>
#include "mir.h"
static jmp_buf jb; static int last_err = -1;
static void MIR_NO_RETURN err (MIR_error_type_t e, const char *fmt, ...) { last_err = e; longjmp (jb, 1); }
static unsigned char out1[1<<16], out2[1<<16]; static size_t n1, n2; static int which;
static int wr (MIR_context_t ctx, uint8_t b) { if (which==1) out1[n1++]=b; else out2[n2++]=b; return 1; }
static size_t rdpos; static int rd (MIR_context_t ctx) { return rdpos < n1 ? out1[rdpos++] : EOF; }
int main (int argc, char **argv) {
  MIR_context_t ctx = MIR_init ();
  MIR_set_error_func (ctx, err);
  const char *t = argv[1];
  if (!strcmp (t, "jcall")) {
    /* proto expects (i64) but we pass a double reg via JCALL */
    const char *src = "m: module\np: proto i64:a\nimport ext\nf: func d:x\n local i64:r\n jcall p, ext, x\n endfunc\nendmodule\n";
    if (setjmp (jb)) { printf ("jcall: rejected with error %d\n", last_err); return 0; }
    MIR_scan_string (ctx, src);
    printf ("jcall: ACCEPTED double arg for i64 param (no error)\n");
    /* same with call: */
    const char *src2 = "m2: module\np: proto i64:a\nimport ext\nf: func d:x\n call p, ext, x\n endfunc\nendmodule\n";
    if (setjmp (jb)) { printf ("call: rejected with error %d\n", last_err); return 0; }
    MIR_scan_string (ctx, src2);
    printf ("call: ACCEPTED\n");
  } else if (!strcmp (t, "expr")) {
    const char *src = "m: module\ne: func i64\n ret 5\n endfunc\nv: expr e\nendmodule\n";
    if (setjmp (jb)) { printf ("expr: error %d\n", last_err); return 0; }
    MIR_scan_string (ctx, src);
    MIR_output (ctx, stdout);
  } else if (!strcmp (t, "lref")) {
    const char *src = "m: module\nf: func i64\nL1:\n ret 5\n endfunc\nv: lref L1\nendmodule\n";
    if (setjmp (jb)) { printf ("lref: error %d at stage\n", last_err); return 0; }
    MIR_scan_string (ctx, src);
    which = 1; MIR_write_with_func (ctx, wr);
    MIR_context_t c2 = MIR_init (); MIR_set_error_func (c2, err);
    MIR_read_with_func (c2, rd);
    printf ("lref: read ok; loading...\n");
    MIR_module_t m = DLIST_HEAD (MIR_module_t, *MIR_get_module_list (c2));
    MIR_load_module (c2, m);
    printf ("lref: loaded ok\n");
  } else if (!strcmp (t, "ld")) {
    const char *src = "m: module\nf: func ld\n local ld:r\n ldmov r, 1.5L\n ret r\n endfunc\nendmodule\n";
    if (setjmp (jb)) { printf ("ld: error %d\n", last_err); return 0; }
    MIR_scan_string (ctx, src);
    which = 1; MIR_write_with_func (ctx, wr);
    { volatile char junk[4096]; memset ((void*)junk, 0xAB, sizeof junk); }
    which = 2; MIR_write_with_func (ctx, wr);
    printf ("ld: n1=%zu n2=%zu same=%d\n", n1, n2, n1==n2 && !memcmp (out1,out2,n1));
  } else if (!strcmp (t, "pdata")) {
    const char *src = "m: module\nd: p 16, 32\nendmodule\n";
    if (setjmp (jb)) { printf ("pdata: error %d\n", last_err); return 0; }
    MIR_scan_string (ctx, src);
    printf ("pdata: scanned ok\n");
  }
  return 0;
}
