int main (void) {
  static struct { long x; void *p; } s = {5, &&l0};
  goto *s.p;
l1:
  return 1;
l0:
  return 0;
}
