/* D18: get_string_char widens a signed char: raw byte 0xFF inside a string literal is taken for EOF */
#include <stdio.h>
#include <stdlib.h>
#include "mir.h"
static void err (MIR_error_type_t t, const char *fmt, ...) { printf ("error %d: %s\n", (int) t, fmt); exit (1); }
int main (void) {
  MIR_context_t ctx = MIR_init ();
  MIR_set_error_func (ctx, err);
  MIR_scan_string (ctx, "m: module\ns: string \"a\xff" "b\"\nendmodule\n");
  printf ("scanned ok\n");
  MIR_finish (ctx);
  return 0;
}
