#include "preexisting_harness.h"
/* struct {long double} passed on the stack after 7 ints: ABI aligns it to 16 */
static const char *text =
"m: module\n"
"export f\n"
"f: func i64, i64:a1, i64:a2, i64:a3, i64:a4, i64:a5, i64:a6, i64:a7, blk:16(s)\n"
" local i64:v\n"
" mov v, i64:0(s)\n"
" ret v\n"
" endfunc\n"
" endmodule\n";
struct S { long double x; };
int main (int argc, char **argv) {
  MIR_module_t m = load (text, argv[1]);
  MIR_item_t f = find_func (m, "f");
  int64_t (*fp) (long, long, long, long, long, long, long, struct S) = f->addr;
  struct S s;
  memset (&s, 0, sizeof (s));
  s.x = 1.0L; /* mantissa 0x8000000000000000 */
  int64_t r = fp (1, 2, 3, 4, 5, 6, 7, s);
  printf ("%s: %lx\n", argv[1], (long) r);
  return (uint64_t) r == 0x8000000000000000ull ? 0 : 1;
}
