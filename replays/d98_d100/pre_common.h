#include <stdio.h>
#include <string.h>
#include <stdlib.h>
#include <setjmp.h>
#include <stdarg.h>
#include "mir.h"
#include "mir-gen.h"
static MIR_module_t scan (MIR_context_t ctx, const char *s) {
  MIR_scan_string (ctx, s);
  return DLIST_TAIL (MIR_module_t, *MIR_get_module_list (ctx));
}
static MIR_item_t find (MIR_module_t m, const char *name) {
  for (MIR_item_t it = DLIST_HEAD (MIR_item_t, m->items); it; it = DLIST_NEXT (MIR_item_t, it))
    if (it->item_type == MIR_func_item && strcmp (it->u.func->name, name) == 0) return it;
  return NULL;
}
