#include <stdio.h>
#include <stdlib.h>
#include <string.h>
#include <stdarg.h>
#include <stdint.h>
#include "mir.h"
#include "mir-gen.h"
static MIR_context_t ctx;
static void *resolve (const char *name) {
  if (!strcmp (name, "memcpy")) return memcpy;
  if (!strcmp (name, "printf")) return printf;
  if (!strcmp (name, "abort")) return abort;
  fprintf (stderr, "unresolved %s\n", name); exit (2);
}
static MIR_item_t find_func (MIR_module_t m, const char *name) {
  for (MIR_item_t it = DLIST_HEAD (MIR_item_t, m->items); it != NULL; it = DLIST_NEXT (MIR_item_t, it))
    if (it->item_type == MIR_func_item && !strcmp (it->u.func->name, name)) return it;
  return NULL;
}
/* mode: i, 0,1,2,3, l (lazy), b (lazy bb) */
static MIR_module_t load (const char *text, const char *mode) {
  ctx = MIR_init ();
  MIR_scan_string (ctx, text);
  MIR_module_t m = DLIST_TAIL (MIR_module_t, *MIR_get_module_list (ctx));
  MIR_load_module (ctx, m);
  if (mode[0] == 'i') {
    MIR_link (ctx, MIR_set_interp_interface, resolve);
  } else {
    MIR_gen_init (ctx);
    int lvl = mode[0] >= '0' && mode[0] <= '3' ? mode[0] - '0' : (mode[1] ? mode[1] - '0' : 2);
    MIR_gen_set_optimize_level (ctx, lvl);
    if (getenv ("GEN_DEBUG")) { MIR_gen_set_debug_file (ctx, stderr); MIR_gen_set_debug_level (ctx, atoi(getenv ("GEN_DEBUG"))); }
    MIR_link (ctx, mode[0] == 'l' ? MIR_set_lazy_gen_interface : mode[0] == 'b' ? MIR_set_lazy_bb_gen_interface : MIR_set_gen_interface, resolve);
  }
  return m;
}
