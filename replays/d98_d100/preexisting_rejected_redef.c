/* Pre-existing (unmodified code): without redefinition permission the load of a second exported f
   is reported (MIR_repeated_decl_error) - but only AFTER the global table entry was already
   replaced.  With an error function that returns control by longjmp, a module linked afterwards
   has its import bound to the REJECTED definition (never linked: its thunk is undefined_interface,
   which is moreover entered with a NULL context -> SIGSEGV in MIR_get_error_func).
   build: cc -I<root> preexisting_rejected_redef.c <root>/_build/libmir_static.a -lm -lpthread
   prints "error at stage 1: func f is prohibited for redefinition" and then crashes (exit 139);
   expected "g() = 1001" */
#include "pre_common.h"
static jmp_buf jb;
static char emsg[300];
static void __attribute__ ((noreturn)) err (MIR_error_type_t t, const char *fmt, ...) {
  va_list ap;
  va_start (ap, fmt);
  vsnprintf (emsg, sizeof emsg, fmt, ap);
  longjmp (jb, 1);
}
static const char *A = "mA: module\n import f\n export g\n pf: proto i64, i64:x, ...\n g: func i64\n local i64:r\n call pf, f, r, 0\n add r, r, 1000\n ret r\n endfunc\n endmodule\n";
static const char *B1 = "mB1: module\n export f\n f: func i64, i64:x, ...\n ret 1\n endfunc\n endmodule\n";
static const char *B2 = "mB2: module\n export f\n f: func i64, i64:x, ...\n ret 2\n endfunc\n endmodule\n";
int main (void) {
  MIR_context_t ctx = MIR_init ();
  volatile int stage = 0;
  setvbuf (stdout, NULL, _IONBF, 0);
  MIR_set_error_func (ctx, err);
  MIR_module_t a = scan (ctx, A), b1 = scan (ctx, B1), b2 = scan (ctx, B2);
  if (setjmp (jb)) {
    printf ("error at stage %d: %s\n", stage, emsg);
    if (stage != 1) return 2;
  } else {
    MIR_load_module (ctx, b1);
    stage = 1;
    MIR_load_module (ctx, b2); /* must be rejected: no redefinition permission */
    printf ("second definition was NOT rejected\n");
    return 1;
  }
  stage = 2;
  MIR_load_module (ctx, a);
  MIR_link (ctx, MIR_set_interp_interface, NULL);
  int64_t r = ((int64_t (*) (void)) find (a, "g")->addr) ();
  printf ("g() = %ld (expect 1001: the rejected definition must not be bound)\n", (long) r);
  return r != 1001;
}
