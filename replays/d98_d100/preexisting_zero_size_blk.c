#include "preexisting_harness.h"
/* A zero-sized BLK+1 parameter takes an integer register; the generated callee copies the 8 bytes
   of the register into an alloca of 0 bytes, i.e. over the word at sp, which is the saved rbp
   (or the first saved callee-saved register): the caller's rbp is lost.  */
extern long chk_call (void *fn, const long iargs[6], const double dargs[8], long *ires);
static const char *text =
"m: module\n"
"export f\n"
"f: func i64, blk1:0(s), i64:a\n"
" local i64:v\n"
" add v, a, 1\n"
" ret v\n"
" endfunc\n"
" endmodule\n";
int main (int argc, char **argv) {
  MIR_module_t m = load (text, argv[1]);
  MIR_item_t f = find_func (m, "f");
  long iargs[6] = {0x1111, 41, 0, 0, 0, 0}, res = 0;
  double dargs[8] = {0};
  long mask = chk_call (f->addr, iargs, dargs, &res);
  printf ("%s: result %ld, violation mask 0x%lx (2 = rbp)\n", argv[1], res, mask);
  return res == 42 && mask == 0 ? 0 : 1;
}
