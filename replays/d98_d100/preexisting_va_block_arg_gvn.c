#include "preexisting_harness.h"
/* two identical va_block_arg insns into the same buffer */
static const char *text =
"m: module\n"
"export f\n"
"f: func i64, i64:n, ...\n"
" local i64:va, i64:buf, i64:s, i64:v\n"
" alloca va, 32\n"
" alloca buf, 16\n"
" va_start va\n"
" va_block_arg buf, va, 16, 1\n"
" mov s, i64:0(buf)\n"
" mov v, i64:8(buf)\n add s, s, v\n"
" va_block_arg buf, va, 16, 1\n"
" mov v, i64:0(buf)\n add s, s, v\n"
" mov v, i64:8(buf)\n add s, s, v\n"
" va_end va\n"
" ret s\n"
" endfunc\n"
" endmodule\n";
struct S { long a, b; };
int main (int argc, char **argv) {
  MIR_module_t m = load (text, argv[1]);
  MIR_item_t f = find_func (m, "f");
  int64_t (*fp) (int64_t, ...) = f->addr;
  struct S s1 = {1, 20}, s2 = {300, 4000};
  int64_t r = fp (2, s1, s2);
  printf ("%s: %ld\n", argv[1], (long) r);
  return r == 4321 ? 0 : 1;
}
