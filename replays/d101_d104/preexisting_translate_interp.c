#include <stdio.h>
#include <stdlib.h>
#include <string.h>
#include <inttypes.h>
#include "mir.h"
#include "mir2c/mir2c.h"
static char *read_file (const char *name) {
  FILE *f = fopen (name, "rb"); long len; char *buf;
  if (f == NULL) { perror (name); exit (2); }
  fseek (f, 0, SEEK_END); len = ftell (f); fseek (f, 0, SEEK_SET);
  buf = malloc (len + 1); if (fread (buf, 1, len, f) != (size_t) len) exit (2);
  buf[len] = 0; fclose (f); return buf;
}
int main (int argc, char **argv) {
  MIR_context_t ctx = MIR_init (); MIR_module_t m; MIR_item_t fi = NULL; MIR_val_t res; FILE *out;
  MIR_scan_string (ctx, read_file (argv[1]));
  m = DLIST_TAIL (MIR_module_t, *MIR_get_module_list (ctx));
  out = fopen (argv[2], "w"); MIR_module2c (ctx, out, m); fclose (out);
  for (MIR_item_t it = DLIST_HEAD (MIR_item_t, m->items); it != NULL; it = DLIST_NEXT (MIR_item_t, it))
    if (it->item_type == MIR_func_item && strcmp (it->u.func->name, "f") == 0) fi = it;
  MIR_load_module (ctx, m); MIR_link (ctx, MIR_set_interp_interface, NULL);
  MIR_interp (ctx, fi, &res, 0);
  printf ("f() = %" PRId64 "\n", res.i);
  MIR_finish (ctx); return 0;
}
