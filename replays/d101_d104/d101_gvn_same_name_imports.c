#include <stdio.h>
#include <string.h>
#include <stdlib.h>
#include "mir.h"
#include "mir-gen.h"
static const char *X = "mX: module\n export d\nd: i64 10\n endmodule\n";
static const char *Y = "mY: module\n export d\nd: i64 20\n endmodule\n";
static const char *A = "mA: module\n import d\n export f\nf: func i64\n local i64:r, i64:v\n mov r, d\n mov v, i64:(r)\n ret v\n endfunc\n endmodule\n";
static const char *B = "mB: module\n import d, f\n export g\npf: proto i64\ng: func i64\n local i64:r, i64:v1, i64:v2, i64:v\n mov r, d\n mov v1, i64:(r)\n call pf, f, v2\n add v, v1, v2\n ret v\n endfunc\n endmodule\n";
static MIR_module_t last_module (MIR_context_t ctx) { return DLIST_TAIL (MIR_module_t, *MIR_get_module_list (ctx)); }
static MIR_item_t find (MIR_module_t m, const char *n) {
  for (MIR_item_t it = DLIST_HEAD (MIR_item_t, m->items); it != NULL; it = DLIST_NEXT (MIR_item_t, it))
    if (it->item_type == MIR_func_item && strcmp (it->u.func->name, n) == 0) return it;
  return NULL;
}
int main (int argc, char **argv) {
  int level = argc > 1 ? atoi (argv[1]) : -1; /* -1: interpreter */
  MIR_context_t ctx = MIR_init ();
  MIR_module_t mA, mB, mX, mY;
  MIR_val_t v;
  MIR_scan_string (ctx, X); mX = last_module (ctx);
  MIR_scan_string (ctx, A); mA = last_module (ctx);
  MIR_scan_string (ctx, Y); mY = last_module (ctx);
  MIR_scan_string (ctx, B); mB = last_module (ctx);
  if (level >= 0) { MIR_gen_init (ctx); MIR_gen_set_optimize_level (ctx, level); }
  MIR_load_module (ctx, mX);
  MIR_load_module (ctx, mA);
  MIR_link (ctx, level >= 0 ? MIR_set_gen_interface : MIR_set_interp_interface, NULL);
  MIR_load_module (ctx, mY);
  MIR_load_module (ctx, mB);
  MIR_link (ctx, level >= 0 ? MIR_set_gen_interface : MIR_set_interp_interface, NULL);
  MIR_item_t g = find (mB, "g"), f = find (mA, "f");
  long rf, rg;
  if (level >= 0) { rf = ((int64_t (*) (void)) f->addr) (); rg = ((int64_t (*) (void)) g->addr) (); }
  else { MIR_interp (ctx, f, &v, 0); rf = v.i; MIR_interp (ctx, g, &v, 0); rg = v.i; }
  printf ("level %d: f() = %ld (expected 10), g() = %ld (expected 30)\n", level, rf, rg);
  if (level >= 0) MIR_gen_finish (ctx);
  MIR_finish (ctx);
  return !(rf == 10 && rg == 30);
}
