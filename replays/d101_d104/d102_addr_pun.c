#include <stdio.h>
int fbits (float f) { return *(int *) &f; }
long dbits (double d) { return *(long *) &d; }
float ibits (int i) { return *(float *) &i; }
int lowb (long x) { return *(unsigned char *) &x; }
int main (void) {
  printf ("%x %lx %g %d\n", fbits (1.0f), dbits (1.0), ibits (0x40000000), lowb (0x1234));
  return 0;
}
