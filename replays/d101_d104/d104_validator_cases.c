/* Behaviour of the UNMODIFIED library that already contradicts C15.
   Every case builds one function "f" in a fresh context with an error function that
   records the error and longjmps.  A case prints ACCEPTED when MIR_finish_func returned
   without any call of the error function.  For accepted ill-formed cases the module is
   then loaded, linked and generated in a child process to show what happens later.  */
#include <stdio.h>
#include <stdlib.h>
#include <string.h>
#include <setjmp.h>
#include <stdarg.h>
#include <signal.h>
#include <unistd.h>
#include <sys/wait.h>
#include "mir.h"
#include "mir-gen.h"

static jmp_buf jb;
static int last_err;
static char last_msg[500];

static void MIR_NO_RETURN err (MIR_error_type_t e, const char *fmt, ...) {
  va_list ap;

  va_start (ap, fmt);
  vsnprintf (last_msg, sizeof (last_msg), fmt, ap);
  va_end (ap);
  last_err = (int) e;
  longjmp (jb, 1);
}

typedef void (*build_t) (MIR_context_t ctx, MIR_item_t f, MIR_func_t func);
static MIR_item_t proto_v, proto_va, imp;

static int violations;

/* ill_formed_p: 1 - the function is ill-formed and must be rejected,
                 0 - the documentation allows it and it must be accepted */
static void run (const char *name, build_t b, int ill_formed_p, int gen_p) {
  MIR_context_t ctx = MIR_init ();
  volatile int accepted = 0;
  MIR_module_t m = NULL;

  MIR_set_error_func (ctx, err);
  last_err = 0;
  last_msg[0] = 0;
  if (setjmp (jb) == 0) {
    MIR_item_t f;

    m = MIR_new_module (ctx, "m");
    proto_v = MIR_new_proto (ctx, "pv", 0, NULL, 0);
    proto_va = MIR_new_vararg_proto (ctx, "pva", 0, NULL, 1, MIR_T_I64, "x");
    imp = MIR_new_import (ctx, "ext");
    f = MIR_new_vararg_func (ctx, "f", 0, NULL, 1, MIR_T_I64, "a");
    b (ctx, f, f->u.func);
    MIR_append_insn (ctx, f, MIR_new_ret_insn (ctx, 0));
    MIR_finish_func (ctx);
    MIR_finish_module (ctx);
    accepted = 1;
  }
  if (accepted)
    printf ("%-58s ACCEPTED", name);
  else
    printf ("%-58s error %d: %s", name, last_err, last_msg);
  if (accepted == ill_formed_p) {
    violations++;
    printf ("   <-- C15 VIOLATED (should be %s)", ill_formed_p ? "rejected" : "accepted");
  }
  printf ("\n");
  fflush (stdout);
  if (accepted && ill_formed_p && gen_p) { /* what happens with the accepted function later */
    pid_t pid = fork ();

    if (pid == 0) {
      signal (SIGALRM, SIG_DFL);
      alarm (20);
      if (setjmp (jb) != 0) {
        printf ("    later: error %d: %s\n", last_err, last_msg);
        fflush (stdout);
        _exit (0);
      }
      MIR_load_module (ctx, m);
      MIR_load_external (ctx, "ext", (void *) abort);
      MIR_gen_init (ctx);
      MIR_link (ctx, MIR_set_gen_interface, NULL);
      printf ("    later: code is generated without any diagnostic\n");
      fflush (stdout);
      _exit (0);
    } else {
      int status;

      waitpid (pid, &status, 0);
      if (WIFSIGNALED (status))
        printf ("    later: load/link/generation is killed by signal %d\n", WTERMSIG (status));
    }
  }
  /* the context is left as it is: after an error its state is not defined */
}

#define REG(n) MIR_new_reg_op (ctx, MIR_reg (ctx, n, func))

/* 1. an undeclared register as the base of the va_arg memory operand */
static void va_arg_undeclared_base (MIR_context_t ctx, MIR_item_t f, MIR_func_t func) {
  MIR_append_insn (ctx, f,
                   MIR_new_insn (ctx, MIR_VA_ARG, REG ("a"), REG ("a"),
                                 MIR_new_mem_op (ctx, MIR_T_I64, 0, 77, 0, 1)));
}
/* 2. a float register as the base of the va_arg memory operand */
static void va_arg_float_base (MIR_context_t ctx, MIR_item_t f, MIR_func_t func) {
  MIR_reg_t fr = MIR_new_func_reg (ctx, func, MIR_T_F, "fr");

  MIR_append_insn (ctx, f,
                   MIR_new_insn (ctx, MIR_VA_ARG, REG ("a"), REG ("a"),
                                 MIR_new_mem_op (ctx, MIR_T_I64, 0, fr, 0, 1)));
}
/* 3. va_arg memory operand of a type which is not a type of a value (MIR_T_BOUND) */
static void va_arg_bound_type (MIR_context_t ctx, MIR_item_t f, MIR_func_t func) {
  MIR_append_insn (ctx, f,
                   MIR_new_insn (ctx, MIR_VA_ARG, REG ("a"), REG ("a"),
                                 MIR_new_mem_op (ctx, MIR_T_BOUND, 0, 0, 0, 1)));
}
/* 4. a prototype item as the called function */
static void call_proto_as_callee (MIR_context_t ctx, MIR_item_t f, MIR_func_t func) {
  MIR_append_insn (ctx, f,
                   MIR_new_call_insn (ctx, 2, MIR_new_ref_op (ctx, proto_v),
                                      MIR_new_ref_op (ctx, proto_v)));
}
/* 5. a label as an unnamed argument of a variadic call */
static void vararg_call_label_arg (MIR_context_t ctx, MIR_item_t f, MIR_func_t func) {
  MIR_insn_t l = MIR_new_label (ctx);

  MIR_append_insn (ctx, f, l);
  MIR_append_insn (ctx, f,
                   MIR_new_call_insn (ctx, 4, MIR_new_ref_op (ctx, proto_va),
                                      MIR_new_ref_op (ctx, imp), MIR_new_int_op (ctx, 1),
                                      MIR_new_label_op (ctx, l)));
}
/* 6. prset: "property of the variable given as the 1st operand" -- a label here */
static void prset_label (MIR_context_t ctx, MIR_item_t f, MIR_func_t func) {
  MIR_insn_t l = MIR_new_label (ctx);

  MIR_append_insn (ctx, f, l);
  MIR_append_insn (ctx, f,
                   MIR_new_insn (ctx, MIR_PRSET, MIR_new_label_op (ctx, l),
                                 MIR_new_int_op (ctx, 1)));
}
/* 7. MIR_INVALID_INSN is created (with zero operands) and accepted as an insn of a function */
static void invalid_insn (MIR_context_t ctx, MIR_item_t f, MIR_func_t func) {
  MIR_append_insn (ctx, f, MIR_new_insn (ctx, MIR_INVALID_INSN));
}
/* 8. a label operand which refers to an insn which is not a label */
static void jmp_to_non_label (MIR_context_t ctx, MIR_item_t f, MIR_func_t func) {
  MIR_insn_t mv = MIR_new_insn (ctx, MIR_MOV, REG ("a"), MIR_new_int_op (ctx, 1));

  MIR_append_insn (ctx, f, mv);
  MIR_append_insn (ctx, f, MIR_new_insn (ctx, MIR_JMP, MIR_new_label_op (ctx, mv)));
}
/* 9. MIR.md: "va_list operand can be memory with undefined type" -- it is rejected */
static void va_end_undef_mem (MIR_context_t ctx, MIR_item_t f, MIR_func_t func) {
  MIR_append_insn (ctx, f,
                   MIR_new_insn (ctx, MIR_VA_END,
                                 MIR_new_mem_op (ctx, MIR_T_UNDEF, 0, MIR_reg (ctx, "a", func), 0,
                                                 1)));
}

int main (void) {
  run ("1. va_arg a, a, i64:(undeclared reg 77)", va_arg_undeclared_base, 1, 0);
  run ("2. va_arg a, a, i64:(float reg as base)", va_arg_float_base, 1, 0);
  run ("3. va_arg a, a, <memory of type MIR_T_BOUND>", va_arg_bound_type, 1, 1);
  run ("4. call pv, pv   (prototype as the callee)", call_proto_as_callee, 1, 1);
  run ("5. call pva, ext, 1, <label>   (label as vararg)", vararg_call_label_arg, 1, 1);
  run ("6. prset <label>, 1", prset_label, 1, 0);
  run ("7. MIR_new_insn (ctx, MIR_INVALID_INSN)", invalid_insn, 1, 1);
  run ("8. jmp <label operand referring to a mov insn>", jmp_to_non_label, 1, 1);
  run ("9. va_end <memory of undefined type> (documented as legal)", va_end_undef_mem, 0, 0);
  printf ("%d cases contradict C15\n", violations);
  return violations != 0;
}
