#include <stdio.h>
#include <stdlib.h>
#include <string.h>
#include "mir.h"
#include "mir2c/mir2c.h"
int main (int argc, char **argv) {
  FILE *f = fopen (argv[1], "r"); char *buf; long n; MIR_val_t res; MIR_item_t get = NULL;
  fseek (f, 0, SEEK_END); n = ftell (f); rewind (f);
  buf = malloc (n + 1); fread (buf, 1, n, f); buf[n] = 0; fclose (f);
  MIR_context_t ctx = MIR_init ();
  MIR_scan_string (ctx, buf);
  MIR_module_t m = DLIST_TAIL (MIR_module_t, *MIR_get_module_list (ctx));
  MIR_module2c (ctx, stdout, m);
  printf ("/* second translation of the same module: */\n");
  MIR_module2c (ctx, stdout, m);
  fflush (stdout);
  for (MIR_item_t it = DLIST_HEAD (MIR_item_t, m->items); it != NULL; it = DLIST_NEXT (MIR_item_t, it))
    if (it->item_type == MIR_func_item) get = it;
  MIR_load_module (ctx, m);
  MIR_link (ctx, MIR_set_interp_interface, NULL);
  MIR_interp (ctx, get, &res, 1, (MIR_val_t){.i = 1});
  printf ("/* interp get(1) = %ld */\n", (long) res.i);
  MIR_finish (ctx);
  return 0;
}
