#!/bin/sh
# usage: preexisting_run.sh <repo root> <file.mir> [gcc optimisation flag, default -O2]
root=${1:-/tmp/wt18_C20}; here=$(cd "$(dirname "$0")" && pwd); opt=${3:--O2}
tmp=$(mktemp -d /tmp/c20pre.XXXXXX); trap 'rm -rf "$tmp"' EXIT
gcc -O1 -DNDEBUG -I"$root" "$here/driver.c" "$root/mir2c/mir2c.c" "$root/_build/libmir_static.a" -lm -lpthread -o "$tmp/driver" || exit 3
echo "--- interpreter:"; timeout 60 "$tmp/driver" "$2" "$tmp/out.c"
echo "--- emitted C ($opt):"
gcc $opt -w "$tmp/out.c" "$here/cmain.c" -o "$tmp/prog" 2>&1 | grep error; [ -x "$tmp/prog" ] && { timeout 60 "$tmp/prog"; echo "exit status $?"; }
