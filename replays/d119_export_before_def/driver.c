/* Scans a textual MIR module, writes its C translation (mir2c) to argv[2] and interprets the
   function `test` (no arguments, one i64 result) of the module, printing the result.  */
#include <stdio.h>
#include <stdlib.h>
#include <string.h>
#include <inttypes.h>
#include "mir.h"
#include "mir2c/mir2c.h"

int64_t ext (int64_t a, int64_t b) { /* the external call of the test */
  printf ("ext(%" PRId64 ", %" PRId64 ")\n", a, b);
  return a + b;
}

static void *import_resolver (const char *name) {
  if (strcmp (name, "ext") == 0) return (void *) ext;
  if (strcmp (name, "printf") == 0) return (void *) printf;
  if (strcmp (name, "memcpy") == 0) return (void *) memcpy;
  return NULL;
}

int main (int argc, char **argv) {
  FILE *f;
  long len;
  char *text;
  MIR_context_t ctx = MIR_init ();
  MIR_module_t m;
  MIR_item_t item, test = NULL;
  MIR_val_t res;

  if (argc != 3 || (f = fopen (argv[1], "r")) == NULL) return 2;
  fseek (f, 0, SEEK_END); len = ftell (f); rewind (f);
  text = malloc (len + 1);
  if (fread (text, 1, len, f) != (size_t) len) return 2;
  text[len] = 0;
  fclose (f);
  MIR_scan_string (ctx, text);
  m = DLIST_TAIL (MIR_module_t, *MIR_get_module_list (ctx));
  if ((f = fopen (argv[2], "w")) == NULL) return 2;
  MIR_module2c (ctx, f, m);
  fclose (f);
  for (item = DLIST_HEAD (MIR_item_t, m->items); item != NULL; item = DLIST_NEXT (MIR_item_t, item))
    if (item->item_type == MIR_func_item && strcmp (item->u.func->name, "test") == 0) test = item;
  if (test == NULL) return 2;
  MIR_load_module (ctx, m);
  MIR_link (ctx, MIR_set_interp_interface, import_resolver);
  MIR_interp (ctx, test, &res, 0);
  printf ("result %" PRId64 "\n", res.i);
  fflush (stdout);
  MIR_finish (ctx);
  return 0;
}
