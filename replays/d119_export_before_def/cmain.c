/* Runs the C translation of the module: the same external function and the same report.  */
#include <stdio.h>
#include <inttypes.h>
int64_t ext (int64_t a, int64_t b) {
  printf ("ext(%" PRId64 ", %" PRId64 ")\n", a, b);
  return a + b;
}
extern int64_t test (void);
int main (void) {
  printf ("result %" PRId64 "\n", test ());
  return 0;
}
