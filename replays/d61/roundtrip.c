/* Round-trip checker: scan textual MIR, write binary (twice), read it back
   into a fresh context and compare the textual output of both. */
#include <stdio.h>
#include <stdlib.h>
#include <string.h>
#include "mir.h"

static unsigned char *buf[2];
static size_t buf_len[2], buf_cap[2], rd_pos;
static int cur;

static int wr (MIR_context_t ctx, uint8_t b) {
  (void) ctx;
  if (buf_len[cur] == buf_cap[cur]) {
    buf_cap[cur] = buf_cap[cur] ? 2 * buf_cap[cur] : 4096;
    buf[cur] = realloc (buf[cur], buf_cap[cur]);
  }
  buf[cur][buf_len[cur]++] = b;
  return 1;
}
static int rd (MIR_context_t ctx) {
  (void) ctx;
  return rd_pos < buf_len[0] ? buf[0][rd_pos++] : EOF;
}

static char *slurp (const char *name, size_t *len) {
  FILE *f = fopen (name, "rb");
  char *s;
  long n;
  if (f == NULL) { perror (name); exit (2); }
  fseek (f, 0, SEEK_END); n = ftell (f); fseek (f, 0, SEEK_SET);
  s = malloc (n + 1);
  if (fread (s, 1, n, f) != (size_t) n) exit (2);
  s[n] = 0; fclose (f);
  if (len) *len = n;
  return s;
}

static char *dump (MIR_context_t ctx, const char *fname, size_t *len) {
  FILE *f = fopen (fname, "wb");
  MIR_output (ctx, f);
  fclose (f);
  return slurp (fname, len);
}

int main (int argc, char **argv) {
  MIR_context_t c1, c2;
  char *src, *t1, *t2;
  size_t l1, l2;
  if (argc != 2) return 2;
  src = slurp (argv[1], NULL);
  c1 = MIR_init ();
  MIR_scan_string (c1, src);
  t1 = dump (c1, "/tmp/rt_C11_a.txt", &l1);
  cur = 0; MIR_write_with_func (c1, wr);
  cur = 1; MIR_write_with_func (c1, wr);
  if (buf_len[0] != buf_len[1] || memcmp (buf[0], buf[1], buf_len[0]) != 0) {
    printf ("FAIL: two writes of the same modules differ\n");
    return 1;
  }
  c2 = MIR_init ();
  MIR_read_with_func (c2, rd);
  t2 = dump (c2, "/tmp/rt_C11_b.txt", &l2);
  if (l1 != l2 || memcmp (t1, t2, l1) != 0) {
    printf ("FAIL: module text differs after binary round trip\n--- original\n%s--- read back\n%s", t1, t2);
    return 1;
  }
  printf ("OK: %zu bytes of binary MIR, text identical after round trip\n", buf_len[0]);
  MIR_finish (c1); MIR_finish (c2);
  return 0;
}
