/* Probes of the UNMODIFIED library (no seed patch needed) for property C13.
   usage: preexisting_probe <a|b|c>
     a: late rebinding in the interpreter: module `a` is linked once (step 1); loading a newer
        export afterwards (no further load/link of `a`) still changes what a function of `a`
        that was not executed yet sees (mir-interp.c refreshes import->addr from ref_def when it
        generates the interpreter code), whereas generated code keeps the step-1 binding.
     b: re-link with the generator: `a` is loaded and linked again after a newer export was
        loaded, import items are rebound, but MIR_gen reuses the old machine code.
     c: re-link with the interpreter and a direct call of a small imported function: the call was
        inlined by the first link, so the second link can not rebind it.
   Prints the observed values; exit 1 when the observed value differs from the one the property
   asks for. */
#include <stdio.h>
#include <stdint.h>
#include <string.h>
#include "mir.h"
#include "mir-gen.h"

static const char *m1_src
  = "m1: module\n\
export d, f\n\
d: i64 1\n\
f: func i64\n\
ret 10\n\
endfunc\n\
endmodule\n";

static const char *m2_src
  = "m2: module\n\
export d, f\n\
d: i64 2\n\
f: func i64\n\
ret 20\n\
endfunc\n\
endmodule\n";

static const char *a_src
  = "a: module\n\
import d, f\n\
pf: proto i64\n\
g: func i64\n\
local i64:p, i64:r\n\
mov p, d\n\
mov r, i64:(p)\n\
ret r\n\
endfunc\n\
k: func i64\n\
local i64:r\n\
call pf, f, r\n\
ret r\n\
endfunc\n\
endmodule\n";

static MIR_module_t last_module (MIR_context_t ctx) {
  return DLIST_TAIL (MIR_module_t, *MIR_get_module_list (ctx));
}

static MIR_item_t find_func (MIR_context_t ctx, MIR_module_t m, const char *name) {
  for (MIR_item_t it = DLIST_HEAD (MIR_item_t, m->items); it != NULL;
       it = DLIST_NEXT (MIR_item_t, it))
    if (it->item_type == MIR_func_item && strcmp (MIR_item_name (ctx, it), name) == 0) return it;
  return NULL;
}

typedef int64_t (*fun_t) (void);

int main (int argc, char **argv) {
  int mode = argc > 1 ? argv[1][0] : 'a', bad = 0;
  MIR_context_t ctx = MIR_init ();
  MIR_module_t m1, m2, a;
  MIR_item_t g, k;
  int64_t v;

  MIR_gen_init (ctx);
  MIR_set_func_redef_permission (ctx, 1);
  MIR_scan_string (ctx, m1_src);
  m1 = last_module (ctx);
  MIR_scan_string (ctx, a_src);
  a = last_module (ctx);
  MIR_scan_string (ctx, m2_src);
  m2 = last_module (ctx);
  g = find_func (ctx, a, "g");
  k = find_func (ctx, a, "k");
  if (mode == 'a') {
    for (int gen_p = 0; gen_p <= 1; gen_p++) { /* the two engines disagree */
      MIR_context_t c = MIR_init ();
      MIR_gen_init (c);
      MIR_scan_string (c, m1_src);
      m1 = last_module (c);
      MIR_scan_string (c, a_src);
      a = last_module (c);
      MIR_scan_string (c, m2_src);
      m2 = last_module (c);
      g = find_func (c, a, "g");
      MIR_set_func_redef_permission (c, 1);
      MIR_load_module (c, m1);
      MIR_load_module (c, a);
      MIR_link (c, gen_p ? MIR_set_gen_interface : MIR_set_interp_interface, NULL);
      MIR_load_module (c, m2); /* a is not loaded or linked again */
      MIR_link (c, gen_p ? MIR_set_gen_interface : MIR_set_interp_interface, NULL);
      v = ((fun_t) g->addr) ();
      printf ("a/%s: g() = %ld (a was linked when only m1.d = 1 was loaded: expected 1)\n",
              gen_p ? "gen" : "interp", (long) v);
      if (v != 1) bad = 1;
      MIR_gen_finish (c);
      MIR_finish (c);
    }
  } else {
    void (*iface) (MIR_context_t, MIR_item_t)
      = mode == 'b' ? MIR_set_gen_interface : MIR_set_interp_interface;
    MIR_item_t fn = mode == 'b' ? g : k;
    int64_t e1 = mode == 'b' ? 1 : 10, e2 = mode == 'b' ? 2 : 20;
    MIR_load_module (ctx, m1);
    MIR_load_module (ctx, a);
    MIR_link (ctx, iface, NULL);
    v = ((fun_t) fn->addr) ();
    printf ("%c: step 1: %s() = %ld (expected %ld)\n", mode, mode == 'b' ? "g" : "k", (long) v,
            (long) e1);
    if (v != e1) bad = 1;
    MIR_load_module (ctx, m2);
    MIR_load_module (ctx, a);
    MIR_link (ctx, iface, NULL);
    v = ((fun_t) fn->addr) ();
    printf ("%c: step 2 (m2 loaded, a loaded and linked again): %s() = %ld (expected %ld)\n", mode,
            mode == 'b' ? "g" : "k", (long) v, (long) e2);
    if (v != e2) bad = 1;
  }
  MIR_gen_finish (ctx);
  MIR_finish (ctx);
  return bad;
}
