#include <stdio.h>
#include "mir.h"
#include "mir-gen.h"
/* f (n, ...) returns the sum of n following i64 args; va_list given as memory of undefined type */
int main (void) {
  int bad = 0;
  for (int gen = 0; gen < 2; gen++) {
    MIR_context_t ctx = MIR_init ();
    MIR_type_t i64 = MIR_T_I64;
    MIR_module_t m = MIR_new_module (ctx, "m");
    MIR_item_t f = MIR_new_vararg_func (ctx, "f", 1, &i64, 1, MIR_T_I64, "n");
    MIR_func_t fn = f->u.func;
    MIR_reg_t n = MIR_reg (ctx, "n", fn), va = MIR_new_func_reg (ctx, fn, MIR_T_I64, "va"), s = MIR_new_func_reg (ctx, fn, MIR_T_I64, "s"),
              p = MIR_new_func_reg (ctx, fn, MIR_T_I64, "p"), i = MIR_new_func_reg (ctx, fn, MIR_T_I64, "i");
    MIR_label_t l = MIR_new_label (ctx), e = MIR_new_label (ctx);
    MIR_op_t vam = MIR_new_mem_op (ctx, MIR_T_UNDEF, 0, va, 0, 1);
    MIR_append_insn (ctx, f, MIR_new_insn (ctx, MIR_ALLOCA, MIR_new_reg_op (ctx, va), MIR_new_int_op (ctx, 32)));
    MIR_append_insn (ctx, f, MIR_new_insn (ctx, MIR_VA_START, vam));
    MIR_append_insn (ctx, f, MIR_new_insn (ctx, MIR_MOV, MIR_new_reg_op (ctx, s), MIR_new_int_op (ctx, 0)));
    MIR_append_insn (ctx, f, MIR_new_insn (ctx, MIR_MOV, MIR_new_reg_op (ctx, i), MIR_new_int_op (ctx, 0)));
    MIR_append_insn (ctx, f, l);
    MIR_append_insn (ctx, f, MIR_new_insn (ctx, MIR_BGE, MIR_new_label_op (ctx, e), MIR_new_reg_op (ctx, i), MIR_new_reg_op (ctx, n)));
    MIR_append_insn (ctx, f, MIR_new_insn (ctx, MIR_VA_ARG, MIR_new_reg_op (ctx, p), vam, MIR_new_mem_op (ctx, MIR_T_I64, 0, 0, 0, 1)));
    MIR_append_insn (ctx, f, MIR_new_insn (ctx, MIR_ADD, MIR_new_reg_op (ctx, s), MIR_new_reg_op (ctx, s), MIR_new_mem_op (ctx, MIR_T_I64, 0, p, 0, 1)));
    MIR_append_insn (ctx, f, MIR_new_insn (ctx, MIR_ADD, MIR_new_reg_op (ctx, i), MIR_new_reg_op (ctx, i), MIR_new_int_op (ctx, 1)));
    MIR_append_insn (ctx, f, MIR_new_insn (ctx, MIR_JMP, MIR_new_label_op (ctx, l)));
    MIR_append_insn (ctx, f, e);
    MIR_append_insn (ctx, f, MIR_new_insn (ctx, MIR_VA_END, vam));
    MIR_append_insn (ctx, f, MIR_new_ret_insn (ctx, 1, MIR_new_reg_op (ctx, s)));
    MIR_finish_func (ctx); MIR_finish_module (ctx); MIR_load_module (ctx, m);
    if (gen) { MIR_gen_init (ctx); MIR_gen_set_optimize_level (ctx, 2); MIR_link (ctx, MIR_set_gen_interface, NULL); } else MIR_link (ctx, MIR_set_interp_interface, NULL);
    long r = ((long (*) (long, ...)) f->addr) (3L, 10L, 20L, 12L);
    printf ("%s: f(3,10,20,12) = %ld\n", gen ? "gen" : "interp", r); bad |= r != 42;
    if (gen) MIR_gen_finish (ctx);
    MIR_finish (ctx);
  }
  return bad;
}
