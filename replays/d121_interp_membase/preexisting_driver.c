#include <stdio.h>
#include <stdlib.h>
#include <string.h>
#include "mir.h"
#include "mir-gen.h"
static char *rd (const char *fn) { FILE *f = fopen (fn, "rb"); if (!f) { perror (fn); exit (2);} fseek (f, 0, SEEK_END); long n = ftell (f); rewind (f); char *s = malloc (n + 1); if (fread (s, 1, n, f) != (size_t) n) exit (2); s[n] = 0; fclose (f); return s; }
int main (int argc, char **argv) {
  const char *mode = argv[1];
  MIR_context_t ctx = MIR_init ();
  char *s = rd (argv[2]);
  MIR_scan_string (ctx, s);
  MIR_item_t main_func = NULL;
  for (MIR_module_t m = DLIST_HEAD (MIR_module_t, *MIR_get_module_list (ctx)); m != NULL; m = DLIST_NEXT (MIR_module_t, m)) {
    for (MIR_item_t f = DLIST_HEAD (MIR_item_t, m->items); f != NULL; f = DLIST_NEXT (MIR_item_t, f))
      if (f->item_type == MIR_func_item && strcmp (f->u.func->name, "main") == 0) main_func = f;
    MIR_load_module (ctx, m);
  }
  MIR_load_external (ctx, "printf", printf);
  MIR_load_external (ctx, "abort", abort);
  MIR_gen_init (ctx);
  if (argc > 3) MIR_gen_set_optimize_level (ctx, atoi (argv[3]));
  MIR_val_t val; long r;
  if (strcmp (mode, "interp") == 0) { MIR_link (ctx, MIR_set_interp_interface, NULL); MIR_interp (ctx, main_func, &val, 0); r = val.i; }
  else {
    MIR_link (ctx, strcmp (mode, "shim") == 0 ? MIR_set_interp_interface : strcmp (mode, "gen") == 0 ? MIR_set_gen_interface : strcmp (mode, "lazy") == 0 ? MIR_set_lazy_gen_interface : MIR_set_lazy_bb_gen_interface, NULL);
    r = ((long (*) (void)) main_func->addr) ();
  }
  printf ("%s: ret=%ld\n", mode, r);
  MIR_gen_finish (ctx); MIR_finish (ctx); free (s);
  return 0;
}
