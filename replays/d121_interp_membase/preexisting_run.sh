#!/bin/sh
# usage: preexisting_run.sh <repo root> ; runs the two pre-existing reproducers through every interface
R=${1:-/tmp/wt19_C03}
D=$(cd "$(dirname "$0")" && pwd)
T=$(mktemp -d)
cc -O1 -g -I"$R" "$D/preexisting_driver.c" "$R/_build/libmir_static.a" -lm -lpthread -o "$T/drv" || exit 2
for t in preexisting_membase_arg; do
  for m in interp shim gen lazy bb; do
    timeout 60 "$T/drv" $m "$D/$t.mir" > "$T/out" 2>&1
    echo "$t $m rc=$? $(tr '\n' ' ' < "$T/out")"
  done
done
rm -rf "$T"
