/* D7: c2mir frees user-allocator blocks with libc free and mallocs behind the allocator's back */
#include <stdio.h>
#include <stdlib.h>
#include <string.h>
#include "mir.h"
#include "c2mir/c2mir.h"
static long live;
static void *m_malloc (size_t s, void *u) { char *p = malloc (s + 32); if (!p) return NULL; live++; *(size_t *) p = s; return p + 32; }
static void *m_calloc (size_t n, size_t s, void *u) { void *p = m_malloc (n * s, u); if (p) memset (p, 0, n * s); return p; }
static void m_free (void *p, void *u) { if (!p) return; live--; free ((char *) p - 32); }
static void *m_realloc (void *p, size_t o, size_t n, void *u) { void *q = m_malloc (n, u); if (p) { memcpy (q, p, o < n ? o : n); m_free (p, u); } return q; }
static struct MIR_alloc A = {m_malloc, m_calloc, m_realloc, m_free, NULL};
int main (void) {
  MIR_context_t ctx = MIR_init2 (&A, NULL);
  c2mir_init (ctx);
  printf ("c2mir_init done, live=%ld; calling c2mir_finish...\n", live); fflush (stdout);
  c2mir_finish (ctx);
  printf ("c2mir_finish returned, live=%ld\n", live);
  MIR_finish (ctx);
  printf ("after MIR_finish live=%ld\n", live);
  return 0;
}
