/* Pre-existing violation of C03 on the UNMODIFIED code (not caused by patch.diff):
   the same scenario as demo.c (load, link, run, load and link the module again, run) but with
   lazy basic-block generation as the second interface after gen or lazy gen (crash: the generator
   returns early for an already generated function and create_bb_stubs works on a stale
   curr_func_item), or as the first interface (the generator copy stays in func->insns:
   "undeclared reg ..." at the second link).
   usage: preexisting_relink_lazy_bb <first> <second>   0=interp 1=gen 2=lazy gen 3=lazy bb gen
   e.g. "1 3" and "2 3" crash, "3 0" .. "3 3" stop with an error, the other pairs print ok.  */
#include <stdio.h>
#include <stdlib.h>
#include <string.h>
#include <signal.h>
#include <unistd.h>
#include "mir.h"
#include "mir-gen.h"

static const char *src
  = "m:      module\n"
    "p_un:   proto i64, i64:x\n"
    "p_ap:   proto i64, p:f, i64:x\n"
    "sq:     func i64, i64:x\n"
    "        local i64:r\n"
    "        mul r, x, x\n"
    "        add r, r, 1\n"
    "        ret r\n"
    "        endfunc\n"
    "fact:   func i64, i64:n\n"
    "        local i64:r, i64:m\n"
    "        ble one, n, 1\n"
    "        sub m, n, 1\n"
    "        call p_un, fact, r, m\n"
    "        mul r, r, n\n"
    "        ret r\n"
    "one:\n"
    "        ret 1\n"
    "        endfunc\n"
    "apply:  func i64, p:f, i64:x\n"
    "        local i64:r\n"
    "        call p_un, f, r, x\n"
    "        ret r\n"
    "        endfunc\n"
    "drive:  func i64, i64:n\n"
    "        local i64:a, i64:b, i64:fa\n"
    "        mov fa, sq\n" /* the public address of sq */
    "        call p_ap, apply, a, fa, n\n"
    "        mov fa, fact\n"
    "        call p_ap, apply, b, fa, n\n"
    "        add a, a, b\n"
    "        ret a\n"
    "        endfunc\n"
    "        endmodule\n";

typedef void (*set_interface_t) (MIR_context_t ctx, MIR_item_t item);

static const char *names[] = {"interp", "gen", "lazy gen", "lazy bb gen"};
static set_interface_t interfaces[] = {MIR_set_interp_interface, MIR_set_gen_interface,
                                       MIR_set_lazy_gen_interface, MIR_set_lazy_bb_gen_interface};
#define N_INTERFACES 4

static const char *curr_step = "";

static void on_signal (int sig) {
  static const char msg[] = "FAIL: crash while calling a function through its public address: ";
  (void) !write (2, msg, sizeof (msg) - 1);
  (void) !write (2, curr_step, strlen (curr_step));
  (void) !write (2, "\n", 1);
  _exit (sig == SIGSEGV ? 3 : 4);
}

static MIR_item_t find_func (MIR_module_t m, const char *name) {
  for (MIR_item_t it = DLIST_HEAD (MIR_item_t, m->items); it != NULL;
       it = DLIST_NEXT (MIR_item_t, it))
    if (it->item_type == MIR_func_item && strcmp (it->u.func->name, name) == 0) return it;
  fprintf (stderr, "no func %s\n", name);
  exit (2);
}

/* 6 -> sq (6) + fact (6) = 37 + 720 */
#define ARG 6
#define EXPECTED 757

static int run (int first, int second) {
  static char step[128];
  MIR_context_t ctx = MIR_init ();
  MIR_module_t m;
  MIR_item_t drive;
  int64_t (*drive_addr) (int64_t), r1, r2;
  int ok;

  MIR_gen_init (ctx);
  MIR_scan_string (ctx, src);
  m = DLIST_HEAD (MIR_module_t, *MIR_get_module_list (ctx));
  drive = find_func (m, "drive");

  snprintf (step, sizeof (step), "first link with %s", names[first]);
  curr_step = step;
  MIR_load_module (ctx, m);
  MIR_link (ctx, interfaces[first], NULL);
  drive_addr = drive->addr;
  r1 = drive_addr (ARG);

  snprintf (step, sizeof (step), "%s, then the module is loaded and linked again with %s",
            names[first], names[second]);
  curr_step = step;
  MIR_load_module (ctx, m);
  MIR_link (ctx, interfaces[second], NULL);
  if (drive->addr != (void *) drive_addr) {
    printf ("FAIL: %s: the public address of drive changed\n", step);
    return 0;
  }
  r2 = drive_addr (ARG);
  ok = r1 == EXPECTED && r2 == EXPECTED;
  printf ("%s: %s: %ld then %ld (expected %d)\n", ok ? "ok" : "FAIL", step, (long) r1, (long) r2,
          EXPECTED);
  fflush (stdout);
  MIR_gen_finish (ctx);
  MIR_finish (ctx);
  return ok;
}

int main (int argc, char **argv) {
  int first = argc > 1 ? atoi (argv[1]) : 1, second = argc > 2 ? atoi (argv[2]) : 3;

  if (first < 0 || first >= N_INTERFACES || second < 0 || second >= N_INTERFACES) return 2;
  signal (SIGSEGV, on_signal);
  signal (SIGBUS, on_signal);
  signal (SIGILL, on_signal);
  return run (first, second) ? 0 : 1;
}
