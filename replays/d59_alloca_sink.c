/* Pre-existing (unmodified tree) C05 violation in the generator at -O1 and above:
   the post-RA combiner sinks a single-use `alloca` down to the hard-register argument move
   of a call, i.e. below the `sub rsp, N` that machinize_call() emitted for the outgoing stack
   arguments and below the stores of those arguments.  The alloca then moves rsp again, so
   the native callee finds garbage in the stack slots stored before it.
   (combine_substitute() in mir-gen.c: "r0 = r2 op r3; ...; ... = r0 => ...; ... = r2 op r3"
   moves the def insn with gen_move_insn_before(); rsp is an untracked implicit operand of alloca.)
     c2m -O0 preexisting_alloca_sink.c -eg   -> start / 1 2 3 4 5 6 7
     c2m -O2 preexisting_alloca_sink.c -eg   -> start / 1 2 3 4 <garbage> <garbage> 5   (also -O1, -O3)
     c2m preexisting_alloca_sink.c -ei       -> start / 1 2 3 4 5 6 7
*/
int printf (const char *, ...);
int puts (const char *);
int main (void) {
  char *p = __builtin_alloca (16); /* lives across puts() => kept in a callee-saved register */
  puts ("start");
  /* "%.0s" consumes the pointer without reading it; 5, 6, 7 go to the stack */
  printf ("%.0s%d %d %d %d %d %d %d\n", p, 1, 2, 3, 4, 5, 6, 7);
  return 0;
}
