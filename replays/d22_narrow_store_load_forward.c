/* D22: GVN store-to-load forwarding of a narrow memory value: after `mov i8:(p), x` a following `mov r, i8:(p)` must yield
   the sign-extended low byte of x; at -O2/-O3 the generator forwards x unchanged. */
#include <stdio.h>
#include <string.h>
#include <stdlib.h>
#include "mir.h"
#include "mir-gen.h"

static const char *src = "m: module\n\
f: func i64, p:buf, i64:x\n\
  local i64:r\n\
  mov i8:(buf), x\n\
  mov r, i8:(buf)\n\
  ret r\n\
  endfunc\n\
g: func i64, p:buf, i64:x\n\
  local i64:r\n\
  mov u16:(buf), x\n\
  mov r, u16:(buf)\n\
  ret r\n\
  endfunc\n\
h: func i64, p:buf, i64:x\n\
  local i64:r\n\
  mov i32:(buf), x\n\
  mov r, i32:(buf)\n\
  ret r\n\
  endfunc\n\
  endmodule\n";

typedef long (*fn_t) (void *, long);
int main (void) {
  int bad = 0;
  const char *names[] = {"f", "g", "h"};
  long xs[] = {0x1ff, 0x12345678, 0x1ffffffffL};
  long expect[3];
  for (int level = -1; level <= 3; level++) {
    MIR_context_t ctx = MIR_init ();
    MIR_scan_string (ctx, src);
    MIR_module_t m = DLIST_TAIL (MIR_module_t, *MIR_get_module_list (ctx));
    MIR_load_module (ctx, m);
    if (level < 0) {
      MIR_link (ctx, MIR_set_interp_interface, NULL);
    } else {
      MIR_gen_init (ctx);
      MIR_gen_set_optimize_level (ctx, level);
      MIR_link (ctx, MIR_set_gen_interface, NULL);
    }
    int k = 0;
    for (MIR_item_t it = DLIST_HEAD (MIR_item_t, m->items); it != NULL; it = DLIST_NEXT (MIR_item_t, it)) {
      if (it->item_type != MIR_func_item) continue;
      char buf[16];
      memset (buf, 0, sizeof buf);
      long r = ((fn_t) it->addr) (buf, xs[k]);
      if (level < 0) expect[k] = r;
      printf ("%s %s(%#lx) = %ld%s\n", level < 0 ? "interp" : level == 0 ? "gen-O0" : level == 1 ? "gen-O1" : level == 2 ? "gen-O2" : "gen-O3",
              names[k], xs[k], r, r != expect[k] ? "   <-- differs from the interpreter" : "");
      if (r != expect[k]) bad++;
      k++;
    }
    if (level >= 0) MIR_gen_finish (ctx);
    MIR_finish (ctx);
  }
  printf (bad ? "WRONG: %d results differ\n" : "ok\n", bad);
  return bad != 0;
}
