/* Observed on the UNMODIFIED tree (not caused by patch.diff, not fixed here).

   reduce_decode_get copies a back reference with memcpy (mir-reduce.h:411).  The encoder never
   produces a reference whose source overlaps its destination, but the decoder only checks both
   ranges against the buffer size, so a damaged stream can request an overlapping copy
   (source start + length > current position).  The accesses stay inside the decoder's own buffer
   and the stream is rejected afterwards by the check hash, but memcpy with overlapping ranges is
   undefined behaviour and the copy reads bytes the decoder has not produced yet.

   Build with -fsanitize=address: ASan reports memcpy-param-overlap.
     cc -g -fsanitize=address -I<repo> preexisting_memcpy_overlap.c && ./a.out  */
#include <stdio.h>
#include <stdint.h>
#include <string.h>
#include "mir-alloc.h"
#include "mir-reduce.h"
#include "mir-alloc-default.c"

/* "MIR", element: 4 literals "abcd" + long reference (length 100+3) to the symbol 1 back,
   i.e. source = position 3, destination = position 4; then end of stream with a dummy hash */
static const uint8_t stream[] = {'M', 'I', 'R', 0x9f, 'a', 'b', 'c', 'd', 0xe4, 0x81,
                                 0,   1,   2,   3,    4,   5,   6,   7,   8};
static size_t pos;
static size_t rd (void *s, size_t l, void *a) {
  size_t n = sizeof (stream) - pos < l ? sizeof (stream) - pos : l;
  memcpy (s, stream + pos, n);
  pos += n;
  return n;
}
static size_t wr (const void *s, size_t l, void *a) { return l; }

int main (void) {
  int ok = reduce_decode (&default_alloc, rd, wr, NULL);
  printf ("damaged stream %s\n", ok ? "ACCEPTED" : "rejected");
  return ok;
}
