/* PRE-EXISTING (unmodified code): f calls g directly (same module).  f is generated lazily while g
   is not; then a later module is linked with MIR_set_gen_interface.  target_change_to_direct_calls
   (mir-gen-x86_64.c) retargets the call in f to g->machine_code which is still NULL.  With the
   default code allocator the rel32 range check happens to reject NULL, with a code allocator
   returning memory in the low 2GB (MAP_32BIT) the call is patched to address 0.
   Build: cc -w -I$ROOT preexisting_direct_call_null.c $ROOT/_build/libmir_static.a -lm -lpthread
   Run:   ./a.out       -> f(2) correct, exit 0
          ./a.out low   -> SIGSEGV at rip=0 on the unmodified tree  */
#define _GNU_SOURCE
#include <stdio.h>
#include <stdlib.h>
#include <string.h>
#include <sys/mman.h>
#include "mir.h"
#include "mir-gen.h"
#undef MAP_FAILED
static void *low_map (size_t len, void *d) {
  void *p = mmap (NULL, len, PROT_READ | PROT_EXEC, MAP_PRIVATE | MAP_ANONYMOUS | MAP_32BIT, -1, 0);
  return p == (void *) -1 ? NULL : p;
}
static int low_unmap (void *p, size_t len, void *d) { return munmap (p, len); }
static int low_protect (void *p, size_t len, MIR_mem_protect_t prot, void *d) {
  return mprotect (p, len, prot == PROT_WRITE_EXEC ? PROT_READ | PROT_WRITE | PROT_EXEC : PROT_READ | PROT_EXEC);
}
static struct MIR_code_alloc low_alloc = {low_map, low_unmap, low_protect, NULL};

static char text[20000];
static void build_text (void) {
  char *p = text;
  p += sprintf (p, "m1: module\npg: proto i64, i64:x\n");
  p += sprintf (p, "g: func i64, i64:x\n local i64:r\n mov r, x\n");
  for (int i = 0; i < 60; i++) p += sprintf (p, " add r, r, %d\n mul r, r, 3\n", i + 1);
  p += sprintf (p, " ret r\n endfunc\n");
  p += sprintf (p, "f: func i64, i64:x\n local i64:r\n bne L1, x, 0\n ret 1\nL1:\n call pg, g, r, x\n add r, r, 5\n ret r\n endfunc\n");
  p += sprintf (p, " export f, g\n endmodule\n");
  p += sprintf (p, "m2: module\nh: func i64, i64:x\n local i64:r\n add r, x, 1\n ret r\n endfunc\n export h\n endmodule\n");
}
int main (int argc, char **argv) {
  int low_p = argc > 1 && strcmp (argv[1], "low") == 0;
  MIR_context_t ctx = low_p ? MIR_init2 (NULL, &low_alloc) : MIR_init ();
  build_text ();
  MIR_scan_string (ctx, text);
  MIR_module_t m1 = DLIST_HEAD (MIR_module_t, *MIR_get_module_list (ctx));
  MIR_module_t m2 = DLIST_NEXT (MIR_module_t, m1);
  MIR_item_t f = NULL, g = NULL;
  for (MIR_item_t it = DLIST_HEAD (MIR_item_t, m1->items); it; it = DLIST_NEXT (MIR_item_t, it))
    if (it->item_type == MIR_func_item) { if (strcmp (it->u.func->name, "f") == 0) f = it; else g = it; }
  MIR_gen_init (ctx);
  MIR_load_module (ctx, m1);
  MIR_link (ctx, MIR_set_lazy_gen_interface, NULL);
  typedef int64_t (*fn_t) (int64_t);
  fn_t fp = (fn_t) f->addr;
  printf ("f(0)=%ld\n", (long) fp (0)); /* f is generated lazily here, g is not */
  MIR_load_module (ctx, m2);
  MIR_link (ctx, MIR_set_gen_interface, NULL); /* finishes with direct call patching */
  MIR_val_t v, in; in.i = 2;
  MIR_interp (ctx, g, &v, 1, in);
  int64_t expect = v.i + 5;
  fflush (stdout);
  int64_t r = fp (2);
  printf ("f(2)=%ld expected %ld\n", (long) r, (long) expect);
  MIR_gen_finish (ctx); MIR_finish (ctx);
  return r == expect ? 0 : 1;
}
