/* Pre-existing (unmodified tree): run with argument 1.  A module is loaded, linked with the
   interpreter interface and interpreted; then it is loaded and linked again (allowed with
   MIR_set_func_redef_permission).  MIR_link overwrites func_item->data (the interpreter
   func_desc) with the inlining flag: the block is never released.  Argument 0: no reload, clean. */
#include "d120_track.h"
#include "mir-gen.h"
static const char *src =
"m: module\n"
"   export f\n"
"p: proto i64, i64:a\n"
"g: func i64, i64:a\n"
"   local i64:r\n"
"   add r, a, 1\n"
"   ret r\n"
"   endfunc\n"
"f: func i64, i64:a\n"
"   local i64:r\n"
"   call p, g, r, a\n"
"   add r, r, 5\n"
"   ret r\n"
"   endfunc\n"
"   endmodule\n";
int main (int argc, char **argv) {
  int mode = argc > 1 ? atoi (argv[1]) : 0;
  track_init ();
  MIR_context_t ctx = MIR_init2 (&track_alloc, &track_code_alloc);
  MIR_scan_string (ctx, src);
  MIR_module_t m = DLIST_TAIL (MIR_module_t, *MIR_get_module_list (ctx));
  MIR_item_t f = NULL;
  for (MIR_item_t it = DLIST_HEAD (MIR_item_t, m->items); it; it = DLIST_NEXT (MIR_item_t, it))
    if (it->item_type == MIR_func_item) f = it;
  MIR_load_module (ctx, m);
  MIR_link (ctx, MIR_set_interp_interface, NULL);
  MIR_val_t res, arg; arg.i = 3;
  MIR_interp_arr (ctx, f, &res, 1, &arg);
  printf ("interp %ld\n", (long) res.i);
  if (mode == 1) { /* reload and relink with interp */
    MIR_set_func_redef_permission (ctx, 1);
    MIR_load_module (ctx, m);
    MIR_link (ctx, MIR_set_interp_interface, NULL);
    MIR_interp_arr (ctx, f, &res, 1, &arg);
    printf ("interp %ld\n", (long) res.i);
  }
  MIR_finish (ctx);
  return track_report () != 0;
}
