/* Pre-existing (unmodified code): a function with label reference data (lref) that was generated
   and then interpreted can no longer be called through its generated code: preparing the
   interpreter code overwrites the shared lref data with interpreter code offsets. */
#include <stdio.h>
#include <stdlib.h>
#include <string.h>
#include "mir.h"
#include "mir-gen.h"
static const char *text
  = "M0:     module\n"
    "        forward la0, la1\n"
    "f:      func i32, i32:argc\n"
    "        local i64:a, i64:t\n"
    "        bge fail, argc, 2\n"
    "        mov t, la0\n"
    "        mov a, i64:(t)\n"
    "        jmp skip\n"
    "fail:   mov t, la1\n"
    "        mov a, i64:(t)\n"
    "skip:   jmpi a\n"
    "l1:     ret 1\n"
    "l0:     ret 0\n"
    "        endfunc\n"
    "la0:    lref l0\n"
    "la1:    lref l1\n"
    "        export f\n"
    "        endmodule\n";
int main (void) {
  MIR_context_t ctx = MIR_init ();
  MIR_module_t m;
  MIR_item_t f = NULL;
  MIR_val_t v, arg;
  int (*code) (int);
  int r1, r3;
  setvbuf (stdout, NULL, _IONBF, 0);
  MIR_gen_init (ctx);
  MIR_scan_string (ctx, text);
  m = DLIST_TAIL (MIR_module_t, *MIR_get_module_list (ctx));
  MIR_load_module (ctx, m);
  MIR_link (ctx, MIR_set_gen_interface, NULL);
  for (MIR_item_t it = DLIST_HEAD (MIR_item_t, m->items); it != NULL; it = DLIST_NEXT (MIR_item_t, it))
    if (it->item_type == MIR_func_item) f = it;
  code = MIR_gen (ctx, f);
  r1 = code (5);
  printf ("generated: %d\n", r1);
  arg.i = 5;
  MIR_interp_arr (ctx, f, &v, 1, &arg);
  printf ("interpreted after generation: %ld\n", (long) v.i);
  r3 = code (5); /* same entry address as before */
  printf ("generated again: %d\n", r3);
  MIR_gen_finish (ctx);
  MIR_finish (ctx);
  return !(r1 == 1 && v.i == 1 && r3 == 1);
}
