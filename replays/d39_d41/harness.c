/* Differential harness: run function "f" (i64 f(i64 a, i64 b, i64 mem)) of a MIR text file
   through the interpreter and through the generator at -O0..-O3, compare result, memory buffer
   and the log of calls to the external function "ext". */
#include <stdio.h>
#include <stdlib.h>
#include <string.h>
#include <stdint.h>
#include "mir.h"
#include "mir-gen.h"

#define MEM_SIZE 256
#define MAX_LOG 256
static int64_t call_log[MAX_LOG];
static int log_len;

static int64_t ext (int64_t x) {
  if (log_len < MAX_LOG) call_log[log_len++] = x;
  return x * 3 + 1;
}

static void *import_resolver (const char *name) {
  if (strcmp (name, "ext") == 0) return (void *) ext;
  return NULL;
}

typedef struct {
  int64_t res;
  unsigned char mem[MEM_SIZE];
  int64_t log[MAX_LOG];
  int log_len;
} outcome_t;

static char *read_file (const char *name) {
  FILE *f = fopen (name, "rb");
  if (f == NULL) { perror (name); exit (2); }
  fseek (f, 0, SEEK_END);
  long len = ftell (f);
  fseek (f, 0, SEEK_SET);
  char *s = malloc (len + 1);
  if (fread (s, 1, len, f) != (size_t) len) exit (2);
  s[len] = 0;
  fclose (f);
  return s;
}

static void run (const char *text, int level, int64_t a, int64_t b, outcome_t *o, int debug) {
  MIR_context_t ctx = MIR_init ();
  MIR_item_t func = NULL;
  MIR_scan_string (ctx, text);
  MIR_module_t m = DLIST_TAIL (MIR_module_t, *MIR_get_module_list (ctx));
  for (MIR_item_t it = DLIST_HEAD (MIR_item_t, m->items); it != NULL; it = DLIST_NEXT (MIR_item_t, it))
    if (it->item_type == MIR_func_item && strcmp (it->u.func->name, "f") == 0) func = it;
  if (func == NULL) { fprintf (stderr, "no function f\n"); exit (2); }
  MIR_load_module (ctx, m);
  MIR_load_external (ctx, "ext", ext);
  memset (o, 0, sizeof (*o));
  for (int i = 0; i < MEM_SIZE; i++) o->mem[i] = (unsigned char) (i * 7 + 3);
  log_len = 0;
  if (level < 0) {
    MIR_link (ctx, MIR_set_interp_interface, import_resolver);
  } else {
    MIR_gen_init (ctx);
    MIR_gen_set_optimize_level (ctx, level);
    if (debug) { MIR_gen_set_debug_file (ctx, stderr); MIR_gen_set_debug_level (ctx, 2); }
    MIR_link (ctx, MIR_set_gen_interface, import_resolver);
  }
  int64_t (*fp) (int64_t, int64_t, void *) = func->addr;
  o->res = fp (a, b, o->mem);
  o->log_len = log_len;
  memcpy (o->log, call_log, sizeof (call_log));
  if (level >= 0) MIR_gen_finish (ctx);
  MIR_finish (ctx);
}

int main (int argc, char **argv) {
  if (argc < 4) { fprintf (stderr, "usage: %s file.mir a b [debug-level]\n", argv[0]); return 2; }
  char *text = read_file (argv[1]);
  int64_t a = strtoll (argv[2], NULL, 0), b = strtoll (argv[3], NULL, 0);
  int dbg = argc > 4 ? atoi (argv[4]) : -2;
  outcome_t ref, o;
  int bad = 0;
  run (text, -1, a, b, &ref, 0);
  printf ("interp: res=%lld calls=%d\n", (long long) ref.res, ref.log_len);
  for (int level = 0; level <= 3; level++) {
    run (text, level, a, b, &o, dbg == level);
    int same = o.res == ref.res && memcmp (o.mem, ref.mem, MEM_SIZE) == 0
               && o.log_len == ref.log_len
               && memcmp (o.log, ref.log, sizeof (int64_t) * ref.log_len) == 0;
    printf ("gen -O%d: res=%lld calls=%d %s\n", level, (long long) o.res, o.log_len,
            same ? "ok" : "MISMATCH");
    if (!same) bad = 1;
  }
  return bad;
}
