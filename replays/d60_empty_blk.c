/* Pre-existing (unmodified tree) C05 violation: interpreter FFI (_MIR_get_ff_call in
   mir-x86_64.c) with a zero-size by-value block argument.  gen_blk_mov() is emitted with
   qwords == 0; its copy loop decrements first (rax = -1) and so copies one qword from
   mem[blk_addr - 8] to mem[rsp + sp_offset - 8], i.e. over the previous outgoing stack slot.
   Here the 6th printf integer (first stack arg) is clobbered.
     c2m preexisting_empty_blk.c -ei       -> 1 2 3 4 5 <garbage> 7   (expected 1 2 3 4 5 6 7)
     c2m -O0 preexisting_empty_blk.c -eg   -> 1 2 3 4 5 6 7
   (With -O1..-O3 -eg the same source prints 1 2 3 4 5 6 <garbage>: that is the separate
   alloca-sinking combiner bug, see preexisting_alloca_sink.c.)
*/
int printf (const char *, ...);
typedef struct {
} empty_t;
int main (void) {
  empty_t e;
  printf ("%d %d %d %d %d %d %d\n", 1, 2, 3, 4, 5, 6, e, 7);
  return 0;
}
