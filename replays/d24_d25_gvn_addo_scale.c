/* D24: GVN folds an overflow add of constants into `mov r, 0`, emitted as `xor r,r` between the ADDO and its BO: flags lost.
   D25: update_addr_p multiplies a memory operand's uint8 scale by a constant factor without range check (2*129 -> 258 & 255 = 2). */
#include <stdio.h>
#include <string.h>
#include <stdlib.h>
#include "mir.h"
#include "mir-gen.h"

static const char *src = "m: module\n\
f: func i64, p:a\n\
  local i64:r, i64:x\n\
  mov x, -9223372036854775808\n\
  addo r, x, x\n\
  bo L\n\
  mov i64:(a), r\n\
  ret 10\n\
L:\n\
  mov i64:(a), r\n\
  ret 20\n\
  endfunc\n\
g: func i64, p:z, i64:x\n\
  local i64:t, i64:r\n\
  mul t, x, 129\n\
  mov r, u8:(z, t, 2)\n\
  ret r\n\
  endfunc\n\
  endmodule\n";

typedef long (*f_t) (void *);
typedef long (*g_t) (void *, long);
int main (void) {
  int bad = 0;
  long ef = 0, eg = 0;
  for (int level = -1; level <= 3; level++) {
    MIR_context_t ctx = MIR_init ();
    MIR_scan_string (ctx, src);
    MIR_module_t m = DLIST_TAIL (MIR_module_t, *MIR_get_module_list (ctx));
    MIR_load_module (ctx, m);
    if (level < 0) {
      MIR_link (ctx, MIR_set_interp_interface, NULL);
    } else {
      MIR_gen_init (ctx);
      MIR_gen_set_optimize_level (ctx, level);
      MIR_link (ctx, MIR_set_gen_interface, NULL);
    }
    MIR_item_t fi = NULL, gi = NULL;
    for (MIR_item_t it = DLIST_HEAD (MIR_item_t, m->items); it != NULL; it = DLIST_NEXT (MIR_item_t, it))
      if (it->item_type == MIR_func_item) { if (fi == NULL) fi = it; else gi = it; }
    long cell = 7;
    unsigned char buf[600];
    for (int i = 0; i < 600; i++) buf[i] = i == 258 ? 45 : i == 2 ? 42 : 0;
    long rf = ((f_t) fi->addr) (&cell), rg = ((g_t) gi->addr) (buf, 1);
    if (level < 0) { ef = rf; eg = rg; }
    printf ("%s: f() = %ld%s   g(1) = %ld%s\n", level < 0 ? "interp" : level == 0 ? "gen-O0" : level == 1 ? "gen-O1" : level == 2 ? "gen-O2" : "gen-O3",
            rf, rf != ef ? " <-- D24" : "", rg, rg != eg ? " <-- D25" : "");
    bad += (rf != ef) + (rg != eg);
    if (level >= 0) MIR_gen_finish (ctx);
    MIR_finish (ctx);
  }
  printf (bad ? "WRONG: %d results differ from the interpreter\n" : "ok\n", bad);
  return bad != 0;
}
