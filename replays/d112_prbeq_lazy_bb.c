/* Pre-existing (unmodified tree): lazy BB generation removes (frees) a PRBEQ/PRBNE insn that is not
   taken and then keeps reading curr_insn->code of the freed insn after the loop in
   generate_bb_version_machine_code (mir-gen.c).  Run under valgrind (default allocators) to see the
   invalid reads; the user-allocator audit cannot see reads.  */
#include <stdio.h>
#include <stdint.h>
#include "mir.h"
#include "mir-gen.h"

static const char *text = "m: module\n\
export f\n\
f: func i64, i64:a\n\
   local i64:r\n\
   mov r, a\n\
   prbeq L1, r, 5\n\
   add r, r, 1\n\
L1:\n\
   ret r\n\
   endfunc\n\
   endmodule\n";

int main (void) {
  MIR_context_t ctx = MIR_init ();
  MIR_module_t m;
  MIR_item_t f = NULL;
  int64_t r;

  MIR_scan_string (ctx, text);
  m = DLIST_TAIL (MIR_module_t, *MIR_get_module_list (ctx));
  for (MIR_item_t it = DLIST_HEAD (MIR_item_t, m->items); it != NULL; it = DLIST_NEXT (MIR_item_t, it))
    if (it->item_type == MIR_func_item) f = it;
  MIR_load_module (ctx, m);
  MIR_gen_init (ctx);
  MIR_link (ctx, MIR_set_lazy_bb_gen_interface, NULL);
  r = ((int64_t (*) (int64_t)) f->addr) (41);
  MIR_gen_finish (ctx);
  MIR_finish (ctx);
  fprintf (stderr, "result %ld (expected 42)\n", (long) r);
  return r != 42;
}
