/* Tracking allocators for the C17 demo: every block/region handed out is recorded with its size;
   realloc old sizes, double frees, foreign frees, leaks at finish and writes to code memory
   outside a write window are reported through track_errors.  */
#ifndef TRACK_H
#define TRACK_H
#include <stdio.h>
#include <stdlib.h>
#include <string.h>
#include <sys/mman.h>
#include "mir.h"

#define TRACK_MAX (1 << 20)
struct track_blk {
  void *p;
  size_t size;
  unsigned long serial;
};
static struct track_blk *track_tab;
static size_t track_cap, track_live;
static unsigned long track_serial, track_errors, track_calls;

static size_t track_hash (void *p) { return ((size_t) p >> 4) * 11400714819323198485ull; }

static void track_grow (void) {
  size_t ncap = track_cap == 0 ? 4096 : track_cap * 2;
  struct track_blk *ntab = calloc (ncap, sizeof (struct track_blk));
  for (size_t i = 0; i < track_cap; i++)
    if (track_tab[i].p != NULL && track_tab[i].p != (void *) 1) {
      size_t h = track_hash (track_tab[i].p) & (ncap - 1);
      while (ntab[h].p != NULL) h = (h + 1) & (ncap - 1);
      ntab[h] = track_tab[i];
    }
  free (track_tab);
  track_tab = ntab;
  track_cap = ncap;
}

static struct track_blk *track_find (void *p) {
  if (track_cap == 0) return NULL;
  for (size_t h = track_hash (p) & (track_cap - 1); track_tab[h].p != NULL;
       h = (h + 1) & (track_cap - 1))
    if (track_tab[h].p == p) return &track_tab[h];
  return NULL;
}

static void track_add (void *p, size_t size) {
  if (p == NULL) return;
  if ((track_live + 1) * 2 > track_cap) track_grow ();
  size_t h = track_hash (p) & (track_cap - 1);
  while (track_tab[h].p != NULL && track_tab[h].p != (void *) 1) h = (h + 1) & (track_cap - 1);
  track_tab[h].p = p;
  track_tab[h].size = size;
  track_tab[h].serial = ++track_serial;
  track_live++;
}

static int track_del (void *p, const char *who) {
  struct track_blk *b = track_find (p);
  if (b == NULL) {
    fprintf (stderr, "TRACK: %s of unknown or already freed block %p\n", who, p);
    track_errors++;
    return 0;
  }
  b->p = (void *) 1; /* tombstone */
  track_live--;
  return 1;
}

static void *t_malloc (size_t size, void *ud) {
  void *p = malloc (size == 0 ? 1 : size);
  (void) ud;
  track_calls++;
  track_add (p, size);
  return p;
}
static void *t_calloc (size_t n, size_t size, void *ud) {
  void *p = calloc (n == 0 || size == 0 ? 1 : n, size == 0 ? 1 : size);
  (void) ud;
  track_calls++;
  track_add (p, n * size);
  return p;
}
static void *t_realloc (void *ptr, size_t old_size, size_t new_size, void *ud) {
  (void) ud;
  track_calls++;
  if (ptr == NULL) return t_malloc (new_size, ud);
  struct track_blk *b = track_find (ptr);
  if (b == NULL) {
    fprintf (stderr, "TRACK: realloc of unknown block %p\n", ptr);
    track_errors++;
    return NULL;
  }
  if (b->size != old_size) {
    fprintf (stderr, "TRACK: realloc reports old size %zu for a block of %zu\n", old_size, b->size);
    track_errors++;
  }
  /* always move, poison the old block */
  void *np = malloc (new_size == 0 ? 1 : new_size);
  memcpy (np, ptr, b->size < new_size ? b->size : new_size);
  memset (ptr, 0xdd, b->size);
  track_del (ptr, "realloc");
  free (ptr);
  track_add (np, new_size);
  return np;
}
static void t_free (void *ptr, void *ud) {
  (void) ud;
  track_calls++;
  if (ptr == NULL) return;
  struct track_blk *b = track_find (ptr);
  if (b == NULL) {
    fprintf (stderr, "TRACK: free of unknown or already freed block %p\n", ptr);
    track_errors++;
    return;
  }
  memset (ptr, 0xdd, b->size);
  track_del (ptr, "free");
  free (ptr);
}

/* code regions */
struct track_region {
  char *p;
  size_t len;
  int writable;
};
static struct track_region track_regions[4096];
static size_t track_nregions;

static void *t_map (size_t len, void *ud) {
  (void) ud;
  void *p = mmap (NULL, len, PROT_READ | PROT_EXEC, MAP_PRIVATE | MAP_ANONYMOUS, -1, 0);
  if (p == (void *) -1) return NULL; /* mir-code-alloc.h redefines MAP_FAILED */
  track_regions[track_nregions++] = (struct track_region){p, len, 0};
  return p;
}
static int t_unmap (void *p, size_t len, void *ud) {
  (void) ud;
  for (size_t i = 0; i < track_nregions; i++)
    if (track_regions[i].p == (char *) p) {
      if (track_regions[i].len != len) {
        fprintf (stderr, "TRACK: unmap of %zu bytes for a region of %zu\n", len,
                 track_regions[i].len);
        track_errors++;
      }
      track_regions[i] = track_regions[--track_nregions];
      return munmap (p, len);
    }
  fprintf (stderr, "TRACK: unmap of unknown region %p\n", p);
  track_errors++;
  return -1;
}
static int t_protect (void *p, size_t len, MIR_mem_protect_t prot, void *ud) {
  (void) ud;
  int ok = 0;
  for (size_t i = 0; i < track_nregions; i++)
    if (track_regions[i].p <= (char *) p
        && (char *) p + len <= track_regions[i].p + track_regions[i].len)
      ok = 1;
  if (!ok) {
    fprintf (stderr, "TRACK: protect outside of mapped regions\n");
    track_errors++;
  }
  size_t start = (size_t) p & ~(size_t) 4095;
  return mprotect ((void *) start, (size_t) p + len - start,
                   prot == PROT_WRITE_EXEC ? PROT_READ | PROT_WRITE | PROT_EXEC
                                           : PROT_READ | PROT_EXEC);
}

static struct MIR_alloc track_alloc = {t_malloc, t_calloc, t_realloc, t_free, NULL};
static struct MIR_code_alloc track_code_alloc = {t_map, t_unmap, t_protect, NULL};

/* Returns number of violations: leaked blocks/regions + other errors.  */
static unsigned long track_report (const char *what) {
  unsigned long res = track_errors;
  if (track_live != 0) {
    size_t bytes = 0;
    for (size_t i = 0; i < track_cap; i++)
      if (track_tab[i].p != NULL && track_tab[i].p != (void *) 1) {
        bytes += track_tab[i].size;
        fprintf (stderr, "TRACK: %s: leaked block #%lu of %zu bytes\n", what, track_tab[i].serial,
                 track_tab[i].size);
      }
    fprintf (stderr, "TRACK: %s: %zu blocks (%zu bytes) not returned after finish\n", what,
             track_live, bytes);
    res += track_live;
  }
  if (track_nregions != 0) {
    fprintf (stderr, "TRACK: %s: %zu code regions not unmapped after finish\n", what,
             track_nregions);
    res += track_nregions;
  }
  return res;
}
#endif
