/* Pre-existing (unmodified code): a command-line macro definition whose name is not an identifier
   (e.g. -D1abc=2) is only reported on the message file and skipped, the compilation succeeds, but
   the replacement token vector created in define_cmd_macro (c2mir.c) is never released.
   Build: cc -I<root> -I<seed> preexisting_c2mir_bad_macro_name.c <root>/_build/libmir_static.a -lm -lpthread
   Exit status 1 and a "leaked block" report on the unmodified tree.  */
#include "track.h"
#include "c2mir/c2mir.h"
static const char *code = "int f (int a) { return a + 1; }\n";
static size_t pos;
static int get_char (void *data) { return code[pos] == 0 ? EOF : code[pos++]; }
int main (void) {
  struct c2mir_macro_command cmds[1] = {{1, "1abc", "2"}};
  struct c2mir_options ops;
  memset (&ops, 0, sizeof (ops));
  ops.message_file = stderr;
  ops.macro_commands_num = 1;
  ops.macro_commands = cmds;
  MIR_context_t ctx = MIR_init2 (&track_alloc, &track_code_alloc);
  c2mir_init (ctx);
  int ok = c2mir_compile (ctx, &ops, get_char, NULL, "t.c", NULL);
  printf ("compile %s\n", ok ? "succeeded" : "failed");
  c2mir_finish (ctx);
  MIR_finish (ctx);
  return track_report ("c2mir -D1abc=2") != 0 || !ok;
}
