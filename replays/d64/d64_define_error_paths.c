/* D64: `#define defined 1` and a redefinition of a standard macro (`#define __LINE__ 1`) are compile
   errors; define () in c2mir.c left the replacement token vector undestroyed on these two paths.
   Build: cc -I/repo -Ireplays/d64 replays/d64/d64_define_error_paths.c /repo/_build/libmir_static.a -lm -lpthread */
#include "track.h"
#include "c2mir/c2mir.h"
static const char *code = "#define defined 1\n#define __LINE__ 7\nint f (int a) { return a + 1; }\n";
static size_t pos;
static int get_char (void *data) { return code[pos] == 0 ? EOF : code[pos++]; }
int main (void) {
  struct c2mir_options ops;
  memset (&ops, 0, sizeof (ops));
  ops.message_file = stderr;
  MIR_context_t ctx = MIR_init2 (&track_alloc, &track_code_alloc);
  c2mir_init (ctx);
  int ok = c2mir_compile (ctx, &ops, get_char, NULL, "t.c", NULL);
  printf ("compile %s (expected: failed)\n", ok ? "succeeded" : "failed");
  c2mir_finish (ctx);
  MIR_finish (ctx);
  return track_report ("#define defined / __LINE__") != 0;
}
