#include <stdio.h>
#include <string.h>
#include "mir-alloc.h"
#include "mir-reduce.h"
#include "mir-alloc-default.c"
static uint8_t stream[64];
static size_t slen, spos;
static size_t rd (void *start, size_t len, void *aux) {
  size_t n = slen - spos < len ? slen - spos : len;
  memcpy (start, stream + spos, n);
  spos += n;
  return n;
}
static size_t wr (const void *start, size_t len, void *aux) { return len; }
int main (void) {
  for (int first = 0; first < 16; first += 8) {
    uint8_t *p = stream;
    spos = 0;
    memcpy (p, "MIR", 3), p += 3;
    *p++ = 0xff;                                  /* tag: long symbol length, long ref length */
    *p++ = 0x80 | 32;                             /* symbol length 32 */
    for (int i = 0; i < 32; i++) *p++ = 'a' + i % 26;
    *p++ = first, *p++ = 0xff, *p++ = 0xff, *p++ = 0xff, *p++ = 0xf0; /* ref length 0xfffffff0 as a 5-byte number */
    *p++ = 0x80 | 2;                              /* ref offset 2 */
    slen = p - stream;
    printf ("first byte 0x%02x: %s\n", first, reduce_decode (&default_alloc, rd, wr, NULL) ? "ACCEPTED" : "rejected");
  }
  return 0;
}
