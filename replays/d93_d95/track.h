/* Tracking allocators for MIR contexts: every block handed out is recorded with its size;
   a free/realloc of an unknown or already freed block, a realloc with a wrong old size,
   a write request outside a mapped region and everything still live at the end are reported.
   Freed blocks are poisoned and kept (never reused), so a stale pointer never aliases a new
   block.  */
#ifndef TRACK_H
#define TRACK_H
#include <stdio.h>
#include <stdlib.h>
#include <string.h>
#include <stdint.h>
#include <sys/mman.h>
#undef MAP_FAILED /* mir-code-alloc.h defines its own */
#include "mir.h"

typedef struct blk {
  void *p;
  size_t size;
  int live;
  struct blk *next;
} blk_t;

#define TRK_NBUCKETS 65536
typedef struct trk {
  const char *name;
  blk_t *buckets[TRK_NBUCKETS];
  long n_alloc, n_free, n_live, bad;
  size_t live_bytes;
  /* code regions */
  struct region {
    void *p;
    size_t len;
    int live, writable;
  } regions[4096];
  int n_regions;
  int quiet;
} trk_t;

static inline unsigned trk_hash (void *p) { return (unsigned) (((uintptr_t) p >> 4) * 2654435761u) % TRK_NBUCKETS; }

static inline blk_t *trk_find (trk_t *t, void *p) {
  for (blk_t *b = t->buckets[trk_hash (p)]; b != NULL; b = b->next)
    if (b->p == p) return b;
  return NULL;
}

static inline void trk_add (trk_t *t, void *p, size_t size) {
  blk_t *b = trk_find (t, p);
  if (b == NULL) {
    b = malloc (sizeof (blk_t));
    b->p = p;
    unsigned h = trk_hash (p);
    b->next = t->buckets[h];
    t->buckets[h] = b;
  } else if (b->live) {
    if (!t->quiet) fprintf (stderr, "[%s] allocator returned a live block %p twice\n", t->name, p);
    t->bad++;
  }
  b->size = size;
  b->live = 1;
  t->n_alloc++;
  t->n_live++;
  t->live_bytes += size;
}

static inline void *trk_malloc (size_t size, void *ud) {
  trk_t *t = ud;
  void *p = malloc (size == 0 ? 1 : size);
  memset (p, 0xA5, size);
  trk_add (t, p, size);
  return p;
}

static inline void *trk_calloc (size_t n, size_t size, void *ud) {
  trk_t *t = ud;
  void *p = calloc (n == 0 || size == 0 ? 1 : n, size == 0 ? 1 : size);
  trk_add (t, p, n * size);
  return p;
}

static inline void trk_free (void *p, void *ud) {
  trk_t *t = ud;
  blk_t *b;
  if (p == NULL) return;
  if ((b = trk_find (t, p)) == NULL) {
    if (!t->quiet) fprintf (stderr, "[%s] free of a block %p not obtained from this allocator\n", t->name, p);
    t->bad++;
    return;
  }
  if (!b->live) {
    if (!t->quiet) fprintf (stderr, "[%s] double free of block %p (size %zu)\n", t->name, p, b->size);
    t->bad++;
    return;
  }
  b->live = 0;
  t->n_free++;
  t->n_live--;
  t->live_bytes -= b->size;
  memset (p, 0xDD, b->size); /* poison, never reuse */
}

static inline void *trk_realloc (void *p, size_t old_size, size_t new_size, void *ud) {
  trk_t *t = ud;
  blk_t *b;
  void *np;
  if (p == NULL) return trk_malloc (new_size, ud);
  if ((b = trk_find (t, p)) == NULL || !b->live) {
    if (!t->quiet) fprintf (stderr, "[%s] realloc of %s block %p\n", t->name, b == NULL ? "an unknown" : "a freed", p);
    t->bad++;
    return trk_malloc (new_size, ud);
  }
  if (b->size != old_size) {
    if (!t->quiet)
      fprintf (stderr, "[%s] realloc of %p reports old size %zu, true size %zu\n", t->name, p, old_size, b->size);
    t->bad++;
  }
  np = trk_malloc (new_size, ud);
  memcpy (np, p, b->size < new_size ? b->size : new_size);
  trk_free (p, ud);
  return np;
}

static inline void *trk_map (size_t len, void *ud) {
  trk_t *t = ud;
  void *p = mmap (NULL, len, PROT_READ | PROT_EXEC, MAP_PRIVATE | MAP_ANONYMOUS, -1, 0);
  if (p == (void *) -1) return NULL;
  if (t->n_regions >= 4096) abort ();
  t->regions[t->n_regions].p = p;
  t->regions[t->n_regions].len = len;
  t->regions[t->n_regions].live = 1;
  t->regions[t->n_regions].writable = 0;
  t->n_regions++;
  return p;
}

static inline int trk_unmap (void *p, size_t len, void *ud) {
  trk_t *t = ud;
  for (int i = 0; i < t->n_regions; i++)
    if (t->regions[i].p == p && t->regions[i].live) {
      if (t->regions[i].len != len) {
        if (!t->quiet)
          fprintf (stderr, "[%s] unmap of %p with length %zu, mapped length %zu\n", t->name, p, len, t->regions[i].len);
        t->bad++;
      }
      t->regions[i].live = 0;
      return munmap (p, t->regions[i].len);
    }
  if (!t->quiet) fprintf (stderr, "[%s] unmap of %p (len %zu) which is not a live mapped region\n", t->name, p, len);
  t->bad++;
  return -1;
}

static inline int trk_protect (void *p, size_t len, MIR_mem_protect_t prot, void *ud) {
  trk_t *t = ud;
  int ok = 0;
  for (int i = 0; i < t->n_regions; i++)
    if (t->regions[i].live && (char *) p >= (char *) t->regions[i].p
        && (char *) p + len <= (char *) t->regions[i].p + t->regions[i].len)
      ok = 1;
  if (!ok) {
    if (!t->quiet) fprintf (stderr, "[%s] protect request outside of mapped regions: %p len %zu\n", t->name, p, len);
    t->bad++;
  }
  return mprotect (p, len, prot == PROT_WRITE_EXEC ? (PROT_READ | PROT_WRITE | PROT_EXEC) : (PROT_READ | PROT_EXEC));
}

/* Returns the number of problems: bad operations + blocks/regions never returned.  */
static inline long trk_report (trk_t *t, int verbose) {
  long leaks = 0, region_leaks = 0;
  for (int h = 0; h < TRK_NBUCKETS; h++)
    for (blk_t *b = t->buckets[h]; b != NULL; b = b->next)
      if (b->live) {
        leaks++;
        if (verbose && leaks <= 10) fprintf (stderr, "[%s] block %p of size %zu was never freed\n", t->name, b->p, b->size);
      }
  for (int i = 0; i < t->n_regions; i++)
    if (t->regions[i].live) {
      region_leaks++;
      if (verbose) fprintf (stderr, "[%s] code region %p len %zu was never unmapped\n", t->name, t->regions[i].p, t->regions[i].len);
    }
  if (verbose)
    fprintf (stderr, "[%s] allocs %ld, frees %ld, bad operations %ld, leaked blocks %ld, leaked regions %ld\n", t->name,
             t->n_alloc, t->n_free, t->bad, leaks, region_leaks);
  return t->bad + leaks + region_leaks;
}

#define TRK_DEFINE(var, nm)                                                              \
  static trk_t var##_state = {.name = nm};                                               \
  static struct MIR_alloc var##_alloc = {trk_malloc, trk_calloc, trk_realloc, trk_free, &var##_state}; \
  static struct MIR_code_alloc var##_code_alloc = {trk_map, trk_unmap, trk_protect, &var##_state}

#endif
