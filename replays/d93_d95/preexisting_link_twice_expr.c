#include "track.h"
#include "mir-gen.h"
TRK_DEFINE (a, "ctx");
static const char *src =
"m: module\n"
"export f, d\n"
"e: func i64\n"
"  local i64:r\n"
"  mov r, 7\n"
"  add r, r, 35\n"
"  ret r\n"
"  endfunc\n"
"d: expr e\n"
"f: func i64\n"
"  local i64:r\n"
"  local i64:a\n  mov a, d\n  mov r, i64:(a)\n"
"  ret r\n"
"  endfunc\n"
"  endmodule\n";
int main (int argc, char **argv) {
  int mode = atoi (argv[1]);
  MIR_context_t ctx = MIR_init2 (&a_alloc, &a_code_alloc);
  MIR_scan_string (ctx, src);
  MIR_module_t m = DLIST_TAIL (MIR_module_t, *MIR_get_module_list (ctx));
  MIR_item_t f = NULL;
  for (MIR_item_t it = DLIST_HEAD (MIR_item_t, m->items); it; it = DLIST_NEXT (MIR_item_t, it))
    if (it->item_type == MIR_func_item) f = it;
  MIR_load_module (ctx, m);
  MIR_gen_init (ctx);
  if (mode == 1) MIR_link (ctx, NULL, NULL);
  MIR_link (ctx, mode == 2 ? MIR_set_interp_interface : MIR_set_gen_interface, NULL);
  if (mode == 3) { MIR_load_module (ctx, m); MIR_link (ctx, MIR_set_gen_interface, NULL); }
  MIR_val_t res;
  if (mode == 2) { MIR_interp (ctx, f, &res, 0); printf ("f %ld\n", (long) res.i);
     MIR_load_module (ctx, m); MIR_link (ctx, MIR_set_interp_interface, NULL);
     MIR_interp (ctx, f, &res, 0); printf ("f %ld\n", (long) res.i); }
  else { long (*fp) (void) = f->addr; printf ("f %ld\n", fp ()); }
  MIR_gen_finish (ctx);
  MIR_finish (ctx);
  return trk_report (&a_state, 1) != 0;
}
