#include "track.h"
#include "mir-gen.h"
TRK_DEFINE (a, "ctxA");
TRK_DEFINE (b, "ctxB");
TRK_DEFINE (c, "ctxC");
static const char *src =
"m: module\n"
"export f\n"
"f: func i64, i64:n\n"
"  local i64:r\n"
"  bgt L1, n, 10\n"
"  mov r, 1\n"
"  ret r\n"
"L1:\n"
"  blt L2, n, 100\n"
"  mov r, 2\n"
"  ret r\n"
"L2:\n"
"  mov r, 3\n"
"  ret r\n"
"  endfunc\n"
"  endmodule\n";
static uint8_t buf[2][100000]; static size_t len[2], pos; static int cur;
static int wr (MIR_context_t ctx, uint8_t byte) { buf[cur][len[cur]++] = byte; return 1; }
static int rd (MIR_context_t ctx) { return pos < len[cur] ? buf[cur][pos++] : EOF; }
int main (void) {
  MIR_context_t ctx = MIR_init2 (&a_alloc, &a_code_alloc);
  MIR_scan_string (ctx, src);
  cur = 0; MIR_write_with_func (ctx, wr);
  MIR_finish (ctx);
  ctx = MIR_init2 (&b_alloc, &b_code_alloc);
  cur = 0; pos = 0; MIR_read_with_func (ctx, rd);
  MIR_module_t m = DLIST_TAIL (MIR_module_t, *MIR_get_module_list (ctx));
  MIR_load_module (ctx, m);
  MIR_link (ctx, MIR_set_interp_interface, NULL);
  MIR_output (ctx, stdout);
  cur = 1; MIR_write_with_func (ctx, wr);
  MIR_finish (ctx);
  ctx = MIR_init2 (&c_alloc, &c_code_alloc);
  cur = 1; pos = 0; MIR_read_with_func (ctx, rd);
  fprintf (stderr, "read back ok\n");
  MIR_output (ctx, stdout);
  MIR_finish (ctx);
  return (trk_report (&a_state, 1) + trk_report (&b_state, 1) + trk_report (&c_state, 1)) != 0;
}
