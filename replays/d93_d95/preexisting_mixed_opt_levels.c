#include "track.h"
#include "mir-gen.h"
TRK_DEFINE (a, "ctx");
static const char *src =
"m: module\n"
"export f, g\n"
"f: func i64, i64:n\n"
"  local i64:r, i64:i\n"
"  mov r, 0\n"
"  mov i, 0\n"
"L1:\n"
"  bge L2, i, n\n"
"  add r, r, i\n"
"  mul r, r, 3\n"
"  sub r, r, 1\n"
"  add i, i, 1\n"
"  jmp L1\n"
"L2:\n"
"  ret r\n"
"  endfunc\n"
"g: func i64, i64:n\n"
"  local i64:r\n"
"  add r, n, 1\n"
"  ret r\n"
"  endfunc\n"
"  endmodule\n";
int main (int argc, char **argv) {
  MIR_context_t ctx = MIR_init2 (&a_alloc, &a_code_alloc);
  MIR_scan_string (ctx, src);
  MIR_module_t m = DLIST_TAIL (MIR_module_t, *MIR_get_module_list (ctx));
  MIR_item_t f = NULL, g = NULL;
  for (MIR_item_t it = DLIST_HEAD (MIR_item_t, m->items); it; it = DLIST_NEXT (MIR_item_t, it))
    if (it->item_type == MIR_func_item) { if (f == NULL) f = it; else g = it; }
  MIR_load_module (ctx, m);
  MIR_gen_init (ctx);
  MIR_link (ctx, MIR_set_interp_interface, NULL);
  MIR_gen_set_optimize_level (ctx, atoi (argv[1]));
  long (*fp) (long) = MIR_gen (ctx, f);
  printf ("f %ld\n", fp (5));
  MIR_gen_set_optimize_level (ctx, atoi (argv[2]));
  long (*gp) (long) = MIR_gen (ctx, g);
  printf ("g %ld\n", gp (41));
  MIR_gen_finish (ctx);
  MIR_finish (ctx);
  return trk_report (&a_state, 1) != 0;
}
