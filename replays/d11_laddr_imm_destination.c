#include <stdio.h>
#include <string.h>
#include <stdlib.h>
#include <setjmp.h>
#include "mir.h"
#include "mir-gen.h"
static jmp_buf jb; static int last_err = -1;
static void MIR_NO_RETURN err (MIR_error_type_t e, const char *fmt, ...) { last_err = e; longjmp (jb, 1); }
static const char *prog = "m: module\nexport f\nf: func i64, i64:a\n local i64:r, i64:t, i64:u\n mov t, 7\n laddr r, L2\n add u, t, a\n mov t, u\n jmpi r\nL1:\n ret 111\nL2:\n add t, t, 1000\n ret t\n endfunc\nendmodule\n";
int main (void) {
  MIR_context_t ctx = MIR_init (); MIR_set_error_func (ctx, err);
  if (setjmp (jb)) printf ("laddr imm dst: rejected err=%d\n", last_err);
  else { MIR_scan_string (ctx, "m0: module\nf0: func i64\nL1:\n laddr 5, L1\n ret 0\n endfunc\nendmodule\n"); printf ("laddr imm dst: ACCEPTED\n"); }
  for (int lvl = 0; lvl <= 3; lvl++) {
    MIR_context_t c = MIR_init ();
    MIR_scan_string (c, prog);
    MIR_module_t m = DLIST_HEAD (MIR_module_t, *MIR_get_module_list (c));
    MIR_load_module (c, m);
    MIR_item_t f = NULL;
    for (MIR_item_t it = DLIST_HEAD (MIR_item_t, m->items); it; it = DLIST_NEXT (MIR_item_t, it)) if (it->item_type == MIR_func_item) f = it;
    MIR_gen_init (c); MIR_gen_set_optimize_level (c, lvl);
    MIR_link (c, MIR_set_gen_interface, NULL);
    long (*fp)(long) = MIR_gen (c, f);
    printf ("O%d gen=%ld ", lvl, fp (5)); fflush (stdout);
    MIR_gen_finish (c); MIR_finish (c);
  }
  MIR_context_t c = MIR_init ();
  MIR_scan_string (c, prog);
  MIR_module_t m = DLIST_HEAD (MIR_module_t, *MIR_get_module_list (c));
  MIR_load_module (c, m);
  MIR_item_t f = NULL;
  for (MIR_item_t it = DLIST_HEAD (MIR_item_t, m->items); it; it = DLIST_NEXT (MIR_item_t, it)) if (it->item_type == MIR_func_item) f = it;
  MIR_link (c, MIR_set_interp_interface, NULL);
  MIR_val_t res, a[1]; a[0].i = 5; MIR_interp_arr (c, f, &res, 1, a);
  printf ("interp=%ld\n", (long) res.i);
  return 0;
}
