#include <stdio.h>
#include <string.h>
#include <stdlib.h>
#include "mir.h"
#include "mir-gen.h"
int main (void) {
  for (int lvl = 0; lvl <= 3; lvl++) {
  MIR_context_t ctx = MIR_init ();
  MIR_scan_string (ctx, "m: module\nexport f\nf: func i64, i64:a, i64:b\n local i64:r, i64:t\n adds t, a, b\n mulo r, a, 1\n bo L1\n add t, t, r\n ret t\nL1:\n ret 12345\n endfunc\nendmodule\n");
  MIR_module_t m = DLIST_HEAD (MIR_module_t, *MIR_get_module_list (ctx));
  MIR_load_module (ctx, m);
  MIR_item_t f = NULL;
  for (MIR_item_t it = DLIST_HEAD (MIR_item_t, m->items); it; it = DLIST_NEXT (MIR_item_t, it)) if (it->item_type == MIR_func_item) f = it;
  MIR_gen_init (ctx); MIR_gen_set_optimize_level (ctx, lvl);
  MIR_link (ctx, MIR_set_gen_interface, NULL);
  MIR_val_t res; 
  long (*fp)(long,long) = MIR_gen (ctx, f);
  long g = fp (0x7fffffff, 1);
  printf ("O%d gen=%ld ", lvl, g);
  MIR_gen_finish (ctx);
  MIR_finish (ctx);
  }
  MIR_context_t ctx = MIR_init ();
  MIR_scan_string (ctx, "m: module\nexport f\nf: func i64, i64:a, i64:b\n local i64:r, i64:t\n adds t, a, b\n mulo r, a, 1\n bo L1\n add t, t, r\n ret t\nL1:\n ret 12345\n endfunc\nendmodule\n");
  MIR_module_t m = DLIST_HEAD (MIR_module_t, *MIR_get_module_list (ctx));
  MIR_load_module (ctx, m);
  MIR_item_t f = NULL;
  for (MIR_item_t it = DLIST_HEAD (MIR_item_t, m->items); it; it = DLIST_NEXT (MIR_item_t, it)) if (it->item_type == MIR_func_item) f = it;
  MIR_link (ctx, MIR_set_interp_interface, NULL);
  MIR_val_t res; MIR_val_t a[2]; a[0].i = 0x7fffffff; a[1].i = 1;
  MIR_interp_arr (ctx, f, &res, 2, a);
  printf ("interp=%ld\n", (long) res.i);
  return 0;
}
