#include <stdio.h>
#include <stdlib.h>
#include <string.h>
#include <math.h>
#include "mir.h"
int main (void) {
  MIR_context_t ctx = MIR_init ();
  double v[3] = {INFINITY, NAN, -INFINITY};
  MIR_new_module (ctx, "m");
  MIR_new_data (ctx, "x", MIR_T_D, 3, v);
  MIR_type_t rt = MIR_T_D;
  MIR_item_t f = MIR_new_func (ctx, "f", 1, &rt, 0);
  MIR_reg_t r = MIR_new_func_reg (ctx, f->u.func, MIR_T_D, "r");
  MIR_append_insn (ctx, f, MIR_new_insn (ctx, MIR_DMOV, MIR_new_reg_op (ctx, r), MIR_new_double_op (ctx, INFINITY)));
  MIR_append_insn (ctx, f, MIR_new_ret_insn (ctx, 1, MIR_new_reg_op (ctx, r)));
  MIR_finish_func (ctx); MIR_finish_module (ctx);
  char *buf; size_t len; FILE *o = open_memstream (&buf, &len);
  MIR_output (ctx, o); fclose (o);
  puts (buf);
  MIR_context_t c2 = MIR_init ();
  MIR_scan_string (c2, buf);
  FILE *o2 = open_memstream (&buf, &len); MIR_output (c2, o2); fclose (o2); puts (buf);
  return 0;
}
