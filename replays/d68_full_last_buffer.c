/* Observed on the UNMODIFIED tree (not caused by patch.diff, not fixed here).

   When the uncompressed binary-MIR image is an exact multiple of the compression buffer
   (_REDUCE_BUF_LEN = 262144 bytes), reduce_decode_get hands out the last, completely filled
   buffer before it has seen the end-of-stream element (zero tag + check hash).  MIR_read
   stops asking for bytes at TAG_EOFILE, which is the last byte of that buffer, so
     - the 9 trailing bytes are still unread and MIR_read_with_func reports
       "garbage at the end of file" for a file MIR_write has just produced, and
     - the check hash of such a file is never compared (the result of reduce_decode_finish is
       ignored in mir.c), so a damaged stream of this length is not reported by the layer.

   The program writes modules with a table of N one-byte elements for a range of N and reads
   every image back; exactly one N (image length 262144) fails.  Exit 1 when a failure is seen. */
#include <stdio.h>
#include <stdlib.h>
#include <string.h>
#include <setjmp.h>
#include <stdarg.h>
#include "mir.h"

static unsigned char *bin;
static size_t bin_len, bin_cap, bin_pos;
static int bin_writer (MIR_context_t ctx, uint8_t byte) {
  if (bin_len == bin_cap) bin = realloc (bin, bin_cap = bin_cap * 2 + 1024);
  bin[bin_len++] = byte;
  return 1;
}
static int bin_reader (MIR_context_t ctx) { return bin_pos < bin_len ? bin[bin_pos++] : EOF; }
static jmp_buf err_jmp;
static char err_msg[200];
static void err_func (MIR_error_type_t t, const char *format, ...) {
  va_list ap;
  va_start (ap, format);
  vsnprintf (err_msg, sizeof (err_msg), format, ap);
  va_end (ap);
  longjmp (err_jmp, 1);
}

int main (void) {
  int bad = 0;
  static unsigned char tab[262144];

  memset (tab, 1, sizeof (tab));
  for (volatile size_t n = 262144 - 64; n < 262144; n++) {
    MIR_context_t ctx = MIR_init ();
    MIR_new_module (ctx, "m");
    MIR_new_data (ctx, "t", MIR_T_U8, n, tab);
    MIR_finish_module (ctx);
    bin_len = 0;
    MIR_write_with_func (ctx, bin_writer);
    MIR_finish (ctx);
    ctx = MIR_init ();
    MIR_set_error_func (ctx, err_func);
    bin_pos = 0;
    if (setjmp (err_jmp)) {
      printf ("table of %zu bytes: MIR_read rejects the image MIR_write produced: %s\n",
              (size_t) n, err_msg);
      bad++;
      continue; /* context is leaked after the error */
    }
    MIR_read_with_func (ctx, bin_reader);
    MIR_finish (ctx);
  }
  printf (bad ? "%d image(s) rejected\n" : "all images read back\n", bad);
  return bad != 0;
}
