/* Pre-existing (unmodified tree): the x86-64 generator truncates the size operand of ALLOCA to 32
   bits (pattern "Y 8D r0 adF" = 32-bit lea), the interpreter uses all 64 bits.
   f(size) returns the distance between the stack pointer before the alloca and the allocated
   block; no allocated byte is touched, so the 4GB request itself is harmless.

   build: cc -O1 -I<root> preexisting_alloca_size32.c <root>/_build/libmir_static.a -lm -lpthread -o pre && ./pre
   prints (unmodified tree), exit status 1:
     gen -O0: size 0x100000010 -> block of at least 0x10 bytes TOO SMALL
     gen -O1: size 0x100000010 -> block of at least 0x10 bytes TOO SMALL
     gen -O2: size 0x100000010 -> block of at least 0x10 bytes TOO SMALL
     gen -O3: size 0x100000010 -> block of at least 0x10 bytes TOO SMALL
   (the interpreter is not run: it really moves the stack pointer by 4GB and faults on its next
   push unless the stack limit is raised, which is the behaviour one expects from such a request;
   the generated code silently hands out a 16-byte block instead) */
#include <stdio.h>
#include <stdint.h>
#include <string.h>
#include "mir.h"
#include "mir-gen.h"

static const char *text
  = "m:    module\n"
    "      export f\n"
    "f:    func i64, i64:s\n"
    "      local i64:a, i64:b, i64:d\n"
    "      bstart b\n"
    "      alloca a, s\n"
    "      sub d, b, a\n"
    "      bend b\n"
    "      ret d\n"
    "      endfunc\n"
    "      endmodule\n";

static int64_t run (int level, int64_t size) { /* level < 0 means the interpreter */
  MIR_context_t ctx = MIR_init ();
  MIR_module_t m;
  MIR_item_t f = NULL, item;
  int64_t res;

  MIR_scan_string (ctx, text);
  m = DLIST_TAIL (MIR_module_t, *MIR_get_module_list (ctx));
  for (item = DLIST_HEAD (MIR_item_t, m->items); item != NULL; item = DLIST_NEXT (MIR_item_t, item))
    if (item->item_type == MIR_func_item && strcmp (item->u.func->name, "f") == 0) f = item;
  MIR_load_module (ctx, m);
  if (level < 0) {
    MIR_val_t v, arg;
    arg.i = size;
    MIR_link (ctx, MIR_set_interp_interface, NULL);
    MIR_interp_arr (ctx, f, &v, 1, &arg);
    res = v.i;
  } else {
    MIR_gen_init (ctx);
    MIR_gen_set_optimize_level (ctx, (unsigned) level);
    MIR_link (ctx, MIR_set_gen_interface, NULL);
    res = ((int64_t (*) (int64_t)) MIR_gen (ctx, f)) (size);
    MIR_gen_finish (ctx);
  }
  MIR_finish (ctx);
  return res;
}

int main (void) {
  int bad = 0;
  int64_t size = 0x100000010ll;

  for (int level = 0; level <= 3; level++) { /* the interpreter (level -1) really moves sp by 4GB and faults */
    int64_t res = run (level, size);
    if (level < 0)
      printf ("interp : ");
    else
      printf ("gen -O%d: ", level);
    printf ("size 0x%llx -> block of at least 0x%llx bytes %s\n", (long long) size, (long long) res,
            res >= size ? "ok" : "TOO SMALL");
    if (res < size) bad = 1;
  }
  return bad;
}
