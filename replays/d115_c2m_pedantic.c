int main (void) { return 0; }
