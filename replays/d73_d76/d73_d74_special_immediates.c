#include <stdio.h>
#include <math.h>
#include "mir.h"
#include "mir2c/mir2c.h"
int main (void) {
  MIR_context_t ctx = MIR_init ();
  MIR_module_t m = MIR_new_module (ctx, "m");
  MIR_type_t rt = MIR_T_D;
  MIR_item_t f = MIR_new_func (ctx, "f", 1, &rt, 0);
  MIR_reg_t r = MIR_new_func_reg (ctx, f->u.func, MIR_T_D, "r"), q = MIR_new_func_reg (ctx, f->u.func, MIR_T_I64, "q");
  MIR_append_insn (ctx, f, MIR_new_insn (ctx, MIR_DMOV, MIR_new_reg_op (ctx, r), MIR_new_double_op (ctx, -INFINITY)));
  MIR_append_insn (ctx, f, MIR_new_insn (ctx, MIR_MOV, MIR_new_reg_op (ctx, q), MIR_new_int_op (ctx, INT64_MIN)));
  MIR_append_insn (ctx, f, MIR_new_insn (ctx, MIR_DMOV, MIR_new_reg_op (ctx, r), MIR_new_double_op (ctx, NAN)));
  MIR_append_insn (ctx, f, MIR_new_ret_insn (ctx, 1, MIR_new_double_op (ctx, INFINITY)));
  MIR_finish_func (ctx); MIR_finish_module (ctx);
  MIR_module2c (ctx, stdout, m);
  MIR_finish (ctx);
  return 0;
}
