/* interp.c: scan a .mir file, interpret exported function "f" (no args, i64 result), print result */
#include <stdio.h>
#include <stdlib.h>
#include <string.h>
#include "mir.h"
extern long ext_call (long a, long b);
long ext_call (long a, long b) { printf ("ext_call(%ld,%ld)\n", a, b); return a * 3 + b; }
static void *resolve (const char *name) {
  if (strcmp (name, "ext_call") == 0) return (void *) ext_call;
  if (strcmp (name, "printf") == 0) return (void *) printf;
  if (strcmp (name, "memcpy") == 0) return (void *) memcpy;
  return NULL;
}
int main (int argc, char **argv) {
  FILE *fp = fopen (argv[1], "r");
  static char buf[1 << 20];
  size_t n = fread (buf, 1, sizeof (buf) - 1, fp);
  buf[n] = 0;
  MIR_context_t ctx = MIR_init ();
  MIR_scan_string (ctx, buf);
  MIR_module_t m = DLIST_TAIL (MIR_module_t, *MIR_get_module_list (ctx));
  MIR_item_t f = NULL;
  for (MIR_item_t it = DLIST_HEAD (MIR_item_t, m->items); it != NULL; it = DLIST_NEXT (MIR_item_t, it))
    if (it->item_type == MIR_func_item && strcmp (it->u.func->name, "f") == 0) f = it;
  MIR_load_module (ctx, m);
  MIR_link (ctx, MIR_set_interp_interface, resolve);
  MIR_val_t res;
  MIR_interp (ctx, f, &res, 0);
  printf ("result %ld\n", (long) res.i);
  MIR_finish (ctx);
  return 0;
}
