#include <stdio.h>
extern long f (void);
long ext_call (long a, long b) { printf ("ext_call(%ld,%ld)\n", a, b); return a * 3 + b; }
int main (void) { printf ("result %ld\n", f ()); return 0; }
