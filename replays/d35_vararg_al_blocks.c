/* D35: machinize_call sets %al (number of vector registers used) for a call of a variadic function from the scalar float/double
   arguments only; a by-value struct passed in xmm registers (BLK+2, or the SSE half of BLK+3/4) is not counted, so with no scalar
   double among the arguments %al is 0 and the native variadic callee does not save the xmm registers. */
#include <stdio.h>
#include <stdarg.h>
#include <string.h>
#include "mir.h"
#include "mir-gen.h"
struct dd { double a, b; };
static double vsum (int n, ...) {
  va_list ap; double r = 0;
  va_start (ap, n);
  for (int i = 0; i < n; i++) { struct dd s = va_arg (ap, struct dd); r += s.a * 10 + s.b; }
  va_end (ap);
  return r;
}
static const char *src = "m: module\n\
import vsum\n\
p: proto d, i32:n, ...\n\
export f\n\
f: func d, p:s\n\
  local d:r\n\
  call p, vsum, r, 1, blk2:16(s)\n\
  ret r\n\
  endfunc\n\
  endmodule\n";
int main (void) {
  int bad = 0;
  struct dd s = {1.5, 2.25};
  for (int gen = 0; gen <= 1; gen++) {
    MIR_context_t ctx = MIR_init ();
    MIR_scan_string (ctx, src);
    MIR_module_t m = DLIST_TAIL (MIR_module_t, *MIR_get_module_list (ctx));
    MIR_load_module (ctx, m);
    MIR_load_external (ctx, "vsum", vsum);
    if (gen) { MIR_gen_init (ctx); MIR_gen_set_optimize_level (ctx, 1); MIR_link (ctx, MIR_set_gen_interface, NULL); }
    else MIR_link (ctx, MIR_set_interp_interface, NULL);
    MIR_item_t f = NULL;
    for (MIR_item_t it = DLIST_HEAD (MIR_item_t, m->items); it != NULL; it = DLIST_NEXT (MIR_item_t, it))
      if (it->item_type == MIR_func_item) f = it;
    /* poison the callee's view: make sure stale save-area contents differ */
    double r = ((double (*) (struct dd *)) f->addr) (&s);
    printf ("%s: f = %g (17.25)%s\n", gen ? "gen   " : "interp", r, r != 17.25 ? " WRONG" : "");
    bad += r != 17.25;
    if (gen) MIR_gen_finish (ctx);
    MIR_finish (ctx);
  }
  printf (bad ? "WRONG\n" : "ok\n");
  return bad != 0;
}
