#include <stdarg.h>
#include <stdio.h>
long f6 (long a, long b, long c, long d, long e, long g, ...) { va_list ap; va_start (ap, g); long x = va_arg (ap, long); long y = va_arg (ap, long); va_end (ap); return x * 1000 + y; }
long f5 (long a, long b, long c, long d, long e, ...) { va_list ap; va_start (ap, e); long x = va_arg (ap, long); long y = va_arg (ap, long); va_end (ap); return x * 1000 + y; }
double d8 (double a, double b, double c, double d, double e, double f, double g, double h, ...) { va_list ap; va_start (ap, h); double x = va_arg (ap, double); double y = va_arg (ap, double); va_end (ap); return x * 1000 + y; }
double d9 (double a, double b, double c, double d, double e, double f, double g, double h, double i, ...) { va_list ap; va_start (ap, i); double x = va_arg (ap, double); double y = va_arg (ap, double); va_end (ap); return x * 1000 + y; }
int main (void) { printf ("%ld %ld %g %g\n", f6 (1, 2, 3, 4, 5, 6, 77, 88), f5 (1, 2, 3, 4, 5, 77, 88), d8 (1, 2, 3, 4, 5, 6, 7, 8, 77.0, 88.0), d9 (1, 2, 3, 4, 5, 6, 7, 8, 9, 77.0, 88.0)); return 0; }
