/* D50: a back reference with offset 0 reads ind2pos[curr_ind], an entry not written yet (uninitialised heap memory);
   its value is used as a buffer position: `sym_pos + ref_len` is computed in uint32_t and wraps for a large garbage
   value, so memcpy reads far outside the decoder's buffer.  The allocator below fills new blocks with 0xff to make the
   garbage deterministic.  Build: cc -O1 -DNDEBUG -I/repo d50_reduce_offset0.c -o x; ./x  (expected: rejected) */
#include <stdio.h>
#include <stdlib.h>
#include <string.h>
#include "mir-alloc.h"
#include "mir-reduce.h"
static void *my_malloc (size_t n, void *u) { void *p = malloc (n); if (p) memset (p, 0xff, n); return p; }
static void *my_calloc (size_t n, size_t s, void *u) { return calloc (n, s); }
static void *my_realloc (void *p, size_t o, size_t n, void *u) { return realloc (p, n); }
static void my_free (void *p, void *u) { free (p); }
static struct MIR_alloc al = {my_malloc, my_calloc, my_realloc, my_free, NULL};
static uint8_t stream[64];
static size_t slen, spos;
static size_t rd (void *start, size_t len, void *aux) {
  size_t n = slen - spos < len ? slen - spos : len;
  memcpy (start, stream + spos, n);
  spos += n;
  return n;
}
static size_t wr (const void *start, size_t len, void *aux) { return len; }
int main (void) {
  uint8_t *p = stream;
  memcpy (p, "MIR", 3), p += 3;
  *p++ = 0xe1;                                  /* tag: long symbol length, ref length 1 (+3) */
  *p++ = 0x80 | 32;                             /* symbol length 32 */
  for (int i = 0; i < 32; i++) *p++ = 'a' + i % 26;
  *p++ = 0x80 | 0;                              /* ref offset 0 */
  slen = p - stream;
  printf ("decode result: %s\n", reduce_decode (&al, rd, wr, NULL) ? "ACCEPTED" : "rejected");
  return 0;
}
