/* Pre-existing behaviour of the UNMODIFIED code (not caused by patch.diff, not fixed):
   loading a module that contains lref data a second time (MIR_load_module twice, the "reload"
   scenario) runs link_module_lrefs again, which pushes the same MIR_lref_data nodes onto
   func->first_lref a second time and turns the list into a cycle.  The next MIR_link (simplify ->
   loop over func->first_lref) never terminates, so the label references are never (re)established.
   Build: cc -Wno-psabi -I<root> preexisting_reload_lref.c <root>/_build/libmir_static.a -lm -lpthread
   Run:   timeout 20 ./a.out      -> exit status 124 (hang) on the unmodified tree; expected "OK". */
#include <stdio.h>
#include <string.h>
#include <stdint.h>
#include "mir.h"

static const char *src
  = "m: module\n"
    "f: func i64, i64:i\n local i64:r\n mov r, i\n"
    "L1:\n add r, r, 1\n bgt L3, i, 5\nL2:\n add r, r, 2\nL3:\n ret r\n endfunc\n"
    "sec: i64 1\n"
    "   lref L2\n"
    "   lref L3\n"
    "   bss 8\n"
    "endmodule\n";

int main (void) {
  MIR_context_t ctx = MIR_init ();
  MIR_module_t m;
  MIR_item_t sec = NULL, f = NULL;
  MIR_val_t v, a;
  char *h;

  MIR_scan_string (ctx, src);
  m = DLIST_HEAD (MIR_module_t, *MIR_get_module_list (ctx));
  MIR_load_module (ctx, m);
  MIR_link (ctx, MIR_set_interp_interface, NULL);
  for (MIR_item_t it = DLIST_HEAD (MIR_item_t, m->items); it; it = DLIST_NEXT (MIR_item_t, it)) {
    const char *n = MIR_item_name (ctx, it);
    if (n && !strcmp (n, "sec")) sec = it;
    if (n && !strcmp (n, "f") && it->item_type == MIR_func_item) f = it;
  }
  h = sec->addr;
  a.i = 0;
  MIR_interp (ctx, f, &v, 1, a);
  printf ("first load: f(0)=%ld lrefs %p %p\n", (long) v.i, *(void **) (h + 8), *(void **) (h + 16));
  fflush (stdout);
  MIR_load_module (ctx, m); /* reload */
  MIR_link (ctx, MIR_set_interp_interface, NULL); /* never returns */
  MIR_interp (ctx, f, &v, 1, a);
  printf ("OK after reload: f(0)=%ld lrefs %p %p\n", (long) v.i, *(void **) (h + 8),
          *(void **) (h + 16));
  MIR_finish (ctx);
  return 0;
}
