/* Loads a textual MIR file, links it, runs `main` (i64 result, no args) through the
   interpreter (-i) or the generator (-g, -gN for opt level N) and prints the result.
   With -d the module is printed after MIR_link.  */
#include <stdio.h>
#include <stdlib.h>
#include <string.h>
#include "mir.h"
#include "mir-gen.h"

static char *read_file (const char *name) {
  FILE *f = fopen (name, "rb");
  long len;
  char *s;
  if (f == NULL) { perror (name); exit (2); }
  fseek (f, 0, SEEK_END); len = ftell (f); rewind (f);
  s = malloc (len + 1);
  if (fread (s, 1, len, f) != (size_t) len) exit (2);
  s[len] = 0; fclose (f);
  return s;
}

int main (int argc, char **argv) {
  MIR_context_t ctx = MIR_init ();
  MIR_item_t f, main_func = NULL;
  MIR_module_t m;
  MIR_val_t val;
  const char *opt = argv[1];
  int dump = 0;
  if (argc < 3) return 2;
  if (strcmp (opt, "-d") == 0) { dump = 1; opt = "-i"; }
  MIR_scan_string (ctx, read_file (argv[2]));
  for (m = DLIST_HEAD (MIR_module_t, *MIR_get_module_list (ctx)); m != NULL; m = DLIST_NEXT (MIR_module_t, m)) {
    for (f = DLIST_HEAD (MIR_item_t, m->items); f != NULL; f = DLIST_NEXT (MIR_item_t, f))
      if (f->item_type == MIR_func_item && strcmp (f->u.func->name, "main") == 0) main_func = f;
    MIR_load_module (ctx, m);
  }
  if (main_func == NULL) return 2;
  MIR_load_external (ctx, "abort", abort);
  MIR_load_external (ctx, "printf", printf);
  MIR_load_external (ctx, "memset", memset);
  if (opt[1] == 'i') {
    MIR_link (ctx, MIR_set_interp_interface, NULL);
    if (dump) { MIR_output (ctx, stdout); return 0; }
    MIR_interp (ctx, main_func, &val, 0);
    printf ("%lld\n", (long long) val.i);
  } else {
    int64_t (*fun) (void);
    MIR_gen_init (ctx);
    if (opt[2] != 0) MIR_gen_set_optimize_level (ctx, opt[2] - '0');
    MIR_link (ctx, MIR_set_gen_interface, NULL);
    fun = MIR_gen (ctx, main_func);
    printf ("%lld\n", (long long) fun ());
    MIR_gen_finish (ctx);
  }
  MIR_finish (ctx);
  return 0;
}
