#!/bin/sh
# usage: preexisting_run.sh <repo root>   (library must be built: <repo root>/_build/libmir_static.a)
# Reproducer for a violation of C01 that is present in the UNMODIFIED code (see notes.md).
# exit 0: generator agrees with the interpreter; non-zero: generator crashes/hangs/differs.
set -u
ROOT=${1:?usage: preexisting_run.sh <repo root>}
HERE=$(cd "$(dirname "$0")" && pwd)
OUT=$(mktemp -d)
trap 'rm -rf "$OUT"' EXIT
cc -O1 -g -w -I"$ROOT" "$HERE/preexisting_driver.c" "$ROOT/_build/libmir_static.a" -lm -lpthread \
   -o "$OUT/pre" || exit 2
timeout 60 "$OUT/pre" "$HERE/preexisting_and_swap.mir" 0x1234 5
