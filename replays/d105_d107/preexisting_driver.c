/* Generic driver for the preexisting_* reproducers: runs `f (i64 a, i64 b) -> i64` of a .mir file
   in the interpreter and through the generator at -O0..-O3 (each generator level in a forked child
   with a 10 s alarm so that a hang or crash of the generator is reported, not inherited). */
#include <stdio.h>
#include <stdlib.h>
#include <string.h>
#include <inttypes.h>
#include <unistd.h>
#include <sys/wait.h>
#include "mir.h"
#include "mir-gen.h"

static char *read_file (const char *name) {
  FILE *f = fopen (name, "rb");
  long len;
  char *s;

  if (f == NULL) {
    perror (name);
    exit (2);
  }
  fseek (f, 0, SEEK_END);
  len = ftell (f);
  fseek (f, 0, SEEK_SET);
  s = malloc (len + 1);
  if (fread (s, 1, len, f) != (size_t) len) exit (2);
  s[len] = 0;
  fclose (f);
  return s;
}

static MIR_item_t find_func (MIR_context_t ctx, const char *name) {
  MIR_module_t m = DLIST_HEAD (MIR_module_t, *MIR_get_module_list (ctx));
  for (MIR_item_t it = DLIST_HEAD (MIR_item_t, m->items); it != NULL;
       it = DLIST_NEXT (MIR_item_t, it))
    if (it->item_type == MIR_func_item && strcmp (it->u.func->name, name) == 0) return it;
  fprintf (stderr, "no function %s\n", name);
  exit (2);
}

typedef int64_t (*f_t) (int64_t, int64_t);

int main (int argc, char **argv) {
  char *src;
  int64_t a, b, expected;
  int bad = 0;

  if (argc != 4) {
    fprintf (stderr, "usage: %s file.mir a b\n", argv[0]);
    return 2;
  }
  src = read_file (argv[1]);
  a = strtoll (argv[2], NULL, 0);
  b = strtoll (argv[3], NULL, 0);
  {
    MIR_context_t ctx = MIR_init ();
    MIR_val_t res;

    MIR_scan_string (ctx, src);
    MIR_load_module (ctx, DLIST_HEAD (MIR_module_t, *MIR_get_module_list (ctx)));
    MIR_link (ctx, MIR_set_interp_interface, NULL);
    MIR_interp (ctx, find_func (ctx, "f"), &res, 2, (MIR_val_t){.i = a}, (MIR_val_t){.i = b});
    expected = res.i;
    printf ("interp: f(%" PRId64 ", %" PRId64 ") = %" PRId64 "\n", a, b, expected);
    fflush (stdout);
    MIR_finish (ctx);
  }
  for (unsigned level = 0; level <= 3; level++) {
    const char *only = getenv ("PRE_NOFORK_LEVEL"); /* for debuggers: run this level in-process */
    pid_t pid = only != NULL ? ((unsigned) atoi (only) == level ? 0 : -1) : fork ();
    int status;

    if (pid < 0) continue;

    if (pid == 0) {
      MIR_context_t ctx = MIR_init ();
      f_t fn;
      int64_t got;

      alarm (10);
      MIR_scan_string (ctx, src);
      MIR_load_module (ctx, DLIST_HEAD (MIR_module_t, *MIR_get_module_list (ctx)));
      MIR_gen_init (ctx);
      MIR_gen_set_optimize_level (ctx, level);
      if (getenv ("DEMO_DEBUG") != NULL) {
        MIR_gen_set_debug_file (ctx, stderr);
        MIR_gen_set_debug_level (ctx, 2);
      }
      MIR_link (ctx, MIR_set_gen_interface, NULL);
      fn = (f_t) MIR_gen (ctx, find_func (ctx, "f"));
      got = fn (a, b);
      printf ("gen -O%u: f = %" PRId64 "%s\n", level, got, got == expected ? "" : "   <-- MISMATCH");
      fflush (stdout);
      _exit (got == expected ? 0 : 1);
    }
    waitpid (pid, &status, 0);
    if (WIFSIGNALED (status)) {
      printf ("gen -O%u: killed by signal %d (%s)   <-- MISMATCH\n", level, WTERMSIG (status),
              WTERMSIG (status) == SIGALRM ? "hang, 10 s alarm" : "crash");
      bad = 1;
    } else if (WEXITSTATUS (status) != 0) {
      bad = 1;
    }
  }
  printf (bad ? "FAIL\n" : "PASS\n");
  return bad;
}
