/* Pre-existing violation of C04 on the UNMODIFIED code (not related to patch.diff).
   main has its first constant-size alloca inside a bstart/bend region which is closed before an
   inlined call.  process_inlines (func_alloca_features) takes that alloca as the caller's "top
   alloca" and puts the top alloca area of the inlined callee g into it (by growing its size), but
   the memory is released by bend before the inlined code of g runs, so the real call of h inside
   g overwrites g's block.
   Build: cc -I<repo> preexisting_bstart_top_alloca.c <repo>/_build/libmir_static.a -lm -lpthread
   Prints for interp, gen -O0 and gen -O2 the result with "inline" and with a real (indirect)
   call; both must be 1007.  Observed on the unmodified tree: the inlined variant prints garbage
   (e.g. 94231864541504), the real call variant prints 1007.  Exit code 1 on a difference. */
#include <stdio.h>
#include <stdlib.h>
#include <string.h>
#include "mir.h"
#include "mir-gen.h"

static const char *text (int inline_p) {
  static char buf[4096];
  snprintf (buf, sizeof (buf),
            "m:    module\n"
            "pg:   proto i64, i64:x\n"
            "ph:   proto i64, i64:v\n"
            "h:    func i64, i64:v\n" /* fills 128 bytes of its own stack memory */
            "      local i64:buf, i64:i, i64:p\n"
            "      alloca buf, 128\n"
            "      mov i, 0\n"
            "l:    add p, buf, i\n"
            "      mov i64:(p), v\n"
            "      add i, i, 8\n"
            "      blt l, i, 128\n"
            "      ret v\n"
            "      endfunc\n"
            "g:    func i64, i64:x\n"
            "      local i64:a, i64:r, i64:fr\n"
            "      alloca a, 16\n"
            "      mov i64:(a), x\n"
            "      mov i64:8(a), 7\n"
            "      mov fr, h\n"
            "      call ph, fr, r, 85\n" /* a real call */
            "      add r, i64:(a), i64:8(a)\n"
            "      ret r\n"
            "      endfunc\n"
            "main: func i64\n"
            "      local i64:s, i64:a, i64:r\n"
            "      bstart s\n"
            "      alloca a, 16\n"
            "      mov i64:(a), 5\n"
            "      bend s\n"
            "%s"
            "      ret r\n"
            "      endfunc\n"
            "      endmodule\n",
            inline_p ? "      inline pg, g, r, 1000\n" : "      mov s, g\n      call pg, s, r, 1000\n");
  return buf;
}

static long run (int inline_p, int mode) { /* mode: 0 interp, 1 gen -O0, 2 gen -O2 */
  MIR_context_t ctx = MIR_init ();
  MIR_module_t m;
  MIR_item_t mainf = NULL;
  long r;

  MIR_scan_string (ctx, text (inline_p));
  m = DLIST_HEAD (MIR_module_t, *MIR_get_module_list (ctx));
  for (MIR_item_t it = DLIST_HEAD (MIR_item_t, m->items); it != NULL; it = DLIST_NEXT (MIR_item_t, it))
    if (it->item_type == MIR_func_item && strcmp (it->u.func->name, "main") == 0) mainf = it;
  MIR_load_module (ctx, m);
  if (mode == 0) {
    MIR_val_t v;
    MIR_link (ctx, MIR_set_interp_interface, NULL);
    MIR_interp (ctx, mainf, &v, 0);
    r = v.i;
  } else {
    MIR_gen_init (ctx);
    MIR_gen_set_optimize_level (ctx, mode == 1 ? 0 : 2);
    MIR_link (ctx, MIR_set_gen_interface, NULL);
    r = ((long (*) (void)) mainf->addr) ();
    MIR_gen_finish (ctx);
  }
  MIR_finish (ctx);
  return r;
}

int main (void) {
  static const char *names[] = {"interp", "gen-O0", "gen-O2"};
  int bad = 0;
  for (int mode = 0; mode < 3; mode++) {
    long real = run (0, mode);
    printf ("%s real call: %ld\n", names[mode], real);
    fflush (stdout);
    long inl = run (1, mode);
    printf ("%s inlined  : %ld\n", names[mode], inl);
    fflush (stdout);
    if (real != 1007 || inl != 1007) bad = 1;
  }
  printf (bad ? "DIFFERENT (violation)\n" : "same\n");
  return bad;
}
