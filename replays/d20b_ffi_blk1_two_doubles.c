#include <stdio.h>
#include "mir.h"
struct S1 { long a; };
static double nat1 (struct S1 s, double d1, double d2) { return s.a * 1000 + d1 * 10 + d2; }
int main (void) {
  MIR_context_t ctx = MIR_init ();
  MIR_scan_string (ctx, "m: module\n p: proto d, blk:8(s), d:x, d:y\n import nat1\n export c\n"
           "c: func d, i64:a, d:x, d:y\n local d:r\n call p, nat1, r, blk:8(a), x, y\n ret r\n endfunc\n endmodule\n");
  MIR_module_t m = DLIST_TAIL (MIR_module_t, *MIR_get_module_list (ctx));
  MIR_item_t func = NULL, pr = NULL;
  for (MIR_item_t it = DLIST_HEAD (MIR_item_t, m->items); it != NULL; it = DLIST_NEXT (MIR_item_t, it)) {
    if (it->item_type == MIR_func_item) func = it;
    if (it->item_type == MIR_proto_item) pr = it;
  }
  VARR_ADDR (MIR_var_t, pr->u.proto->args)[0].type = MIR_T_BLK + 1;
  for (MIR_insn_t i = DLIST_HEAD (MIR_insn_t, func->u.func->insns); i != NULL; i = DLIST_NEXT (MIR_insn_t, i))
    if (i->code == MIR_CALL) i->ops[3].u.mem.type = MIR_T_BLK + 1;
  MIR_load_module (ctx, m); MIR_load_external (ctx, "nat1", nat1); MIR_link (ctx, MIR_set_interp_interface, NULL);
  struct S1 s1 = {3}; MIR_val_t res, a1, a2, a3; a1.a = &s1; a2.d = 4.0; a3.d = 5.0;
  MIR_interp (ctx, func, &res, 3, a1, a2, a3);
  printf ("nat1(s,4,5): got %g expected 3045 %s\n", res.d, res.d == 3045.0 ? "ok" : "WRONG");
  MIR_finish (ctx); return res.d != 3045.0;
}
