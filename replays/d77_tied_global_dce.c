extern int printf (const char *, ...);
register long acc asm ("r12");
static long total;
void step (void) { total = total * 3 + acc; }
void twice (void) { long v = acc; total += v; total += v; }
static void (*volatile ops[2]) (void) = {step, twice};
int main (void) {
  total = 1;
  void (*f) (void) = ops[0], (*g) (void) = ops[1];
  acc = 42;
  f ();
  acc = 7;
  f ();
  acc = 5;
  g ();
  acc = 9;
  g ();
  printf ("total=%ld\n", total);
  return 0;
}
