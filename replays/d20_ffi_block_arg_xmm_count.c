/* D20: _MIR_get_ff_call advances the SSE register counter for integer-class block arguments (BLK+1) and twice for the
   mixed classes (BLK+3/BLK+4): a floating-point argument that follows a by-value struct is passed in the wrong xmm register */
#include <stdio.h>
#include <string.h>
#include "mir.h"
struct S1 { long a; };
struct S3 { long a; double b; };
struct S4 { double a; long b; };
static double nat1 (struct S1 s, double d) { register double x1 asm ("xmm1"); (void) x1; return s.a * 1000 + d; }
static double clobber (double a, double b) { return a - b; }
static double nat3 (struct S3 s, double d) { return s.a * 1000 + s.b * 100 + d; }
static double nat4 (struct S4 s, double d) { return s.a * 1000 + s.b * 100 + d; }
static int run (MIR_context_t ctx, const char *name, const char *proto, void *nat, int blk, int size, void *obj, double expect) {
  char buf[1024];
  sprintf (buf, "m_%s: module\n p_%s: proto d, blk:%d(s), d:x\n import %s\n export call_%s\n"
           "call_%s: func d, i64:a, d:x\n local d:r\n call p_%s, %s, r, blk:%d(a), x\n ret r\n endfunc\n endmodule\n",
           name, name, size, name, name, name, name, name, size);
  /* the textual form has only plain blk: patch the class in through the API instead */
  MIR_scan_string (ctx, buf);
  MIR_module_t m = DLIST_TAIL (MIR_module_t, *MIR_get_module_list (ctx));
  MIR_item_t func = NULL, pr = NULL;
  for (MIR_item_t it = DLIST_HEAD (MIR_item_t, m->items); it != NULL; it = DLIST_NEXT (MIR_item_t, it)) {
    if (it->item_type == MIR_func_item) func = it;
    if (it->item_type == MIR_proto_item) pr = it;
  }
  VARR_ADDR (MIR_var_t, pr->u.proto->args)[0].type = MIR_T_BLK + blk;
  for (MIR_insn_t i = DLIST_HEAD (MIR_insn_t, func->u.func->insns); i != NULL; i = DLIST_NEXT (MIR_insn_t, i))
    if (i->code == MIR_CALL) i->ops[3].u.mem.type = MIR_T_BLK + blk;
  MIR_load_module (ctx, m);
  MIR_load_external (ctx, name, nat);
  MIR_link (ctx, MIR_set_interp_interface, NULL);
  MIR_val_t res, a1, a2;
  a1.a = obj; a2.d = 7.0;
  if (clobber (123.0, 456.0) > 0) return 1; /* leave other values in xmm0/xmm1 */
  MIR_interp (ctx, func, &res, 2, a1, a2);
  printf ("%s: got %g expected %g %s\n", name, res.d, expect, res.d == expect ? "ok" : "WRONG");
  return res.d != expect;
}
int main (void) {
  MIR_context_t ctx = MIR_init ();
  struct S1 s1 = {3}; struct S3 s3 = {3, 4.0}; struct S4 s4 = {3.0, 4};
  int bad = 0;
  bad += run (ctx, "nat1", "", nat1, 1, 8, &s1, 3007.0);
  bad += run (ctx, "nat3", "", nat3, 3, 16, &s3, 3407.0);
  bad += run (ctx, "nat4", "", nat4, 4, 16, &s4, 3407.0);
  MIR_finish (ctx);
  return bad != 0;
}
