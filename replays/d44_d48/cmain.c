#include <stdio.h>
#include <stdint.h>
extern int64_t entry (void);
int64_t trace (int64_t v) {
  printf ("trace(%lld)\n", (long long) v);
  return v + 1;
}
int main (void) {
  printf ("result=%lld\n", (long long) entry ());
  return 0;
}
