/* harness: scan a textual MIR module, emit C with MIR_module2c to <out.c>,
   then load/link the module and interpret function "entry" (i64 result, no args);
   prints "result=<n>" to stdout.  External calls go to trace(). */
#include <stdio.h>
#include <stdlib.h>
#include <string.h>
#include "mir.h"
#include "mir2c/mir2c.h"

int64_t trace (int64_t v) {
  printf ("trace(%lld)\n", (long long) v);
  return v + 1;
}

static void *resolve (const char *name) {
  if (strcmp (name, "trace") == 0) return (void *) trace;
  return NULL;
}

int main (int argc, char **argv) {
  if (argc != 3) return 2;
  FILE *in = fopen (argv[1], "r");
  if (!in) return 2;
  static char buf[1 << 16];
  size_t n = fread (buf, 1, sizeof (buf) - 1, in);
  buf[n] = 0;
  fclose (in);
  MIR_context_t ctx = MIR_init ();
  MIR_scan_string (ctx, buf);
  MIR_module_t m = DLIST_TAIL (MIR_module_t, *MIR_get_module_list (ctx));
  FILE *out = fopen (argv[2], "w");
  if (!out) return 2;
  MIR_module2c (ctx, out, m);
  fclose (out);
  MIR_item_t entry = NULL;
  for (MIR_item_t it = DLIST_HEAD (MIR_item_t, m->items); it != NULL; it = DLIST_NEXT (MIR_item_t, it))
    if (it->item_type == MIR_func_item && strcmp (it->u.func->name, "entry") == 0) entry = it;
  if (!entry) return 2;
  MIR_load_module (ctx, m);
  MIR_link (ctx, MIR_set_interp_interface, resolve);
  MIR_val_t res;
  MIR_interp (ctx, entry, &res, 0);
  printf ("result=%lld\n", (long long) res.i);
  MIR_finish (ctx);
  return 0;
}
