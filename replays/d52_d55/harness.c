/* Differential harness for property C01.
   usage: demo file.mir a b
   Loads the module in file.mir, takes its function
       f: func i64, i64:a, i64:b, i64:p      (p points to a 256-byte scratch buffer)
   and runs it with the interpreter and with generated code at -O0..-O3.  The observable
   behaviour (result, final buffer contents, ordered log of calls of the external `ext`) must be
   the same.  Exit code 0: all equal, 1: some level differs.  */
#include <stdio.h>
#include <stdlib.h>
#include <string.h>
#include <inttypes.h>
#include "mir.h"
#include "mir-gen.h"

static char *read_file (const char *n) {
  FILE *f = fopen (n, "rb");
  if (!f) { perror (n); exit (2); }
  fseek (f, 0, SEEK_END);
  long l = ftell (f);
  rewind (f);
  char *s = malloc (l + 1);
  if (fread (s, 1, l, f) != (size_t) l) exit (2);
  s[l] = 0;
  fclose (f);
  return s;
}

static char logbuf[4096];
static size_t logn;
static int64_t *saved;
/* ext (x, 1) remembers pointer x; ext (x, 2) reads through the remembered pointer;
   every call is logged with the values it observes */
static int64_t ext (int64_t x, int64_t y) {
  if (y == 1) { saved = (int64_t *) x; x = 0; }
  if (y == 2) x = *saved;
  logn += snprintf (logbuf + logn, sizeof logbuf - logn, "ext(%" PRId64 ",%" PRId64 ");", x, y);
  return x * 3 + y;
}

static void run (const char *src, int level, int64_t a, int64_t b, char *out, size_t outn) {
  MIR_context_t ctx = MIR_init ();
  unsigned char buf[256];
  int64_t r;
  MIR_item_t f = NULL;

  for (int i = 0; i < 256; i++) buf[i] = (unsigned char) (i * 7 + 3);
  logn = 0;
  logbuf[0] = 0;
  MIR_scan_string (ctx, src);
  MIR_module_t m = DLIST_HEAD (MIR_module_t, *MIR_get_module_list (ctx));
  for (MIR_item_t it = DLIST_HEAD (MIR_item_t, m->items); it; it = DLIST_NEXT (MIR_item_t, it))
    if (it->item_type == MIR_func_item && strcmp (it->u.func->name, "f") == 0) f = it;
  if (f == NULL) { fprintf (stderr, "no function f\n"); exit (2); }
  MIR_load_module (ctx, m);
  MIR_load_external (ctx, "ext", ext);
  if (level < 0) {
    MIR_val_t v, args[3];
    MIR_link (ctx, MIR_set_interp_interface, NULL);
    args[0].i = a; args[1].i = b; args[2].i = (int64_t) buf;
    MIR_interp_arr (ctx, f, &v, 3, args);
    r = v.i;
  } else {
    MIR_gen_init (ctx);
    MIR_gen_set_optimize_level (ctx, level);
    MIR_link (ctx, MIR_set_gen_interface, NULL);
    int64_t (*fp) (int64_t, int64_t, void *) = MIR_gen (ctx, f);
    r = fp (a, b, buf);
    MIR_gen_finish (ctx);
  }
  uint64_t h = 1469598103934665603ull;
  for (int i = 0; i < 256; i++) h = (h ^ buf[i]) * 1099511628211ull;
  snprintf (out, outn, "res=%" PRId64 " mem=%016" PRIx64 " calls=%s", r, h, logbuf);
  MIR_finish (ctx);
}

int main (int argc, char **argv) {
  if (argc < 2) { fprintf (stderr, "usage: %s file.mir [a [b]]\n", argv[0]); return 2; }
  char *src = read_file (argv[1]);
  int64_t a = argc > 2 ? strtoll (argv[2], 0, 0) : 0, b = argc > 3 ? strtoll (argv[3], 0, 0) : 0;
  char ref[8192], got[8192];
  int bad = 0;

  run (src, -1, a, b, ref, sizeof ref);
  printf ("%s a=%" PRId64 " b=%" PRId64 "\n  interp : %s\n", argv[1], a, b, ref);
  for (int l = 0; l <= 3; l++) {
    run (src, l, a, b, got, sizeof got);
    printf ("  gen -O%d: %s%s\n", l, got, strcmp (ref, got) ? "   <-- MISMATCH" : "");
    if (strcmp (ref, got)) bad = 1;
  }
  free (src);
  return bad;
}
