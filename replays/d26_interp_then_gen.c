/* D26 (the history C16 names): generate f, interpret f, link a later module that inlines f, generate the caller.
   The interpreter left its per-instruction bookkeeping in MIR_insn_t.data of f's original labels; MIR_copy_insn copied it into the
   caller and build_func_cfg took it for basic blocks (SIGSEGV).  (Generating f itself right after interpreting it, without a
   new link, is outside the generator's contract: it asserts func_item->data == NULL.) */
#include <stdio.h>
#include <string.h>
#include <stdlib.h>
#include "mir.h"
#include "mir-gen.h"

static const char *src = "m: module\n\
export f\n\
f: func i64, i64:n\n\
  local i64:r\n\
  mov r, 0\n\
L1:\n\
  bge L2, r, n\n\
  add r, r, 3\n\
  jmp L1\n\
L2:\n\
  ret r\n\
  endfunc\n\
  endmodule\n";

int main (void) {
  MIR_context_t ctx;
  MIR_module_t m;
  MIR_item_t f = NULL;
  MIR_val_t res, arg;
  arg.i = 10;
  /* part 2 (the C16 history): generate f, interpret it, link a later module that inlines f, generate the caller */
  ctx = MIR_init ();
  MIR_scan_string (ctx, src);
  m = DLIST_TAIL (MIR_module_t, *MIR_get_module_list (ctx));
  MIR_load_module (ctx, m);
  MIR_gen_init (ctx);
  MIR_gen_set_optimize_level (ctx, 2);
  MIR_link (ctx, MIR_set_gen_interface, NULL);
  for (MIR_item_t it = DLIST_HEAD (MIR_item_t, m->items); it != NULL; it = DLIST_NEXT (MIR_item_t, it))
    if (it->item_type == MIR_func_item) f = it;
  MIR_interp (ctx, f, &res, 1, arg);
  printf ("part 2: interp after gen: f(10) = %ld\n", (long) res.i);
  fflush (stdout);
  MIR_scan_string (ctx, "m2: module\nimport f\np: proto i64, i64:n\nexport g\ng: func i64, i64:n\n  local i64:r\n"
                        "  inline p, f, r, n\n  add r, r, 1\n  ret r\n  endfunc\n  endmodule\n");
  MIR_module_t m2 = DLIST_TAIL (MIR_module_t, *MIR_get_module_list (ctx));
  MIR_load_module (ctx, m2);
  MIR_link (ctx, MIR_set_gen_interface, NULL);
  MIR_item_t g = NULL;
  for (MIR_item_t it = DLIST_HEAD (MIR_item_t, m2->items); it != NULL; it = DLIST_NEXT (MIR_item_t, it))
    if (it->item_type == MIR_func_item) g = it;
  long (*gp) (long) = g->addr;
  printf ("part 2: g(10) = %ld %s\n", gp (10), gp (10) == 13 ? "ok" : "WRONG");
  MIR_gen_finish (ctx);
  MIR_finish (ctx);
  return 0;
}
