/* D15: mir2c out_item reads curr_item->u.data->nel for a bss item that continues a data section */
#include <stdio.h>
#include "mir.h"
#include "mir2c/mir2c.h"
int main (void) {
  MIR_context_t ctx = MIR_init ();
  MIR_scan_string (ctx, "m: module\nd1: i32 1, 2\n    bss 5\n    i32 7\nf: func i64\n  ret 0\n  endfunc\nendmodule\n");
  MIR_module_t m = DLIST_HEAD (MIR_module_t, *MIR_get_module_list (ctx));
  MIR_module2c (ctx, stdout, m);
  MIR_finish (ctx);
  return 0;
}
