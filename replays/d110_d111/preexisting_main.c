#include <stdio.h>
#include <inttypes.h>
extern int64_t f (void);
int main (void) { printf ("f() = %" PRId64 "\n", f ()); return 0; }
