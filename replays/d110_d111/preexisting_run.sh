#!/bin/sh
# usage: preexisting_run.sh <repo-root>   (repo built in <repo-root>/_build; works on the UNMODIFIED tree)
# For every preexisting_*.mir: translate with mir2c, interpret f(), compile the C at -O0 and -O2, run.
R=${1:-/tmp/wt15_C20}
D=$(cd "$(dirname "$0")" && pwd)
T=$(mktemp -d)
trap 'rm -rf "$T"' EXIT
cc -O1 -w -Wno-psabi -I"$R" "$D/preexisting_px.c" "$R/mir2c/mir2c.c" "$R/_build/libmir_static.a" -lm -lpthread -o "$T/px" || exit 3
for m in wrap addo_mem addos_upper; do
  echo "== preexisting_$m.mir"
  echo -n "interp: "; timeout 60 "$T/px" "$D/preexisting_$m.mir" "$T/$m.c" 2>&1 || { echo "(translator failed, status $?)"; continue; }
  for O in -O0 -O2; do
    cc $O -w "$T/$m.c" "$D/preexisting_main.c" -o "$T/$m.exe" || { echo "C $O: rejected by cc"; continue; }
    echo -n "C $O:  "; timeout 60 "$T/$m.exe" || echo "(status $?)"
  done
done
