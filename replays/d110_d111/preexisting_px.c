/* usage: px mir-file c-out : translate the last module of mir-file to C, then interpret its
   function "f" (no args, one i64 result) and print the result.  */
#include <stdio.h>
#include <stdlib.h>
#include <string.h>
#include <inttypes.h>
#include "mir.h"
#include "mir2c/mir2c.h"
int main (int argc, char *argv[]) {
  MIR_context_t ctx = MIR_init ();
  FILE *in = fopen (argv[1], "r"), *out;
  static char buf[1 << 16];
  MIR_module_t m;
  MIR_item_t f = NULL;
  MIR_val_t res;
  buf[fread (buf, 1, sizeof (buf) - 1, in)] = 0;
  MIR_scan_string (ctx, buf);
  m = DLIST_TAIL (MIR_module_t, *MIR_get_module_list (ctx));
  out = fopen (argv[2], "w");
  MIR_module2c (ctx, out, m);
  fclose (out);
  for (MIR_item_t it = DLIST_HEAD (MIR_item_t, m->items); it != NULL; it = DLIST_NEXT (MIR_item_t, it))
    if (it->item_type == MIR_func_item && strcmp (it->u.func->name, "f") == 0) f = it;
  MIR_load_module (ctx, m);
  MIR_link (ctx, MIR_set_interp_interface, NULL);
  MIR_interp (ctx, f, &res, 0);
  printf ("f() = %" PRId64 "\n", res.i);
  MIR_finish (ctx);
  return 0;
}
