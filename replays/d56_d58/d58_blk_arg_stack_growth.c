#include <stdio.h>
struct big { long a[256]; };
static long get (struct big b, int i) { return b.a[i & 255]; }
int main (void) {
  struct big b; long s = 0;
  for (int i = 0; i < 256; i++) b.a[i] = i;
  for (int i = 0; i < 100000; i++) s += get (b, i);
  printf ("%ld\n", s);
  return 0;
}
