#include <stdio.h>
#include <stdlib.h>
#include <string.h>
#include "mir.h"
#include "mir-gen.h"
static char *rd (const char *fn) { FILE *f = fopen (fn, "r"); static char buf[1<<20]; size_t n = fread (buf, 1, sizeof buf - 1, f); buf[n] = 0; fclose (f); return buf; }
static void *resolver (const char *name) { if (!strcmp (name, "printf")) return printf; if (!strcmp(name,"exit")) return exit; if (!strcmp(name,"abort")) return abort; return NULL; }
/* usage: drv file.mir func mode(i|g0|g2) arg... ; dump if env DUMP */
int main (int argc, char **argv) {
  MIR_context_t ctx = MIR_init ();
  MIR_scan_string (ctx, rd (argv[1]));
  MIR_item_t f = NULL;
  for (MIR_module_t m = DLIST_HEAD (MIR_module_t, *MIR_get_module_list (ctx)); m; m = DLIST_NEXT (MIR_module_t, m)) {
    for (MIR_item_t it = DLIST_HEAD (MIR_item_t, m->items); it; it = DLIST_NEXT (MIR_item_t, it))
      if (it->item_type == MIR_func_item && !strcmp (it->u.func->name, argv[2])) f = it;
    MIR_load_module (ctx, m);
  }
  int64_t a[4] = {0}; for (int i = 4; i < argc && i < 8; i++) a[i-4] = strtoll (argv[i], 0, 0);
  int64_t r;
  if (argv[3][0] == 'i') {
    MIR_link (ctx, MIR_set_interp_interface, resolver);
    if (getenv ("DUMP")) MIR_output (ctx, stderr);
    MIR_val_t res, v[4]; for (int i = 0; i < 4; i++) v[i].i = a[i];
    MIR_interp_arr (ctx, f, &res, f->u.func->nargs, v); r = res.i;
  } else {
    MIR_gen_init (ctx); MIR_gen_set_optimize_level (ctx, argv[3][1] - '0');
    MIR_link (ctx, MIR_set_gen_interface, resolver);
    if (getenv ("DUMP")) MIR_output (ctx, stderr);
    void *p = MIR_gen (ctx, f);
    r = ((int64_t (*) (int64_t, int64_t, int64_t, int64_t)) p) (a[0], a[1], a[2], a[3]);
    MIR_gen_finish (ctx);
  }
  printf ("%lld\n", (long long) r);
  MIR_finish (ctx);
  return 0;
}
