#include <stdio.h>
struct rec { char name[6]; int id; };
struct rec g = {"abcde", 0x55};
struct rec ga[2] = {{"ab", 1}, {"cd", 2}};
int main (void) {
  struct rec l = {"abcde", 0x77};
  static struct rec s = {"xy", 0x99};
  printf ("%s %#x | %s %d %s %d | %s %#x | %s %#x\n", g.name, g.id, ga[0].name, ga[0].id, ga[1].name, ga[1].id, l.name, l.id, s.name, s.id);
  return 0;
}
