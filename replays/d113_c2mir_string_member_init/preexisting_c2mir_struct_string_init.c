#include <stdio.h>
struct rec { char a[6]; int tag; } t = {"abcde", 0x55};
struct rec2 { char a[8]; int tag; } t2 = {"abc", 0x66};
int main (void) { printf ("%#x %#x\n", t.tag, t2.tag); return !(t.tag == 0x55 && t2.tag == 0x66); }
