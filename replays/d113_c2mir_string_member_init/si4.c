#include <stdio.h>
char a2[2][4] = {"ab", "cd"};
struct r2 { char n[2][4]; int id; } g2 = {{"ab", "cd"}, 5};
struct r3 { char n[4]; char m[4]; int id; } g3 = {"ab", "cd", 6};
struct r4 { int x; char n[4]; } g4[2] = {{1, "ab"}, {2, "cd"}};
struct r5 { char n[4]; int id; } g5[2] = {"ab", 1, "cd", 2};
int main (void) {
  printf ("%s %s | %s %s %d | %s %s %d | %d %s %d %s | %s %d %s %d\n", a2[0], a2[1], g2.n[0], g2.n[1], g2.id, g3.n, g3.m, g3.id,
          g4[0].x, g4[0].n, g4[1].x, g4[1].n, g5[0].n, g5[0].id, g5[1].n, g5[1].id);
  return 0;
}
