/* D43: observed on the tree before the fix f17fbd31.

   With MIR_set_lazy_bb_gen_interface the first call of a function runs generate_func_code
   (..., machine_code_p = FALSE), which leaves func->insns in the generator form (the originals
   stay in func->original_insns, _MIR_restore_func_insns is never called).  A module linked later
   that calls this (small) function gets it inlined by process_inlines from the transformed insns:
   MIR_link fails with "undeclared reg ... of func h" (or the inlined body uses hard registers).
   With interp / gen / lazy gen the same sequence works.

   build: cc -I<root> preexisting_lazybb_inline.c <root>/_build/libmir_static.a -lm -lpthread
   run  : ./a.out            -> for lazy-bb: error exit in MIR_link, other interfaces print 13 */
#include <stdio.h>
#include <string.h>
#include "mir.h"
#include "mir-gen.h"

static const char *lib_text
  = "lib: module\n"
    "     export f\n"
    "f:   func i64, i64:x\n"
    "     local i64:r\n"
    "     add r, x, 5\n"
    "     ret r\n"
    "     endfunc\n"
    "     endmodule\n";
static const char *app_text
  = "app: module\n"
    "     export h\n"
    "     import f\n"
    "pf:  proto i64, i64:x\n"
    "h:   func i64, i64:x\n"
    "     local i64:r\n"
    "     call pf, f, r, x\n"
    "     add r, r, 1\n"
    "     ret r\n"
    "     endfunc\n"
    "     endmodule\n";

static MIR_item_t find_func (MIR_context_t ctx, const char *mname, const char *fname) {
  for (MIR_module_t m = DLIST_HEAD (MIR_module_t, *MIR_get_module_list (ctx)); m != NULL;
       m = DLIST_NEXT (MIR_module_t, m))
    if (strcmp (m->name, mname) == 0)
      for (MIR_item_t it = DLIST_HEAD (MIR_item_t, m->items); it != NULL;
           it = DLIST_NEXT (MIR_item_t, it))
        if (it->item_type == MIR_func_item && strcmp (it->u.func->name, fname) == 0) return it;
  return NULL;
}

int main (int argc, char **argv) {
  void (*iface) (MIR_context_t, MIR_item_t) = MIR_set_lazy_bb_gen_interface;
  if (argc > 1 && strcmp (argv[1], "lazy") == 0) iface = MIR_set_lazy_gen_interface;
  if (argc > 1 && strcmp (argv[1], "gen") == 0) iface = MIR_set_gen_interface;
  if (argc > 1 && strcmp (argv[1], "interp") == 0) iface = MIR_set_interp_interface;
  MIR_context_t ctx = MIR_init ();
  MIR_gen_init (ctx);
  MIR_scan_string (ctx, lib_text);
  MIR_load_module (ctx, DLIST_HEAD (MIR_module_t, *MIR_get_module_list (ctx)));
  MIR_link (ctx, iface, NULL);
  MIR_item_t f = find_func (ctx, "lib", "f");
  long r1 = ((long (*) (long)) f->addr) (1); /* first call of f */
  MIR_scan_string (ctx, app_text);
  MIR_load_module (ctx, DLIST_TAIL (MIR_module_t, *MIR_get_module_list (ctx)));
  MIR_link (ctx, iface, NULL); /* lazy-bb: "undeclared reg ... of func h" */
  MIR_item_t h = find_func (ctx, "app", "h");
  long r2 = ((long (*) (long)) h->addr) (1);
  printf ("%ld\n", r1 + r2); /* 6 + 7 */
  MIR_gen_finish (ctx);
  MIR_finish (ctx);
  return r1 + r2 == 13 ? 0 : 1;
}
