/* D31: MIR_finish_func accepts `addr r, <immediate>`: MIR_insn_op_mode returns the operand's own mode for the second operand of
   ADDR/ADDR8/ADDR16/ADDR32, so the "expected reg" test never fires. */
#include <stdio.h>
#include <setjmp.h>
#include <stdarg.h>
#include "mir.h"
static jmp_buf jb;
static MIR_error_type_t last;
static void err (MIR_error_type_t t, const char *fmt, ...) { last = t; longjmp (jb, 1); }
static int try_src (const char *what, const char *src) {
  MIR_context_t ctx = MIR_init ();
  int rejected = 0;
  MIR_set_error_func (ctx, err);
  if (setjmp (jb) == 0) MIR_scan_string (ctx, src); else rejected = 1;
  printf ("%-28s %s\n", what, rejected ? "rejected" : "ACCEPTED");
  return rejected;
}
int main (void) {
  int ok = 1;
  ok &= try_src ("addr r, 5", "m: module\nf: func i64\n local i64:r\n addr r, 5\n ret r\n endfunc\n endmodule\n");
  ok &= try_src ("addr8 r, 1.5", "m: module\nf: func i64\n local i64:r\n addr8 r, 1.5\n ret r\n endfunc\n endmodule\n");
  ok &= !try_src ("addr r, x (well-formed)", "m: module\nf: func i64\n local i64:r, i64:x\n mov x, 1\n addr r, x\n ret r\n endfunc\n endmodule\n");
  printf (ok ? "ok\n" : "WRONG\n");
  return !ok;
}
