#include <stdio.h>
#include <stdint.h>
extern int64_t f (void);
int main (void) { int64_t r = f (); fflush (stdout); printf ("result %lld\n", (long long) r); return 0; }
