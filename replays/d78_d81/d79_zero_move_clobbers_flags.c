/* Pre-existing (UNMODIFIED tree) C01 violation, independent of patch.diff.
   A register move between an overflow insn and its branch is allowed by MIR validation
   ("separated only by stores and reg moves").  At -O1 the post-RA combiner substitutes the
   constant of `mov t, 0` into that reg move; `mov hr, 0` is selected as `xor r32,r32`
   (pattern {MIR_MOV, "r z", "Y 33 r0 R0"}) which clears OF/CF before `bo`.
   Observed on the clean tree: interp/-O0/-O2/-O3 give ret=1 mem=0, -O1 gives ret=0
   mem=INT64_MIN.
   Build: cc -I<root> preexisting_zero_move_clobbers_flags.c <root>/_build/libmir_static.a -lm -lpthread
   Exit status 1 when some level differs from the interpreter.  */
#include <stdio.h>
#include <stdlib.h>
#include <stdint.h>
#include <string.h>
#include "mir.h"
#include "mir-gen.h"
static const char *text
  = "m: module\n"
    "  export f\n"
    "f: func i64, i64:a, i64:b, p:out\n"
    "  local i64:t, i64:r, i64:r2\n"
    "  mov t, 0\n"
    "  addo r, a, b\n"
    "  mov r2, t\n"
    "  bo ovf\n"
    "  mov i64:(out), r\n"
    "  ret r2\n"
    "ovf:\n"
    "  mov i64:(out), r2\n"
    "  ret 1\n"
    "  endfunc\n"
    "  endmodule\n";
static void run (int level, int64_t *res, int64_t *mem) {
  MIR_context_t ctx = MIR_init ();
  MIR_scan_string (ctx, text);
  MIR_module_t m = DLIST_TAIL (MIR_module_t, *MIR_get_module_list (ctx));
  MIR_item_t f = NULL;
  for (MIR_item_t it = DLIST_HEAD (MIR_item_t, m->items); it != NULL;
       it = DLIST_NEXT (MIR_item_t, it))
    if (it->item_type == MIR_func_item) f = it;
  MIR_load_module (ctx, m);
  int64_t a = INT64_MAX, b = 1;
  *mem = 99;
  if (level < 0) {
    MIR_link (ctx, MIR_set_interp_interface, NULL);
    MIR_val_t r, v[3];
    v[0].i = a;
    v[1].i = b;
    v[2].a = mem;
    MIR_interp_arr (ctx, f, &r, 3, v);
    *res = r.i;
  } else {
    MIR_gen_init (ctx);
    MIR_gen_set_optimize_level (ctx, (unsigned) level);
    MIR_link (ctx, MIR_set_gen_interface, NULL);
    int64_t (*fn) (int64_t, int64_t, int64_t *) = MIR_gen (ctx, f);
    *res = fn (a, b, mem);
    MIR_gen_finish (ctx);
  }
  MIR_finish (ctx);
}
int main (void) {
  int64_t r0, m0, r, m;
  int bad = 0;
  run (-1, &r0, &m0);
  printf ("interp: ret=%ld mem=%ld\n", (long) r0, (long) m0);
  for (int level = 0; level <= 3; level++) {
    run (level, &r, &m);
    printf ("-O%d:    ret=%ld mem=%ld%s\n", level, (long) r, (long) m,
            r != r0 || m != m0 ? "   <-- differs" : "");
    if (r != r0 || m != m0) bad = 1;
  }
  return bad;
}
