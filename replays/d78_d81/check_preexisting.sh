#!/bin/sh
# usage: check_preexisting.sh <repo root> <file.mir> : same comparison as run.sh for another input
R=${1:?repo root}; M=${2:?mir file}
D=$(cd "$(dirname "$0")" && pwd)
W=$(mktemp -d /tmp/c20pre.XXXXXX)
cc -O1 -I"$R" "$D/demo_driver.c" "$R/mir2c/mir2c.c" "$R/_build/libmir_static.a" -lm -lpthread -ldl -o "$W/driver" || exit 2
timeout 60 "$W/driver" "$M" "$W/out.c" > "$W/interp.txt" 2>&1 || { echo "interpreter run failed"; cat "$W/interp.txt"; exit 2; }
if ! cc -O1 -w -o "$W/cprog" "$W/out.c" "$D/demo_main.c" 2> "$W/cc.err"; then
  echo "VIOLATION: C translation rejected"; head -6 "$W/cc.err"; exit 1
fi
timeout 60 "$W/cprog" > "$W/c.txt" 2>&1
cmp -s "$W/interp.txt" "$W/c.txt" && { echo OK; exit 0; }
echo "VIOLATION: differ"; echo "--- interp:"; cat "$W/interp.txt"; echo "--- C:"; cat "$W/c.txt"; exit 1
