/* usage: runmir file.mir out.c : writes the C translation to out.c, then interprets
   function "f" (no args, i64 result) and prints its result. */
#include <stdio.h>
#include <stdlib.h>
#include <string.h>
#include <dlfcn.h>
#include "mir.h"
#include "mir2c/mir2c.h"
static void *resolve (const char *name) { return dlsym (RTLD_DEFAULT, name); }
int main (int argc, char **argv) {
  FILE *in = fopen (argv[1], "r");
  static char buf[1 << 20];
  size_t n = fread (buf, 1, sizeof (buf) - 1, in);
  buf[n] = 0;
  fclose (in);
  MIR_context_t ctx = MIR_init ();
  MIR_scan_string (ctx, buf);
  MIR_module_t m = DLIST_TAIL (MIR_module_t, *MIR_get_module_list (ctx));
  {
    MIR_context_t ctx2 = MIR_init ();
    MIR_scan_string (ctx2, buf);
    MIR_module_t m2 = DLIST_TAIL (MIR_module_t, *MIR_get_module_list (ctx2));
    FILE *out = fopen (argv[2], "w");
    MIR_module2c (ctx2, out, m2);
    fclose (out);
    MIR_finish (ctx2);
  }
  MIR_item_t fi = NULL;
  for (MIR_item_t it = DLIST_HEAD (MIR_item_t, m->items); it != NULL; it = DLIST_NEXT (MIR_item_t, it))
    if (it->item_type == MIR_func_item && strcmp (it->u.func->name, "f") == 0) fi = it;
  MIR_load_module (ctx, m);
  MIR_link (ctx, MIR_set_interp_interface, resolve);
  MIR_val_t res;
  MIR_interp (ctx, fi, &res, 0);
  fflush (stdout);
  printf ("result %lld\n", (long long) res.i);
  MIR_finish (ctx);
  return 0;
}
