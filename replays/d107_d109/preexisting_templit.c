/* Pre-existing (unmodified tree): generated code addresses a data item whose name has the temp
   prefix ".lc" through MIR_data.u.els (get_ref_value in mir-gen.c) instead of the loaded section,
   so for generated code the anonymous continuation items are NOT at head + size.  The interpreter
   and ref data use item->addr (the loaded section).
   Build: gcc -I<repo> preexisting_templit.c <repo>/_build/libmir_static.a -lm -lpthread -o pt
   Run:   ./pt preexisting_templit.mir
   Unmodified tree prints e.g.
     interp: third() = 33, head as seen by code == loaded head: 1
     gen:    third() = 0, head as seen by code == loaded head: 0     <- violation (garbage value)
   and exits 1. */
#include <stdio.h>
#include <string.h>
#include "mir.h"
#include "mir-gen.h"
static char buf[1 << 16];
static int run (const char *text, int gen_p) {
  MIR_context_t ctx = MIR_init ();
  MIR_item_t third = NULL, headaddr = NULL, head = NULL;
  MIR_scan_string (ctx, text);
  MIR_module_t m = DLIST_HEAD (MIR_module_t, *MIR_get_module_list (ctx));
  for (MIR_item_t it = DLIST_HEAD (MIR_item_t, m->items); it; it = DLIST_NEXT (MIR_item_t, it)) {
    const char *n = MIR_item_name (ctx, it);
    if (n == NULL) continue;
    if (strcmp (n, "third") == 0) third = it;
    if (strcmp (n, "headaddr") == 0) headaddr = it;
    if (strcmp (n, ".lc7") == 0) head = it;
  }
  MIR_load_module (ctx, m);
  if (gen_p) { MIR_gen_init (ctx); MIR_link (ctx, MIR_set_gen_interface, NULL); }
  else MIR_link (ctx, MIR_set_interp_interface, NULL);
  long v = ((long (*) (void)) third->addr) ();
  void *a = ((void *(*) (void)) headaddr->addr) ();
  printf ("%s third() = %ld, head as seen by code == loaded head: %d\n", gen_p ? "gen:   " : "interp:", v, a == head->addr);
  int bad = v != 33 || a != head->addr;
  if (gen_p) MIR_gen_finish (ctx);
  MIR_finish (ctx);
  return bad;
}
int main (int argc, char **argv) {
  FILE *f = fopen (argv[1], "r");
  if (f == NULL) return 2;
  buf[fread (buf, 1, sizeof buf - 1, f)] = 0;
  fclose (f);
  int bad = run (buf, 0);
  bad |= run (buf, 1);
  return bad;
}
