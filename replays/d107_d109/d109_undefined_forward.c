/* Observed on the UNMODIFIED tree (adjacent to C13: forward/export, not import).  The
   diagnostics "export of undefined item" / "forward of undefined item" of MIR_link can never
   fire: the module table finds the export/forward item itself, which then becomes its own
   ref_def.  Without argument: an export of an undefined name links silently.  With argument
   "fwd": a call through a forward of an undefined name makes MIR_link loop forever in
   simplify_op (run under timeout; exit status 124).
   Prints on the unmodified tree:  "link returned without error" / (hang with "fwd")  */
#include <stdio.h>
#include <stdlib.h>
#include <string.h>
#include "mir.h"
static void MIR_NO_RETURN err (MIR_error_type_t t, const char *fmt, ...) {
  printf ("error %d reported: %s\n", (int) t, fmt);
  exit (0);
}
int main (int argc, char **argv) {
  MIR_context_t ctx = MIR_init ();
  MIR_set_error_func (ctx, err);
  MIR_scan_string (ctx, argc > 1 ? "mM: module\n forward f\n pf: proto i64\n export g\n g: func i64\n"
                                   " local i64:r\n call pf, f, r\n ret r\n endfunc\n endmodule\n"
                                 : "mM: module\n export f\n export g\n g: func i64\n ret 1\n endfunc\n"
                                   " endmodule\n");
  MIR_load_module (ctx, DLIST_TAIL (MIR_module_t, *MIR_get_module_list (ctx)));
  MIR_link (ctx, MIR_set_interp_interface, NULL);
  printf ("link returned without error\n");
  MIR_finish (ctx);
  return 1;
}
