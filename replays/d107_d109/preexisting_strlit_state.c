/* Build and run (repo root R, library built in R/_build):
     cc -g -IR preexisting_strlit_state.c R/_build/libmir_static.a -lm -lpthread -o /tmp/x && timeout 60 /tmp/x */
/* Pre-existing (unmodified code): memory of a string operand (.lc data item made by the
   simplifier) is not shared between generated code and the interpreter: generated code
   addresses the bytes kept in the item (u.data->u.els), the interpreter the loaded copy
   (item->addr).  A generated function changing this memory and interpreted afterwards does
   not see its own changes.  */
#include <stdio.h>
#include "mir.h"
#include "mir-gen.h"

static const char *src
  = "m1: module\n"
    "  export bump\n"
    "bump: func i64\n"
    "  local i64:p, i64:c\n"
    "  mov p, \"a\"\n"
    "  mov c, u8:(p)\n"
    "  add c, c, 1\n"
    "  mov u8:(p), c\n"
    "  ret c\n"
    "  endfunc\n"
    "  endmodule\n";

int main (void) {
  MIR_context_t ctx = MIR_init ();
  MIR_item_t bump = NULL;
  MIR_val_t v;
  MIR_scan_string (ctx, src);
  MIR_module_t m = DLIST_HEAD (MIR_module_t, *MIR_get_module_list (ctx));
  for (MIR_item_t it = DLIST_HEAD (MIR_item_t, m->items); it != NULL; it = DLIST_NEXT (MIR_item_t, it))
    if (it->item_type == MIR_func_item) bump = it;
  MIR_load_module (ctx, m);
  MIR_gen_init (ctx);
  MIR_link (ctx, MIR_set_gen_interface, NULL);
  int64_t (*f) (void) = MIR_gen (ctx, bump);
  long r1 = f (), r2 = f ();
  MIR_interp (ctx, bump, &v, 0);
  printf ("generated: %c %c, then interpreted: %c (expected d)\n", (int) r1, (int) r2, (int) v.i);
  MIR_gen_finish (ctx);
  MIR_finish (ctx);
  return v.i == 'd' ? 0 : 1;
}
