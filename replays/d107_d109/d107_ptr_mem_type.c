/* Pre-existing violation in the UNMODIFIED code (not caused by patch.diff):
   mir-gen.c canonic_mem_type() tests `#ifdef MIR_PTR32`, but mir.h always defines MIR_PTR32
   (as 0 on 64-bit targets), so on x86-64 GVN treats memory of type `p` (8 bytes) as the same
   memory as type `i32` (4 bytes).  A 64-bit `p` load that follows an `i32` load/store of the same
   address is replaced at -O2/-O3 by the 32-bit value.

   Build & run (repo built in <root>/_build):
     cc -I<root> preexisting_ptr_mem_type.c <root>/_build/libmir_static.a -lm -lpthread -o pre && ./pre
   Prints for gen -O2 and -O3 (interp, -O0, -O1 are right):
     MISMATCH gen -O2 ldp: got 0xffffffff9abcdef0, expected 0x123456789abcdef0
     MISMATCH gen -O2 stp: got 0xffffffffdeadbeef, expected 0x11111111deadbeef
   and exits 1.  */
#include <stdio.h>
#include <stdint.h>
#include <string.h>
#include "mir.h"
#include "mir-gen.h"

static const char *src
  = "m: module\n"
    "   export ldp, stp\n"
    "ldp: func i64, i64:a\n" /* returns (p load) ^ (i32 load) ^ (i32 load) == p load */
    "   local i64:s, i64:q, i64:r\n"
    "   mov s, i32:(a)\n"
    "   mov q, p:(a)\n"
    "   xor r, q, s\n"
    "   xor r, r, s\n"
    "   ret r\n"
    "   endfunc\n"
    "stp: func i64, i64:a, i64:v\n" /* store low 4 bytes, reload all 8 bytes */
    "   local i64:r\n"
    "   mov i32:(a), v\n"
    "   mov r, p:(a)\n"
    "   ret r\n"
    "   endfunc\n"
    "   endmodule\n";

static int run_engine (int level) {
  MIR_context_t ctx = MIR_init ();
  MIR_item_t ldp = NULL, stp = NULL;
  int errs = 0;
  char engine[32];
  int64_t cell, res, exp;

  MIR_scan_string (ctx, src);
  MIR_module_t m = DLIST_TAIL (MIR_module_t, *MIR_get_module_list (ctx));
  for (MIR_item_t it = DLIST_HEAD (MIR_item_t, m->items); it != NULL; it = DLIST_NEXT (MIR_item_t, it))
    if (it->item_type == MIR_func_item) {
      if (strcmp (it->u.func->name, "ldp") == 0) ldp = it;
      if (strcmp (it->u.func->name, "stp") == 0) stp = it;
    }
  MIR_load_module (ctx, m);
  if (level < 0) {
    sprintf (engine, "interp");
    MIR_link (ctx, MIR_set_interp_interface, NULL);
  } else {
    sprintf (engine, "gen -O%d", level);
    MIR_gen_init (ctx);
    MIR_gen_set_optimize_level (ctx, (unsigned) level);
    MIR_link (ctx, MIR_set_gen_interface, NULL);
  }
  cell = 0x123456789abcdef0ll;
  exp = cell;
  if (level < 0) {
    MIR_val_t r, a[1];
    a[0].i = (int64_t) &cell;
    MIR_interp_arr (ctx, ldp, &r, 1, a);
    res = r.i;
  } else {
    res = ((int64_t (*) (int64_t)) MIR_gen (ctx, ldp)) ((int64_t) &cell);
  }
  if (res != exp) {
    printf ("MISMATCH %s ldp: got 0x%llx, expected 0x%llx\n", engine, (unsigned long long) res,
            (unsigned long long) exp);
    errs++;
  }
  cell = 0x1111111122222222ll;
  exp = 0x11111111deadbeefll;
  if (level < 0) {
    MIR_val_t r, a[2];
    a[0].i = (int64_t) &cell;
    a[1].i = 0xdeadbeefll;
    MIR_interp_arr (ctx, stp, &r, 2, a);
    res = r.i;
  } else {
    res = ((int64_t (*) (int64_t, int64_t)) MIR_gen (ctx, stp)) ((int64_t) &cell, 0xdeadbeefll);
  }
  if (res != exp) {
    printf ("MISMATCH %s stp: got 0x%llx, expected 0x%llx\n", engine, (unsigned long long) res,
            (unsigned long long) exp);
    errs++;
  }
  if (level >= 0) MIR_gen_finish (ctx);
  MIR_finish (ctx);
  return errs;
}

int main (void) {
  int errs = 0;
  for (int level = -1; level <= 3; level++) errs += run_engine (level);
  printf (errs == 0 ? "OK\n" : "FAIL: %d wrong results\n", errs);
  return errs != 0;
}
