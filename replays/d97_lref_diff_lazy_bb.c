/* Pre-existing violation of C03 on the UNMODIFIED tree (independent of seed patch.diff).

   A relative jump through a label DIFFERENCE (`tab: lref L1, L0`, i.e. GNU C
   `goto *(&&L0 + (&&L1 - &&L0))`) works with MIR_interp, the interp interface, gen and lazy gen
   (result 103) but hangs/crashes with lazy basic-block generation.

   Reason (mir-gen.c): create_bb_stubs() stores into the lref cell the difference of two bb THUNK
   addresses (get_bb_version() of L1 minus get_bb_version() of L0 at function start).  Later
   `laddr base, L0` is translated in generate_bb_version_machine_code() with
   get_bb_version()->addr, which generate_bb_version_machine_code() has already replaced by the
   MACHINE CODE address of L0's block when that block was generated earlier (bb_version->addr =
   addr).  base(machine code of L0) + (thunk(L1) - thunk(L0)) is not an address of L1.  If the
   laddr is executed in a block generated before L0's block (e.g. in the entry block), base is
   still the thunk and the program works, so it depends on the order of first block executions.

   build: cc -O1 -I<repo> preexisting_lref_diff_lazy_bb.c <repo>/_build/libmir_static.a -lm -lpthread -o pre
   run:   for m in 0 1 2 3 4; do timeout 20 ./pre $m; echo "exit=$?"; done
   observed on the unmodified tree:
     MIR_interp 103 / interp iface 103 / gen 103 / lazy gen 103 (exit 0 each),
     mode 4 (lazy bb gen): no output, killed by timeout (exit=124).  */
#include <stdio.h>
#include <stdlib.h>
#include <string.h>
#include <stdint.h>
#include "mir.h"
#include "mir-gen.h"

static const char *program
  = "m:    module\n"
    "      export main\n"
    "tab:  lref L1, L0\n"
    "main: func i64, i64:n\n"
    "      local i64:i, i64:r, i64:base, i64:d, i64:t, i64:a\n"
    "      mov i, 0\n"
    "      mov r, 0\n"
    "      jmp L0\n"
    "L1:\n"
    "      add r, r, 100\n"
    "      ret r\n"
    "L0:\n"
    "      add r, r, 1\n"
    "      add i, i, 1\n"
    "      blt L0, i, n\n"
    "      laddr base, L0\n" /* this block is generated after the block of L0 */
    "      mov a, tab\n"
    "      mov d, i64:(a)\n"
    "      add t, base, d\n"
    "      jmpi t\n"
    "      endfunc\n"
    "      endmodule\n";

int main (int argc, char **argv) {
  static const char *names[] = {"MIR_interp", "interp iface", "gen", "lazy gen", "lazy bb gen"};
  int from = argc > 1 ? atoi (argv[1]) : 0, to = argc > 1 ? atoi (argv[1]) : 4, bad = 0;

  for (int mode = from; mode <= to; mode++) {
    MIR_context_t ctx = MIR_init ();
    MIR_scan_string (ctx, program);
    MIR_module_t m = DLIST_HEAD (MIR_module_t, *MIR_get_module_list (ctx));
    MIR_item_t f = NULL;
    int64_t r;

    MIR_load_module (ctx, m);
    if (mode >= 2) MIR_gen_init (ctx);
    MIR_link (ctx,
              mode == 2   ? MIR_set_gen_interface
              : mode == 3 ? MIR_set_lazy_gen_interface
              : mode == 4 ? MIR_set_lazy_bb_gen_interface
                          : MIR_set_interp_interface,
              NULL);
    for (MIR_item_t it = DLIST_HEAD (MIR_item_t, m->items); it != NULL;
         it = DLIST_NEXT (MIR_item_t, it))
      if (it->item_type == MIR_func_item) f = it;
    if (mode == 0) {
      MIR_val_t v, a;
      a.i = 3;
      MIR_interp (ctx, f, &v, 1, a);
      r = v.i;
    } else {
      r = ((int64_t (*) (int64_t)) f->addr) (3);
    }
    printf ("%-12s %lld\n", names[mode], (long long) r);
    fflush (stdout);
    if (r != 103) bad = 1;
    if (mode >= 2) MIR_gen_finish (ctx);
    MIR_finish (ctx);
  }
  return bad;
}
