/* D27: lost copy when leaving SSA (make_conventional_ssa): at -O2/-O3 cnt(n) returned n - 1.
   Run: /repo/_build/c2m -O2 replays/d27_lost_copy.c -eg   (expected `1 2 3`, before the fix `1 1 2`; -ei and -O0/-O1 print `1 2 3`) */
int printf(const char *, ...);
int cnt(int n) { int c = 0; while (n-->0) c++; return c; }
int main(void) { printf("%d %d %d\n", cnt(1), cnt(2), cnt(3)); return 0; }
