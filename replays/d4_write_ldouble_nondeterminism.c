#include <stdio.h>
#include <string.h>
#include <stdlib.h>
#include <alloca.h>
#include "mir.h"
static unsigned char out1[1<<16], out2[1<<16]; static size_t n1, n2; static int which;
static int wr (MIR_context_t ctx, uint8_t b) { if (which==1) out1[n1++]=b; else out2[n2++]=b; return 1; }
static __attribute__((noinline)) void dirty (int v) { volatile char *p = alloca (1<<16); for (int i = 0; i < (1<<16); i++) p[i] = (char) v; }
int main (void) {
  MIR_context_t ctx = MIR_init ();
  MIR_scan_string (ctx, "m: module\nf: func ld\n local ld:r\n ldmov r, 1.5L\n ret r\n endfunc\nd: ld 2.5L\nendmodule\n");
  dirty (0x11); which = 1; MIR_write_with_func (ctx, wr);
  dirty (0xEE); which = 2; MIR_write_with_func (ctx, wr);
  printf ("n1=%zu n2=%zu same=%d\n", n1, n2, n1==n2 && !memcmp (out1,out2,n1));
  return 0;
}
