/* Pre-existing (unmodified code): a store with base+displacement memory placed between an
   overflow insn and the branch on its flag.  The address arithmetic inserted for the store
   (mov/add) clobbers the x86 flags, so bo is not taken in generated code at any level
   while the interpreter takes it.
   build: cc -I<root> preexisting_ovf_store.c <root>/_build/libmir_static.a -lm -lpthread */
#include <stdio.h>
#include <stdlib.h>
#include <string.h>
#include <stdint.h>
#include "mir.h"
#include "mir-gen.h"
static const char *mir_text
  = "m: module\n  export f\nf: func i64, i64:a, i64:b, i64:buf, i64:idx, i64:v\n"
    "  local i64:r\n"
    "  addo r, a, b\n"
    "  mov i64:24(buf), v\n"
    "  bo ovf\n"
    "  ret 0\n"
    "ovf:\n"
    "  ret 1\n"
    "  endfunc\n  endmodule\n";
typedef int64_t (*fun_t) (int64_t, int64_t, int64_t *, int64_t, int64_t);
static int64_t buf[16];
static int64_t run (int level, int64_t a, int64_t b) {
  MIR_context_t ctx = MIR_init ();
  MIR_scan_string (ctx, mir_text);
  MIR_module_t m = DLIST_TAIL (MIR_module_t, *MIR_get_module_list (ctx));
  MIR_item_t func = NULL;
  for (MIR_item_t it = DLIST_HEAD (MIR_item_t, m->items); it != NULL; it = DLIST_NEXT (MIR_item_t, it))
    if (it->item_type == MIR_func_item) func = it;
  MIR_load_module (ctx, m);
  if (level < 0) MIR_link (ctx, MIR_set_interp_interface, NULL);
  else { MIR_gen_init (ctx); MIR_gen_set_optimize_level (ctx, level); MIR_link (ctx, MIR_set_gen_interface, NULL); }
  int64_t res = ((fun_t) func->addr) (a, b, buf, 2, 77);
  if (level >= 0) MIR_gen_finish (ctx);
  MIR_finish (ctx);
  return res;
}
int main (void) {
  int64_t as[] = {1, INT64_MAX, INT64_MIN}, bs[] = {2, 1, -1};
  for (int t = 0; t < 3; t++) {
    printf ("a=%ld b=%ld interp=%ld", (long) as[t], (long) bs[t], (long) run (-1, as[t], bs[t]));
    for (int l = 0; l <= 3; l++) printf (" O%d=%ld", l, (long) run (l, as[t], bs[t]));
    printf ("\n");
  }
  return 0;
}
