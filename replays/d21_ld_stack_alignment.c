/* D21: a long double argument passed on the stack must start at a 16-byte aligned slot (psABI 3.2.3); after an odd
   number of 8-byte stack arguments both the interpreter FFI and the generator place it at offset 8 mod 16 */
#include <stdio.h>
#include <stdlib.h>
#include "mir.h"
#include "mir-gen.h"
static long double nat (long a, long b, long c, long d, long e, long f, long g, long double x) { return x + g; }
int main (void) {
  MIR_context_t ctx = MIR_init ();
  int bad = 0;
  MIR_scan_string (ctx, "m: module\n p: proto ld, i64:a, i64:b, i64:c, i64:d, i64:e, i64:f, i64:g, ld:x\n import nat\n export c\n"
    "c: func ld, ld:x\n local ld:r\n call p, nat, r, 1, 2, 3, 4, 5, 6, 7, x\n ret r\n endfunc\n endmodule\n");
  MIR_module_t m = DLIST_TAIL (MIR_module_t, *MIR_get_module_list (ctx));
  MIR_item_t func = NULL;
  for (MIR_item_t it = DLIST_HEAD (MIR_item_t, m->items); it != NULL; it = DLIST_NEXT (MIR_item_t, it))
    if (it->item_type == MIR_func_item) func = it;
  MIR_load_module (ctx, m); MIR_load_external (ctx, "nat", nat);
  MIR_link (ctx, MIR_set_interp_interface, NULL);
  MIR_val_t res, a1; a1.ld = 2.5L;
  MIR_interp (ctx, func, &res, 1, a1);
  printf ("interp: got %Lg expected 9.5 %s\n", res.ld, res.ld == 9.5L ? "ok" : "WRONG"); bad += res.ld != 9.5L;
  MIR_finish (ctx);
  ctx = MIR_init ();
  MIR_scan_string (ctx, "m: module\n p: proto ld, i64:a, i64:b, i64:c, i64:d, i64:e, i64:f, i64:g, ld:x\n import nat\n export c\n"
    "c: func ld, ld:x\n local ld:r\n call p, nat, r, 1, 2, 3, 4, 5, 6, 7, x\n ret r\n endfunc\n endmodule\n");
  m = DLIST_TAIL (MIR_module_t, *MIR_get_module_list (ctx));
  for (MIR_item_t it = DLIST_HEAD (MIR_item_t, m->items); it != NULL; it = DLIST_NEXT (MIR_item_t, it))
    if (it->item_type == MIR_func_item) func = it;
  MIR_load_module (ctx, m); MIR_load_external (ctx, "nat", nat);
  MIR_gen_init (ctx); MIR_gen_set_optimize_level (ctx, 1);
  MIR_link (ctx, MIR_set_gen_interface, NULL);
  long double (*fp) (long double) = MIR_gen (ctx, func);
  long double r = fp (2.5L);
  printf ("gen: got %Lg expected 9.5 %s\n", r, r == 9.5L ? "ok" : "WRONG"); bad += r != 9.5L;
  MIR_gen_finish (ctx); MIR_finish (ctx);
  return bad != 0;
}
