/* D6: crafted stream overflows reduce_data.buf in reduce_decode_get */
#include <stdio.h>
#include <stdlib.h>
#include <string.h>
#include <stdint.h>
#include "mir-alloc.h"
#include "mir-reduce.h"
static void *m_malloc (size_t s, void *u) { return malloc (s); }
static void *m_calloc (size_t n, size_t s, void *u) { return calloc (n, s); }
static void *m_realloc (void *p, size_t o, size_t n, void *u) { return realloc (p, n); }
static void m_free (void *p, void *u) { free (p); }
static struct MIR_alloc A = {m_malloc, m_calloc, m_realloc, m_free, NULL};
static uint8_t *in; static size_t in_len, in_pos;
static size_t rd (void *start, size_t len, void *aux) { size_t n = in_len - in_pos < len ? in_len - in_pos : len; memcpy (start, in + in_pos, n); in_pos += n; return n; }
static void put (int b) { in[in_len++] = b; }
static void put_uint (uint32_t u) { int n; for (n = 1; n <= 4 && u >= (1u << 7 * n); n++); put ((1 << (8 - n)) | ((u >> (n - 1) * 8) & 0xff)); for (int i = 2; i <= n; i++) put ((u >> (n - i) * 8) & 0xff); }
int main (void) {
  in = malloc (1 << 20); memcpy (in, "MIR", 3); in_len = 3;
  /* literals until pos = BUF_LEN - 2 : elements of 2047 bytes (long sym len) */
  uint32_t pos = 0, target = _REDUCE_BUF_LEN - 2;
  while (pos < target) { uint32_t l = target - pos > 2047 ? 2047 : target - pos; if (l < 7) { put (l << 5); } else { put (7 << 5); put_uint (l); } for (uint32_t i = 0; i < l; i++) put ('a'); pos += l; }
  /* now a pure reference: sym_len=0, ref_len long = 1000, ref_ind = curr_ind (-> ind2pos[0]=0) */
  put (31); put_uint (1000 - 3); put_uint (pos /* curr_ind == pos since all literals */);
  struct reduce_data *d = reduce_decode_start (&A, rd, NULL);
  int c = reduce_decode_get (d);
  printf ("decode_get returned %d ok=%d\n", c, d->ok_p);
  return 0;
}
