/* Pre-existing C10 violations observed on the UNMODIFIED tree (not caused by patch.diff).
   Build: cc -I<root> preexisting_cases.c <root>/_build/libmir_static.a -lm -lpthread -o pre
   Run:   ./pre N   (N = 1..5), each case builds a module through the API, prints it with
   MIR_output, scans the text in a fresh context and prints again.
   1: func whose last insn is a branch, followed by a `ref` (or `expr`) item: scanner keeps the
      stale insn_code of the branch and treats the first operand of `ref` as a label
      -> "ln 9: wrong ref operand", item lost.
   2: local register with the same name as a data item, `mov g, g` (reg <- ref): text is identical
      after the round trip but the 2nd operand is re-read as the register (mode reg, not ref).
   3: MIR_new_uint_op (UINT64_MAX) prints 18446744073709551615, re-read as int -> prints -1.
   4: MIR_new_str_op with a string not ending in NUL: "abc" is re-read with a NUL appended
      -> second print is "abc\000".
   5: proto with a block arg of size 2^32: printed blk0:4294967296(b), scanner says
      "invalid block arg size" (size is kept in a 32-bit field), proto lost. */
#include <stdio.h>
#include <stdlib.h>
#include <string.h>
#include <stdint.h>
#include "mir.h"
static char *out (MIR_context_t ctx) {
  char *buf = NULL; size_t len = 0; FILE *f = open_memstream (&buf, &len);
  MIR_output (ctx, f); fclose (f); return buf;
}
int main (int argc, char **argv) {
  int which = argc > 1 ? atoi (argv[1]) : 1;
  MIR_context_t ctx = MIR_init ();
  MIR_type_t rt = MIR_T_I64;
  MIR_new_module (ctx, "m");
  if (which == 1) {
    MIR_item_t f = MIR_new_func (ctx, "f", 1, &rt, 0);
    MIR_label_t l = MIR_new_label (ctx);
    MIR_append_insn (ctx, f, l);
    MIR_append_insn (ctx, f, MIR_new_insn (ctx, MIR_JMP, MIR_new_label_op (ctx, l)));
    MIR_finish_func (ctx);
    MIR_new_ref_data (ctx, "d", f, 0);
  } else if (which == 2) {
    int64_t v = 5;
    MIR_item_t g = MIR_new_data (ctx, "g", MIR_T_I64, 1, &v);
    MIR_item_t f = MIR_new_func (ctx, "f", 1, &rt, 0);
    MIR_reg_t r = MIR_new_func_reg (ctx, f->u.func, MIR_T_I64, "g");
    MIR_append_insn (ctx, f, MIR_new_insn (ctx, MIR_MOV, MIR_new_reg_op (ctx, r), MIR_new_ref_op (ctx, g)));
    MIR_append_insn (ctx, f, MIR_new_ret_insn (ctx, 1, MIR_new_reg_op (ctx, r)));
    MIR_finish_func (ctx);
  } else if (which == 3 || which == 4) {
    MIR_item_t f = MIR_new_func (ctx, "f", 1, &rt, 0);
    MIR_reg_t r = MIR_new_func_reg (ctx, f->u.func, MIR_T_I64, "r");
    MIR_append_insn (ctx, f, MIR_new_insn (ctx, MIR_MOV, MIR_new_reg_op (ctx, r),
                                           which == 3 ? MIR_new_uint_op (ctx, UINT64_MAX)
                                                      : MIR_new_str_op (ctx, (MIR_str_t){3, "abc"})));
    MIR_append_insn (ctx, f, MIR_new_ret_insn (ctx, 1, MIR_new_reg_op (ctx, r)));
    MIR_finish_func (ctx);
  } else {
    MIR_var_t a; a.type = MIR_T_BLK; a.name = "b"; a.size = (size_t) 1 << 32;
    MIR_new_proto_arr (ctx, "p", 0, NULL, 1, &a);
  }
  MIR_finish_module (ctx);
  char *t1 = out (ctx);
  MIR_context_t c2 = MIR_init ();
  MIR_scan_string (c2, t1); /* default error func prints the message and exits */
  char *t2 = out (c2);
  int diff = strcmp (t1, t2) != 0;
  printf ("case %d: %s\n--- first print\n%s--- second print\n%s", which, diff ? "TEXT DIFFERS" : "text same", t1, t2);
  if (which == 2) {
    MIR_module_t m = DLIST_TAIL (MIR_module_t, *MIR_get_module_list (c2));
    MIR_item_t f = DLIST_TAIL (MIR_item_t, m->items);
    MIR_insn_t i = DLIST_HEAD (MIR_insn_t, f->u.func->insns);
    printf ("re-read `mov g, g`: 2nd operand mode is %s (was ref)\n", i->ops[1].mode == MIR_OP_REF ? "ref" : i->ops[1].mode == MIR_OP_REG ? "reg" : "?");
    diff |= i->ops[1].mode != MIR_OP_REF;
  }
  return diff;
}
