/* Differential runner: interprets function "f" (up to 4 i64 args, i64 result) of a MIR text file and
   runs the code generated for it at optimization levels 0..3, each in its own child process.
   Usage: diffrun file.mir [arg0 [arg1 [arg2 [arg3]]]]
   Exit 0 if all five executions agree (same result or all fail the same way), 1 otherwise. */
#include <stdio.h>
#include <stdlib.h>
#include <string.h>
#include <unistd.h>
#include <sys/wait.h>
#include "mir.h"
#include "mir-gen.h"

static char *read_file (const char *name) {
  FILE *f = fopen (name, "rb");
  long len;
  char *s;
  if (f == NULL) { perror (name); exit (2); }
  fseek (f, 0, SEEK_END); len = ftell (f); fseek (f, 0, SEEK_SET);
  s = malloc (len + 1);
  if (fread (s, 1, len, f) != (size_t) len) { perror (name); exit (2); }
  s[len] = 0; fclose (f);
  return s;
}

static int64_t calls_log[64];
static int ncalls;
static void ext_note (int64_t v) { if (ncalls < 64) calls_log[ncalls++] = v; }

typedef int64_t (*fun_t) (int64_t, int64_t, int64_t, int64_t);

/* mode: -1 interpreter, 0..3 generator level */
static void run_child (const char *src, int mode, int64_t *a, int fd) {
  MIR_context_t ctx = MIR_init ();
  MIR_module_t m;
  MIR_item_t it, func = NULL;
  int64_t res;
  char buf[2048];
  int n;

  MIR_scan_string (ctx, src);
  m = DLIST_HEAD (MIR_module_t, *MIR_get_module_list (ctx));
  for (it = DLIST_HEAD (MIR_item_t, m->items); it != NULL; it = DLIST_NEXT (MIR_item_t, it))
    if (it->item_type == MIR_func_item && strcmp (it->u.func->name, "f") == 0) func = it;
  if (func == NULL) { fprintf (stderr, "no function f\n"); _exit (3); }
  MIR_load_module (ctx, m);
  MIR_load_external (ctx, "note", ext_note);
  if (mode < 0) {
    MIR_val_t v;
    MIR_link (ctx, MIR_set_interp_interface, NULL);
    MIR_interp (ctx, func, &v, 4, (MIR_val_t){.i = a[0]}, (MIR_val_t){.i = a[1]},
                (MIR_val_t){.i = a[2]}, (MIR_val_t){.i = a[3]});
    res = v.i;
  } else {
    MIR_gen_init (ctx);
    MIR_gen_set_optimize_level (ctx, mode);
    MIR_link (ctx, MIR_set_gen_interface, NULL);
    res = ((fun_t) MIR_gen (ctx, func)) (a[0], a[1], a[2], a[3]);
  }
  n = snprintf (buf, sizeof (buf), "res=%lld calls=", (long long) res);
  for (int i = 0; i < ncalls; i++) n += snprintf (buf + n, sizeof (buf) - n, "%lld,", (long long) calls_log[i]);
  if (write (fd, buf, n) != n) _exit (4);
  _exit (0);
}

int main (int argc, char **argv) {
  int64_t a[4] = {0, 0, 0, 0};
  char out[5][2048];
  const char *names[5] = {"interp", "gen-O0", "gen-O1", "gen-O2", "gen-O3"};
  char *src;
  int bad = 0;

  if (argc < 2) { fprintf (stderr, "usage: %s file.mir [args]\n", argv[0]); return 2; }
  src = read_file (argv[1]);
  for (int i = 2; i < argc && i < 6; i++) a[i - 2] = (int64_t) strtoull (argv[i], NULL, 0);
  for (int k = 0; k < 5; k++) {
    int p[2], st;
    pid_t pid;
    ssize_t n;
    if (pipe (p) != 0) return 2;
    if ((pid = fork ()) == 0) { close (p[0]); alarm (20); run_child (src, k - 1, a, p[1]); }
    close (p[1]);
    n = read (p[0], out[k], sizeof (out[k]) - 1);
    if (n < 0) n = 0;
    out[k][n] = 0;
    close (p[0]);
    waitpid (pid, &st, 0);
    if (WIFSIGNALED (st))
      snprintf (out[k], sizeof (out[k]), "killed by signal %d (%s)", WTERMSIG (st), strsignal (WTERMSIG (st)));
    else if (WEXITSTATUS (st) != 0)
      snprintf (out[k], sizeof (out[k]), "exit status %d", WEXITSTATUS (st));
    printf ("%-7s: %s\n", names[k], out[k]);
    if (k > 0 && strcmp (out[k], out[0]) != 0) bad = 1;
  }
  printf (bad ? "MISMATCH\n" : "OK\n");
  return bad;
}
