/* Reproducer for behaviour of the UNMODIFIED tree: 32-bit mul/div by a constant are changed to
   shifts using the full 64-bit constant value (transform_mul_div/power2_int_op in mir-gen.c),
   although a 32-bit insn sees only the low 32 bits of the constant.
     muls r, a, 2^40   -> low 32 bits of the constant are 0, the documented result is 0,
                          gen -O2 makes `lshs r, a, 40` (x86 masks the count: a << 8)
     divs r, a, 2^31   -> the 32-bit divisor is INT32_MIN, INT32_MIN / INT32_MIN == 1,
                          gen -O2 gives -1 (signed "divide by +2^31" shift sequence)
   Build: cc -I$ROOT preexisting_muls_divs_pow2.c $ROOT/_build/libmir_static.a -lm -lpthread */
#include <stdio.h>
#include <stdint.h>
#include <string.h>
#include "mir.h"
#include "mir-gen.h"

static const char *src
  = "m: module\n"
    "export fmul, fdiv\n"
    "fmul: func i64, i64:a\n"
    "  local i64:r\n"
    "  muls r, a, 1099511627776\n" /* 2^40 */
    "  ext32 r, r\n"
    "  ret r\n"
    "  endfunc\n"
    "fdiv: func i64, i64:a\n"
    "  local i64:r\n"
    "  divs r, a, 2147483648\n" /* 2^31: INT32_MIN as a 32-bit value */
    "  ext32 r, r\n"
    "  ret r\n"
    "  endfunc\n"
    "endmodule\n";

static int64_t run (int level, const char *name, int64_t a) {
  MIR_context_t ctx = MIR_init ();
  MIR_item_t f, func = NULL;
  MIR_val_t res, arg;
  int64_t r;

  MIR_scan_string (ctx, src);
  MIR_module_t m = DLIST_HEAD (MIR_module_t, *MIR_get_module_list (ctx));
  for (f = DLIST_HEAD (MIR_item_t, m->items); f != NULL; f = DLIST_NEXT (MIR_item_t, f))
    if (f->item_type == MIR_func_item && strcmp (f->u.func->name, name) == 0) func = f;
  MIR_load_module (ctx, m);
  if (level < 0) {
    MIR_link (ctx, MIR_set_interp_interface, NULL);
    arg.i = a;
    MIR_interp_arr (ctx, func, &res, 1, &arg);
    r = res.i;
  } else {
    MIR_gen_init (ctx);
    MIR_gen_set_optimize_level (ctx, level);
    MIR_link (ctx, MIR_set_gen_interface, NULL);
    r = ((int64_t (*) (int64_t)) MIR_gen (ctx, func)) (a);
    MIR_gen_finish (ctx);
  }
  MIR_finish (ctx);
  return r;
}

int main (void) {
  int bad = 0;
  for (int level = -1; level <= 3; level++) {
    int64_t r1 = run (level, "fmul", 3), r2 = run (level, "fdiv", INT32_MIN);
    printf ("%s%d: muls 3,2^40 = %ld (expect 0)  divs INT32_MIN,2^31 = %ld (expect 1)\n",
            level < 0 ? "interp" : "gen -O", level < 0 ? 0 : level, (long) r1, (long) r2);
    if (r1 != 0 || r2 != 1) bad = 1;
  }
  return bad;
}
