/* D30: mir-interp.c call(): the buffer for native-call arguments/results is a per-context vector.  When the native callee calls
   back into interpreted MIR code and that code makes a native call with more operands than the vector holds, the vector is
   reallocated; the outer trampoline still writes its results into the old (freed) block and the outer call() reads them from
   the new one.  Build with -fsanitize=address together with /repo/mir.c to see the heap-use-after-free. */
#include <stdio.h>
#include <string.h>
#include <stdlib.h>
#include "mir.h"

#define N 70
static long (*g_ptr) (void);
static long cb (long x) { return x + g_ptr (); } /* native function calling back into MIR */
static long sum70 (long a1, long a2, long a3, long a4, long a5, long a6, long a7, long a8, long a9, long a10, long a11, long a12, long a13,
                   long a14, long a15, long a16, long a17, long a18, long a19, long a20, long a21, long a22, long a23, long a24, long a25,
                   long a26, long a27, long a28, long a29, long a30, long a31, long a32, long a33, long a34, long a35, long a36, long a37,
                   long a38, long a39, long a40, long a41, long a42, long a43, long a44, long a45, long a46, long a47, long a48, long a49,
                   long a50, long a51, long a52, long a53, long a54, long a55, long a56, long a57, long a58, long a59, long a60, long a61,
                   long a62, long a63, long a64, long a65, long a66, long a67, long a68, long a69, long a70) {
  return a1 + a2 + a3 + a4 + a5 + a6 + a7 + a8 + a9 + a10 + a11 + a12 + a13 + a14 + a15 + a16 + a17 + a18 + a19 + a20 + a21 + a22 + a23
         + a24 + a25 + a26 + a27 + a28 + a29 + a30 + a31 + a32 + a33 + a34 + a35 + a36 + a37 + a38 + a39 + a40 + a41 + a42 + a43 + a44
         + a45 + a46 + a47 + a48 + a49 + a50 + a51 + a52 + a53 + a54 + a55 + a56 + a57 + a58 + a59 + a60 + a61 + a62 + a63 + a64 + a65
         + a66 + a67 + a68 + a69 + a70;
}

int main (void) {
  char *src = malloc (1 << 16), *p = src;
  p += sprintf (p, "m: module\nimport sum70, cb\nexport g, f\np: proto i64");
  for (int i = 0; i < N; i++) p += sprintf (p, ", i64:a%d", i);
  p += sprintf (p, "\npcb: proto i64, i64:x\n");
  p += sprintf (p, "g: func i64\n  local i64:r\n  call p, sum70, r");
  for (int i = 0; i < N; i++) p += sprintf (p, ", %d", i + 1);
  p += sprintf (p, "\n  ret r\n  endfunc\n");
  p += sprintf (p, "f: func i64\n  local i64:r\n  call pcb, cb, r, 1000000\n  ret r\n  endfunc\n  endmodule\n");
  MIR_context_t ctx = MIR_init ();
  MIR_scan_string (ctx, src);
  free (src);
  MIR_module_t m = DLIST_TAIL (MIR_module_t, *MIR_get_module_list (ctx));
  MIR_load_module (ctx, m);
  MIR_load_external (ctx, "sum70", sum70);
  MIR_load_external (ctx, "cb", cb);
  MIR_link (ctx, MIR_set_interp_interface, NULL);
  MIR_item_t f = NULL, g = NULL;
  for (MIR_item_t it = DLIST_HEAD (MIR_item_t, m->items); it != NULL; it = DLIST_NEXT (MIR_item_t, it))
    if (it->item_type == MIR_func_item) { if (g == NULL) g = it; else f = it; }
  g_ptr = g->addr;
  MIR_val_t res;
  MIR_interp (ctx, f, &res, 0);
  long expect = 1000000 + N * (N + 1) / 2;
  printf ("interp: f() = %ld, expected %ld %s\n", (long) res.i, expect, res.i == expect ? "ok" : "WRONG");
  MIR_finish (ctx);
  return res.i != expect;
}
