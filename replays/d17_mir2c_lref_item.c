/* D17: mir2c out_item has no branch for lref data items: under NDEBUG the item is treated as a function */
#include <stdio.h>
#include "mir.h"
#include "mir2c/mir2c.h"
int main (void) {
  MIR_context_t ctx = MIR_init ();
  MIR_scan_string (ctx, "m: module\nf: func i64\nL1:\n  ret 0\n  endfunc\nlr: lref L1\nendmodule\n");
  MIR_module_t m = DLIST_HEAD (MIR_module_t, *MIR_get_module_list (ctx));
  MIR_module2c (ctx, stdout, m);
  MIR_finish (ctx);
  return 0;
}
