/* A data item holding an infinity (or a nan): MIR_module2c prints it as `inf`, which is not C.
   build: gcc -I$R preexisting_inf_data.c $R/mir2c/mir2c.c $R/_build/libmir_static.a -lm -lpthread -o t
   run:   ./t > out.c && gcc -c out.c    -> error: 'inf' undeclared here (not in a function) */
#include <math.h>
#include "mir.h"
#include "mir2c/mir2c.h"
int main (void) {
  MIR_context_t ctx = MIR_init ();
  double v = INFINITY;
  MIR_module_t m = MIR_new_module (ctx, "m");
  MIR_new_data (ctx, "x", MIR_T_D, 1, &v);
  MIR_type_t rt = MIR_T_D;
  MIR_item_t f = MIR_new_func (ctx, "main_f", 1, &rt, 0);
  MIR_reg_t t = MIR_new_func_reg (ctx, f->u.func, MIR_T_I64, "t");
  MIR_reg_t r = MIR_new_func_reg (ctx, f->u.func, MIR_T_D, "r");
  MIR_item_t x = DLIST_HEAD (MIR_item_t, m->items);
  MIR_append_insn (ctx, f, MIR_new_insn (ctx, MIR_MOV, MIR_new_reg_op (ctx, t), MIR_new_ref_op (ctx, x)));
  MIR_append_insn (ctx, f, MIR_new_insn (ctx, MIR_DMOV, MIR_new_reg_op (ctx, r), MIR_new_mem_op (ctx, MIR_T_D, 0, t, 0, 1)));
  MIR_append_insn (ctx, f, MIR_new_ret_insn (ctx, 1, MIR_new_reg_op (ctx, r)));
  MIR_finish_func (ctx);
  MIR_new_export (ctx, "main_f");
  MIR_finish_module (ctx);
  MIR_module2c (ctx, stdout, m);
  MIR_finish (ctx);
  return 0;
}
