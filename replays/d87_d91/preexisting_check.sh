#!/bin/sh
# usage: preexisting_check.sh <repo root> <file.mir> <d|i> [same]
# (extra flags for compiling the generated C can be given in the environment variable M2C_CFLAGS)
# Same comparison as run.sh for an arbitrary module exporting main_f (d: returns double, i: i64).
R=$1; M=$2; K=$3; S=$4
D=$(cd "$(dirname "$0")" && pwd)
T=$(mktemp -d)
trap 'rm -rf "$T"' EXIT
gcc -O1 -I"$R" "$D/harness.c" "$R/mir2c/mir2c.c" "$R/_build/libmir_static.a" -lm -lpthread -ldl -o "$T/harness" || exit 3
timeout 60 "$T/harness" "$M" "$T/out.c" $K $S > "$T/interp.txt" 2> "$T/h.err"
rc=$?
if [ $rc != 0 ]; then echo "VIOLATED?: translate+interpret harness failed (exit $rc)"; head -3 "$T/h.err"; exit 1; fi
if ! gcc -w -O0 $M2C_CFLAGS "$T/out.c" "$D/drv_$K.c" -o "$T/cprog" 2> "$T/cc.err"; then
  echo "VIOLATED: generated C is rejected by the C compiler"; grep -m3 "error" "$T/cc.err"; exit 1
fi
timeout 60 "$T/cprog" > "$T/c.txt"; rc=$?
if [ $rc != 0 ]; then echo "VIOLATED: compiled C failed (exit $rc); interpreter printed: $(cat "$T/interp.txt")"; exit 1; fi
echo "interpreter: $(cat "$T/interp.txt")   generated C: $(cat "$T/c.txt")"
if cmp -s "$T/interp.txt" "$T/c.txt"; then echo "OK: same result"; exit 0; fi
echo "VIOLATED: results differ"; exit 1
