#include <stdio.h>
extern double main_f (void);
int main (void) { double r = main_f (); fflush (stdout); printf ("%.17g\n", r); return 0; }
