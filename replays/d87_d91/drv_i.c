#include <stdio.h>
#include <stdint.h>
extern int64_t main_f (void);
int main (void) { int64_t r = main_f (); fflush (stdout); printf ("%lld\n", (long long) r); return 0; }
