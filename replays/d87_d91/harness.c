/* Translate the last module of a MIR text file into C (written to argv[2]) and then interpret
   the exported function `main_f` of the module, printing its result.
   usage: harness file.mir out.c d|i [same]  (d: main_f returns double, i: main_f returns i64)
   By default the module is read again into a fresh context for the interpretation; with `same`
   the very module object that was translated is loaded and interpreted. */
#include <stdio.h>
#include <stdlib.h>
#include <string.h>
#include <dlfcn.h>
#include "mir.h"
#include "mir2c/mir2c.h"

static void *resolve (const char *name) { return dlsym (RTLD_DEFAULT, name); }

int main (int argc, char **argv) {
  if (argc != 4 && argc != 5) return 2;
  FILE *in = fopen (argv[1], "r");
  if (in == NULL) return 2;
  static char buf[1 << 16];
  size_t n = fread (buf, 1, sizeof (buf) - 1, in);
  buf[n] = 0;
  fclose (in);
  MIR_context_t ctx = MIR_init ();
  MIR_scan_string (ctx, buf);
  MIR_module_t m = DLIST_TAIL (MIR_module_t, *MIR_get_module_list (ctx));
  FILE *out = fopen (argv[2], "w");
  if (out == NULL) return 2;
  MIR_module2c (ctx, out, m);
  fclose (out);
  if (argc == 4) { /* interpret a fresh copy of the module */
    MIR_finish (ctx);
    ctx = MIR_init ();
    MIR_scan_string (ctx, buf);
    m = DLIST_TAIL (MIR_module_t, *MIR_get_module_list (ctx));
  }
  MIR_item_t func = NULL;
  for (MIR_item_t it = DLIST_HEAD (MIR_item_t, m->items); it != NULL; it = DLIST_NEXT (MIR_item_t, it))
    if (it->item_type == MIR_func_item && strcmp (it->u.func->name, "main_f") == 0) func = it;
  if (func == NULL) return 2;
  MIR_load_module (ctx, m);
  MIR_link (ctx, MIR_set_interp_interface, resolve);
  MIR_val_t res;
  MIR_interp (ctx, func, &res, 0);
  fflush (stdout);
  if (argv[3][0] == 'd')
    printf ("%.17g\n", res.d);
  else
    printf ("%lld\n", (long long) res.i);
  MIR_finish (ctx);
  return 0;
}
