/* Pre-existing C18 violation in the UNMODIFIED tree (not related to patch.diff):
   mir2c/mir2c.c keeps the function being translated and a temporary counter in the
   file-scope variables `curr_func' and `curr_temp'.  Two threads translating modules of
   their own, independent contexts race on them: register names are looked up in the
   function of the other thread's context (wrong names in the C output, or the MIR error
   "undeclared reg" -> exit), and __t<N>/__s<N> temporaries get numbers of the other thread.

   build: cc -O1 -g -I$ROOT preexisting_mir2c.c $ROOT/mir2c/mir2c.c $ROOT/_build/libmir_static.a \
             -lm -lpthread -o preexisting_mir2c
   run:   timeout 60 ./preexisting_mir2c     (exit 0 = no interference seen, 1 = interference) */
#define _GNU_SOURCE
#include <stdio.h>
#include <stdlib.h>
#include <string.h>
#include <pthread.h>
#include "mir.h"
#include "mir2c/mir2c.h"

#define NTHREADS 4
#define ITERS 3000
#define NREGS 40

static int failures[NTHREADS];

static char *module_text (int k) {
  char *buf = malloc (64 * 1024), *p = buf;
  p += sprintf (p, "m%d: module\n  export f%d\nf%d: func i64, i64:t%d_a\n  local i64:t%d_s", k, k, k, k,
                k);
  for (int i = 0; i < NREGS + k; i++) p += sprintf (p, ", i64:t%d_r%d", k, i);
  p += sprintf (p, "\n  mov t%d_s, 0\n", k);
  for (int i = 0; i < NREGS + k; i++) {
    p += sprintf (p, "  add t%d_r%d, t%d_a, %d\n", k, i, k, i);
    p += sprintf (p, "  add t%d_s, t%d_s, t%d_r%d\n", k, k, k, i);
  }
  p += sprintf (p, "  ret t%d_s\n  endfunc\n  endmodule\n", k);
  return buf;
}

static char *translate (MIR_context_t ctx) {
  char *out = NULL;
  size_t len = 0;
  FILE *f = open_memstream (&out, &len);
  MIR_module2c (ctx, f, DLIST_HEAD (MIR_module_t, *MIR_get_module_list (ctx)));
  fclose (f);
  return out;
}

static char *refs[NTHREADS];
static pthread_barrier_t barrier;

static void *worker (void *arg) {
  int k = (int) (long) arg;
  char *text = module_text (k);
  MIR_context_t ctx = MIR_init ();
  MIR_scan_string (ctx, text);
  pthread_barrier_wait (&barrier);
  for (int it = 0; it < ITERS; it++) {
    char *out = translate (ctx);
    if (strcmp (out, refs[k]) != 0) failures[k]++;
    free (out);
  }
  MIR_finish (ctx);
  free (text);
  return NULL;
}

int main (void) {
  pthread_t th[NTHREADS];
  int fail = 0;

  for (int k = 0; k < NTHREADS; k++) { /* reference output of each workload run alone */
    char *text = module_text (k);
    MIR_context_t ctx = MIR_init ();
    MIR_scan_string (ctx, text);
    refs[k] = translate (ctx);
    MIR_finish (ctx);
    free (text);
  }
  pthread_barrier_init (&barrier, NULL, NTHREADS);
  for (long k = 0; k < NTHREADS; k++) pthread_create (&th[k], NULL, worker, (void *) k);
  for (int k = 0; k < NTHREADS; k++) pthread_join (th[k], NULL);
  for (int k = 0; k < NTHREADS; k++) {
    printf ("thread %d: %d of %d translations differ from the one obtained alone\n", k, failures[k],
            ITERS);
    fail |= failures[k] != 0;
  }
  printf (fail ? "FAIL: MIR_module2c of independent contexts interfere\n" : "OK\n");
  return fail;
}
