/* D32: a function whose last instruction is a label (legal through the API; MIR_finish_func appends the missing ret only when
   the function has results) is printed/written, but neither the text scanner nor the binary reader accepts it back. */
#include <stdio.h>
#include <stdlib.h>
#include <string.h>
#include <setjmp.h>
#include <stdarg.h>
#include "mir.h"
static jmp_buf jb;
static char msg[256];
static void err (MIR_error_type_t t, const char *fmt, ...) { va_list ap; va_start (ap, fmt); vsnprintf (msg, sizeof msg, fmt, ap); longjmp (jb, 1); }
static char bin[1 << 16]; static size_t blen, bpos;
static int wr (MIR_context_t c, uint8_t b) { bin[blen++] = b; return 1; }
static int rd (MIR_context_t c) { return bpos < blen ? (unsigned char) bin[bpos++] : EOF; }
int main (void) {
  MIR_context_t ctx = MIR_init ();
  MIR_module_t m = MIR_new_module (ctx, "m");
  MIR_type_t rt = MIR_T_I64;
  MIR_item_t f = MIR_new_func (ctx, "f", 0, &rt, 1, MIR_T_I64, "n");
  MIR_reg_t n = MIR_reg (ctx, "n", f->u.func);
  MIR_label_t l = MIR_new_label (ctx);
  MIR_append_insn (ctx, f, MIR_new_insn (ctx, MIR_BT, MIR_new_label_op (ctx, l), MIR_new_reg_op (ctx, n)));
  MIR_append_insn (ctx, f, MIR_new_ret_insn (ctx, 0));
  MIR_append_insn (ctx, f, l);           /* the function ends in a label; MIR_finish_func adds nothing: no results */
  MIR_finish_func (ctx);
  MIR_finish_module (ctx);
  char *text = NULL; size_t tlen = 0;
  FILE *mf = open_memstream (&text, &tlen);
  MIR_output (ctx, mf);
  fclose (mf);
  MIR_write_with_func (ctx, wr);
  MIR_finish (ctx);
  int bad = 0;
  ctx = MIR_init ();
  MIR_set_error_func (ctx, err);
  if (setjmp (jb) == 0) {
    char *t2 = NULL; size_t l2 = 0; FILE *f2;
    MIR_scan_string (ctx, text);
    f2 = open_memstream (&t2, &l2); MIR_output (ctx, f2); fclose (f2);
    printf ("text  : read back ok, prints %s\n", strcmp (text, t2) == 0 ? "identically" : "DIFFERENTLY");
    bad += strcmp (text, t2) != 0;
  }
  else { printf ("text  : REJECTED: %s\n", msg); bad++; }
  ctx = MIR_init ();
  MIR_set_error_func (ctx, err);
  if (setjmp (jb) == 0) {
    char *t2 = NULL; size_t l2 = 0; FILE *f2;
    MIR_read_with_func (ctx, rd);
    f2 = open_memstream (&t2, &l2); MIR_output (ctx, f2); fclose (f2);
    printf ("binary: read back ok, prints %s\n", strcmp (text, t2) == 0 ? "identically" : "DIFFERENTLY");
    bad += strcmp (text, t2) != 0;
  }
  else { printf ("binary: REJECTED: %s\n", msg); bad++; }
  printf (bad ? "WRONG: the writers' output is not accepted by the readers\n" : "ok\n");
  return bad != 0;
}
