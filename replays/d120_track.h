/* Tracking user allocators for MIR: every block and every mapped region is recorded.
   Freed blocks are poisoned and kept in quarantine (never given back to libc) so that
   double frees, frees of foreign pointers and writes after free are detected reliably. */
#ifndef TRACK_H
#define TRACK_H
#include <stdio.h>
#include <stdlib.h>
#include <string.h>
#include <stdint.h>
#include "mir.h"
#undef MAP_FAILED
#include <sys/mman.h>

#define TRACK_MAX 2000003 /* open addressing table */
#define TRACK_POISON 0xDB

typedef struct {
  void *ptr;
  size_t size;
  int state; /* 0 - empty, 1 - live, 2 - freed (quarantine) */
} track_blk_t;

static track_blk_t *track_tab;
static size_t track_live, track_live_bytes, track_allocs;
static int track_errors;

static track_blk_t *track_find (void *p, int insert_p) {
  size_t h = ((uintptr_t) p >> 4) % TRACK_MAX;
  for (;;) {
    if (track_tab[h].state == 0) return insert_p ? &track_tab[h] : NULL;
    if (track_tab[h].ptr == p) return &track_tab[h];
    h = (h + 1) % TRACK_MAX;
  }
}

static void track_err (const char *msg, void *p) {
  fprintf (stderr, "ALLOC VIOLATION: %s (%p)\n", msg, p);
  track_errors++;
}

static void *track_new (size_t size) {
  void *p = malloc (size == 0 ? 1 : size); /* never reused: quarantine keeps freed blocks */
  track_blk_t *b;
  if (p == NULL) abort ();
  b = track_find (p, 1);
  b->ptr = p;
  b->size = size;
  b->state = 1;
  track_live++;
  track_live_bytes += size;
  track_allocs++;
  return p;
}

static void track_release (void *p, const char *what) {
  track_blk_t *b;
  if (p == NULL) return;
  b = track_find (p, 0);
  if (b == NULL) {
    track_err ("release of a block not obtained from the user allocator", p);
    return;
  }
  if (b->state == 2) {
    track_err (what, p);
    return;
  }
  memset (p, TRACK_POISON, b->size);
  b->state = 2;
  track_live--;
  track_live_bytes -= b->size;
}

static void *t_malloc (size_t size, void *ud) {
  (void) ud;
  return track_new (size);
}
static void *t_calloc (size_t n, size_t size, void *ud) {
  void *p = track_new (n * size);
  (void) ud;
  memset (p, 0, n * size);
  return p;
}
static void *t_realloc (void *ptr, size_t old_size, size_t new_size, void *ud) {
  void *p;
  track_blk_t *b;
  (void) ud;
  if (ptr == NULL) return track_new (new_size);
  b = track_find (ptr, 0);
  if (b == NULL || b->state != 1) {
    track_err ("realloc of a block which is not live", ptr);
    return track_new (new_size);
  }
  if (b->size != old_size) track_err ("realloc reports a wrong previous size", ptr);
  p = track_new (new_size);
  memcpy (p, ptr, b->size < new_size ? b->size : new_size);
  track_release (ptr, "double free");
  return p;
}
static void t_free (void *ptr, void *ud) {
  (void) ud;
  track_release (ptr, "double free");
}

/* code regions */
#define TRACK_MAX_MAPS 4096
static struct {
  uint8_t *start;
  size_t len;
  int live, writable;
} track_maps[TRACK_MAX_MAPS];
static size_t track_nmaps, track_live_maps;

static void *t_map (size_t len, void *ud) {
  void *p = mmap (NULL, len, PROT_READ | PROT_EXEC, MAP_PRIVATE | MAP_ANONYMOUS, -1, 0);
  (void) ud;
  if (p == (void *) -1) return NULL;
  if (track_nmaps >= TRACK_MAX_MAPS) abort ();
  track_maps[track_nmaps].start = p;
  track_maps[track_nmaps].len = len;
  track_maps[track_nmaps].live = 1;
  track_maps[track_nmaps].writable = 0;
  track_nmaps++;
  track_live_maps++;
  return p;
}
static int t_unmap (void *addr, size_t len, void *ud) {
  (void) ud;
  for (size_t i = 0; i < track_nmaps; i++)
    if (track_maps[i].live && track_maps[i].start == addr) {
      if (track_maps[i].len != len) track_err ("unmap with a wrong length", addr);
      track_maps[i].live = 0;
      track_live_maps--;
      return munmap (addr, len);
    }
  track_err ("unmap of an unknown region", addr);
  return -1;
}
static int t_protect (void *addr, size_t len, MIR_mem_protect_t prot, void *ud) {
  int found = 0;
  (void) ud;
  for (size_t i = 0; i < track_nmaps; i++)
    if (track_maps[i].live && track_maps[i].start <= (uint8_t *) addr
        && (uint8_t *) addr + len <= track_maps[i].start + track_maps[i].len)
      found = 1;
  if (!found) track_err ("protect outside of mapped regions", addr);
  return mprotect (addr, len,
                   prot == PROT_WRITE_EXEC ? PROT_READ | PROT_WRITE | PROT_EXEC
                                           : PROT_READ | PROT_EXEC);
}

static struct MIR_alloc track_alloc = {t_malloc, t_calloc, t_realloc, t_free, NULL};
static struct MIR_code_alloc track_code_alloc = {t_map, t_unmap, t_protect, NULL};

static void track_init (void) {
  track_tab = calloc (TRACK_MAX, sizeof (track_blk_t));
  if (track_tab == NULL) abort ();
}

/* Check the quarantine for writes after free and report leaks.  Return number of problems. */
static int track_report (void) {
  size_t dirty = 0;
  for (size_t i = 0; i < TRACK_MAX; i++)
    if (track_tab[i].state == 2) {
      uint8_t *p = track_tab[i].ptr;
      for (size_t j = 0; j < track_tab[i].size; j++)
        if (p[j] != TRACK_POISON) {
          dirty++;
          break;
        }
    }
  if (dirty != 0) {
    fprintf (stderr, "ALLOC VIOLATION: %lu freed blocks were written after free\n",
             (unsigned long) dirty);
    track_errors++;
  }
  if (track_live != 0) {
    fprintf (stderr, "ALLOC VIOLATION: %lu blocks (%lu bytes) not released after finish\n",
             (unsigned long) track_live, (unsigned long) track_live_bytes);
    track_errors++;
  }
  if (track_live_maps != 0) {
    fprintf (stderr, "ALLOC VIOLATION: %lu code regions not unmapped after finish\n",
             (unsigned long) track_live_maps);
    track_errors++;
  }
  fprintf (stderr, "allocations: %lu, violations: %d\n", (unsigned long) track_allocs,
           track_errors);
  return track_errors;
}
#endif
