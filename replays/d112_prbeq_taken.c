#include <stdio.h>
#include <stdint.h>
#include "mir.h"
#include "mir-gen.h"
/* f(a): property of r is set to 5 on one path and stays 0 on the other; both reach the block with
   prbeq L1, r, 5: two versions of that block, one takes the branch, one does not. */
static const char *text = "m: module\n\
export f\n\
f: func i64, i64:a\n\
   local i64:r\n\
   mov r, a\n\
   \n\
   prset r, 5\n\
L0:\n\
   prbeq L1, r, 5\n\
   add r, r, 100\n\
L1:\n\
   add r, r, 1\n\
   ret r\n\
   endfunc\n\
   endmodule\n";
int main (int argc, char **argv) {
  int bad = 0;
  for (int order = 0; order < 2; order++) {
    MIR_context_t ctx = MIR_init ();
    MIR_module_t m; MIR_item_t f = NULL;
    MIR_scan_string (ctx, text);
    m = DLIST_TAIL (MIR_module_t, *MIR_get_module_list (ctx));
    for (MIR_item_t it = DLIST_HEAD (MIR_item_t, m->items); it != NULL; it = DLIST_NEXT (MIR_item_t, it))
      if (it->item_type == MIR_func_item) f = it;
    MIR_load_module (ctx, m);
    MIR_gen_init (ctx);
    MIR_link (ctx, MIR_set_lazy_bb_gen_interface, NULL);
    int64_t (*fp) (int64_t) = f->addr;
    int64_t r1, r2;
    if (order == 0) { r1 = fp (0); r2 = fp (7); } else { r2 = fp (7); r1 = fp (0); }
    int64_t r1b = fp (0), r2b = fp (7);
    printf ("order %d: f(0)=%ld (expected 1) f(7)=%ld (expected 108) again %ld %ld\n", order, (long) r1, (long) r2, (long) r1b, (long) r2b);
    bad |= r1 != 1 || r2 != 108 || r1b != 1 || r2b != 108;
    MIR_gen_finish (ctx);
    MIR_finish (ctx);
  }
  return bad;
}
