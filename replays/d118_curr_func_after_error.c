/* Observed on the UNMODIFIED tree: most error paths of MIR_finish_func reset the current function
   before calling the error function, but the overflow-branch checks (MIR_invalid_insn_error) and
   the "expected reg" check of ADDR (MIR_op_mode_error) do not.  With an error function that
   longjmps (the only way to continue: it is noreturn) the next, well-formed function of the same
   context is then rejected with MIR_nested_func_error. */
#include <stdio.h>
#include <stdarg.h>
#include <setjmp.h>
#include "mir.h"

static jmp_buf env;
static void MIR_NO_RETURN on_error (MIR_error_type_t t, const char *fmt, ...) {
  va_list ap;
  va_start (ap, fmt);
  printf ("error callback %d: ", (int) t);
  vprintf (fmt, ap);
  printf ("\n");
  va_end (ap);
  longjmp (env, 1);
}

static int bad_then_good (int kind) {
  MIR_context_t ctx = MIR_init ();
  MIR_type_t i64 = MIR_T_I64;
  MIR_item_t f;
  MIR_insn_t l;
  volatile int stage = 0;

  MIR_set_error_func (ctx, on_error);
  MIR_new_module (ctx, "m");
  if (setjmp (env) == 0) {
    f = MIR_new_func (ctx, "bad", 1, &i64, 0);
    if (kind == 0) { /* ill-formed: ret count mismatch -> current function is reset */
      MIR_append_insn (ctx, f, MIR_new_ret_insn (ctx, 0));
    } else { /* ill-formed: bo without overflow insn -> current function stays */
      l = MIR_new_label (ctx);
      MIR_append_insn (ctx, f, MIR_new_insn (ctx, MIR_BO, MIR_new_label_op (ctx, l)));
      MIR_append_insn (ctx, f, l);
      MIR_append_insn (ctx, f, MIR_new_ret_insn (ctx, 1, MIR_new_int_op (ctx, 0)));
    }
    MIR_finish_func (ctx);
    printf ("bad function accepted?!\n");
    return 1;
  }
  stage = 1;
  if (setjmp (env) == 0) {
    f = MIR_new_func (ctx, "good", 1, &i64, 0);
    MIR_append_insn (ctx, f, MIR_new_ret_insn (ctx, 1, MIR_new_int_op (ctx, 0)));
    MIR_finish_func (ctx);
    printf ("kind %d: following well-formed function accepted\n", kind);
    return 0;
  }
  printf ("kind %d: following well-formed function REJECTED\n", kind);
  return 1;
}

int main (void) {
  int r = bad_then_good (0);
  r |= bad_then_good (1);
  return r;
}
