/* differential harness: f(i64 p, i64 n) -> i64 ; p points to 64 i64 words */
#include <stdio.h>
#include <stdlib.h>
#include <string.h>
#include "mir.h"
#include "mir-gen.h"
static char *read_file (const char *n) { FILE *f = fopen (n, "rb"); if (!f) { perror (n); exit (2);} char *b = malloc (1 << 20); size_t l = fread (b, 1, (1 << 20) - 1, f); b[l] = 0; fclose (f); return b; }
static int64_t buf[64];
static void init_buf (void) { for (int i = 0; i < 64; i++) buf[i] = 0x0101010101010101LL * i; }
static int64_t run (const char *src, int level, int64_t n, int64_t *mem) {
  MIR_context_t ctx = MIR_init ();
  MIR_scan_string (ctx, src);
  MIR_module_t m = DLIST_HEAD (MIR_module_t, *MIR_get_module_list (ctx));
  MIR_item_t f = NULL;
  for (MIR_item_t it = DLIST_HEAD (MIR_item_t, m->items); it; it = DLIST_NEXT (MIR_item_t, it))
    if (it->item_type == MIR_func_item && strcmp (it->u.func->name, "f") == 0) f = it;
  MIR_load_module (ctx, m);
  MIR_load_external (ctx, "printf", printf);
  int64_t res;
  init_buf ();
  if (level < 0) {
    MIR_val_t v;
    MIR_link (ctx, MIR_set_interp_interface, NULL);
    MIR_interp (ctx, f, &v, 2, (MIR_val_t){.i = (int64_t) buf}, (MIR_val_t){.i = n});
    res = v.i;
  } else {
    MIR_gen_init (ctx);
    MIR_gen_set_optimize_level (ctx, level);
    if (getenv ("GEN_DEBUG")) { MIR_gen_set_debug_file (ctx, stderr); MIR_gen_set_debug_level (ctx, atoi (getenv ("GEN_DEBUG"))); }
    MIR_link (ctx, MIR_set_gen_interface, NULL);
    int64_t (*fn) (int64_t, int64_t) = MIR_gen (ctx, f);
    res = fn ((int64_t) buf, n);
    MIR_gen_finish (ctx);
  }
  memcpy (mem, buf, sizeof (buf));
  MIR_finish (ctx);
  return res;
}
int main (int argc, char **argv) {
  char *src = read_file (argv[1]);
  int bad = 0;
  for (int a = 2; a < argc || a == 2; a++) {
    int64_t n = a < argc ? strtoll (argv[a], NULL, 0) : 5;
    int64_t m0[64], m1[64];
    int64_t r0 = run (src, -1, n, m0);
    printf ("n=%lld interp: %lld\n", (long long) n, (long long) r0);
    for (int l = 0; l <= 3; l++) {
      if (getenv ("ONLY") && atoi (getenv ("ONLY")) != l) continue;
      int64_t r = run (src, l, n, m1);
      int ok = r == r0 && memcmp (m0, m1, sizeof (m0)) == 0;
      printf ("n=%lld -O%d: %lld %s\n", (long long) n, l, (long long) r, ok ? "ok" : "MISMATCH");
      if (!ok) { bad = 1; for (int i = 0; i < 64; i++) if (m0[i] != m1[i]) printf ("  mem[%d]: interp %llx gen %llx\n", i, (long long) m0[i], (long long) m1[i]); }
    }
  }
  return bad;
}
