#!/bin/sh
# usage: run.sh <repo root>   (built in <repo root>/_build, UNMODIFIED sources)
# Runs f(p, n) of each *.mir in the interpreter and in generated code at -O0..-O3
# and reports every difference of the result / of the 64-word buffer p points to.
ROOT=${1:-/repo}
DIR=$(cd "$(dirname "$0")" && pwd)
OUT=$(mktemp -d)
trap 'rm -rf "$OUT"' EXIT
cc -O1 -w -I"$ROOT" "$DIR/diff.c" "$ROOT/_build/libmir_static.a" -lm -lpthread \
  -o "$OUT/diff" 2>/dev/null || exit 2
rc=0
echo "== swap.mir (n = 1 2 3 4)"
timeout 60 "$OUT/diff" "$DIR/swap.mir" 1 2 3 4 | grep -v " ok$" || true
timeout 60 "$OUT/diff" "$DIR/swap.mir" 1 2 3 4 >/dev/null || rc=1
echo "== brcmp.mir (n = 0 1 5)"
timeout 60 "$OUT/diff" "$DIR/brcmp.mir" 0 1 5 | grep -v " ok$" || true
timeout 60 "$OUT/diff" "$DIR/brcmp.mir" 0 1 5 >/dev/null || rc=1
exit $rc
