#include <stdio.h>
#include "mir.h"
#include "mir2c/mir2c.h"
int main (void) {
  MIR_context_t ctx = MIR_init ();
  MIR_scan_string (ctx, "m: module\nf: func ld\n local ld:r\n ldadd r, r, 1.5L\n ret r\n endfunc\nendmodule\n");
  MIR_module2c (ctx, stdout, DLIST_HEAD (MIR_module_t, *MIR_get_module_list (ctx)));
  return 0;
}
