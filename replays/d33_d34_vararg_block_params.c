/* D33: interpreter shim, va_block_arg_builtin: a named BLK+3/BLK+4 (one integer and one SSE eightbyte) parameter advanced
        fp_offset by 8 instead of 16, and a BLK+2 parameter was taken from the xmm save area without checking that enough
        registers are left -> the following double parameter is read from the wrong slot.
   D34: generated code, VA_START counted every named block parameter as stack-passed: after a BLK+1 parameter passed in rdi/rsi
        the first va_arg (i64) returned the struct's first word. */
#include <stdio.h>
#include <string.h>
#include "mir.h"
#include "mir-gen.h"
struct id { long i; double d; };
struct dd { double a, b; };
struct ll { long a, b; };
static const char *src = "m: module\n\
export f1, f2, f3\n\
f1: func d, blk3:16(s), d:x\n\
  ret x\n\
  endfunc\n\
f2: func d, d:a1, d:a2, d:a3, d:a4, d:a5, d:a6, d:a7, blk2:16(s), d:x\n\
  local d:r\n\
  dmov r, d:8(s)\n\
  dadd r, r, x\n\
  ret r\n\
  endfunc\n\
f3: func i64, blk1:16(s), ...\n\
  local i64:va, i64:r, i64:p\n\
  alloca va, 32\n\
  va_start va\n\
  va_arg p, va, i64:0\n\
  mov r, i64:(p)\n\
  va_end va\n\
  ret r\n\
  endfunc\n\
  endmodule\n";
int main (void) {
  int bad = 0;
  for (int gen = 0; gen <= 1; gen++) {
    MIR_context_t ctx = MIR_init ();
    MIR_scan_string (ctx, src);
    MIR_module_t m = DLIST_TAIL (MIR_module_t, *MIR_get_module_list (ctx));
    MIR_load_module (ctx, m);
    if (gen) { MIR_gen_init (ctx); MIR_gen_set_optimize_level (ctx, 1); MIR_link (ctx, MIR_set_gen_interface, NULL); }
    else MIR_link (ctx, MIR_set_interp_interface, NULL);
    void *fs[3]; int k = 0;
    for (MIR_item_t it = DLIST_HEAD (MIR_item_t, m->items); it != NULL; it = DLIST_NEXT (MIR_item_t, it))
      if (it->item_type == MIR_func_item) fs[k++] = it->addr;
    struct id s1 = {5, 2.5}; struct dd s2 = {1.25, 2.25}; struct ll s3 = {11, 22};
    double r1 = ((double (*) (struct id, double)) fs[0]) (s1, 7.25);
    double r2 = ((double (*) (double, double, double, double, double, double, double, struct dd, double)) fs[1]) (1, 2, 3, 4, 5, 6, 7, s2, 100.0);
    long r3 = ((long (*) (struct ll, ...)) fs[2]) (s3, 33L);
    printf ("%s: f1 = %g (7.25)%s  f2 = %g (102.25)%s  f3 = %ld (33)%s\n", gen ? "gen   " : "interp", r1, r1 != 7.25 ? " WRONG" : "",
            r2, r2 != 102.25 ? " WRONG" : "", r3, r3 != 33 ? " WRONG" : "");
    bad += (r1 != 7.25) + (r2 != 102.25) + (r3 != 33);
    if (gen) MIR_gen_finish (ctx);
    MIR_finish (ctx);
  }
  printf (bad ? "WRONG: %d\n" : "ok\n", bad);
  return bad != 0;
}
