"""RF7 dispatch exhaustiveness and sibling case-set agreement: 7a interpreter, 7b call family, 7g label positions,
7h opcode coverage (mir2c, x86 patterns)."""
from lib import facts as F
from lib import enumflow as EF
from lib import regions as R
import rf_tables, rf_flow


def const_values(tu, f, e, ef=None, st=None, alias=None):
    """set of enum values an expression can take: constants, ?: of constants, calls returning constants, tracked variables"""
    e = F.strip(e)
    v = F.const_value(e)
    if v is not None and e['k'] != 'DeclRefExpr' or (e['k'] == 'DeclRefExpr' and e.get('dk') == 'enumc'):
        return {e.get('v', v)}
    if e['k'] == 'ConditionalOperator':
        a = const_values(tu, f, e['c'][1], ef, st, alias)
        b = const_values(tu, f, e['c'][2], ef, st, alias)
        return None if a is None or b is None else a | b
    if e['k'] == 'CallExpr' and e.get('callee') in tu.funcs:
        g = tu.funcs[e['callee']]
        out = set()
        for r in g.walk():
            if r['k'] == 'ReturnStmt' and F.kids(r):
                vs = const_values(tu, g, F.kids(r)[0])
                if vs is None:
                    return None
                out |= vs
        return out or None
    if e['k'] == 'DeclRefExpr' and ef is not None:
        S = ef.lookup(st, alias, e['n'])
        return set(S) if S is not None else 'TOP'
    return None


def rf7a(run):
    rule = 'RF7a'
    run.rule(rule, 'interpreter: every internal code generate_icode can emit has an entry in dispatch_label_tab, every entry points at the '
                   'label of the same code, every label has an entry; the operand count of each public opcode\'s handler equals its arity '
                   'in insn_descs')
    tu = run.tu('mir')
    full = tu.enum('MIR_full_insn_code_t') if 'MIR_full_insn_code_t' in tu.enums or 'MIR_full_insn_code_t' in tu.enum_typedefs else None
    if full is None:
        full = tu.enum_by_member('IC_LDI8')[1]
    pub = tu.enum('MIR_insn_code_t')
    name_of, names_of = {}, {}
    for n, v in list(pub) + list(full):
        name_of.setdefault(v, n)
        names_of.setdefault(v, set()).add(n)
    ev = tu.func('eval')
    run.functions_analysed.add(('mir', 'eval'))
    # table entries: ltab[i] = &&L_x
    table = {}
    for n in ev.walk():
        if n['k'] == 'BinaryOperator' and n['op'] == '=':
            l, r = F.strip(n['c'][0]), F.strip(n['c'][1])
            if l['k'] == 'ArraySubscriptExpr' and r['k'] == 'AddrLabelExpr':
                iv = F.const_value(F.strip(l['c'][1]))
                if iv is not None:
                    table[iv] = (r['n'], n['l'])
    labels = R.label_regions(ev, 'L_')
    if len(table) < 150 or len(labels) < 150:
        raise F.AnalysisBroken('interpreter dispatch table/labels not recognised (%d entries, %d labels)' % (len(table), len(labels)))
    for iv, (lab, line) in sorted(table.items()):
        ok = lab[2:] in names_of.get(iv, ()) and lab in labels
        run.ob(rule, ('entry', iv), ok, {'index': name_of.get(iv), 'label': lab})
        if not ok:
            run.violation(rule, ev, 'dispatch entry %s' % name_of.get(iv, iv), 'dispatch_label_tab[%s] points at %s%s' %
                          (name_of.get(iv, iv), lab, '' if lab in labels else ' (undefined label)'), line=line)
    tabbed = {lab for lab, _ in table.values()}
    for lab in sorted(labels):
        if not lab[2:].startswith(('MIR_', 'IC_')):
            continue
        ok = lab in tabbed
        run.ob(rule, ('label', lab), ok)
        if not ok:
            run.violation(rule, ev, 'label %s' % lab, 'handler %s has no entry in dispatch_label_tab: the code would dispatch through an '
                          'uninitialised slot' % lab, line=labels[lab][0]['l'])
    # emitted codes
    gi = tu.func('generate_icode')
    run.functions_analysed.add(('mir', 'generate_icode'))
    preds = EF.Predicates(tu)
    ef = EF.EnumFlow(tu, gi, preds)
    emitted = {}
    pubvals = {v for n, v in pub if v < dict(pub)['MIR_INSN_BOUND']}
    for bid in ef.cfg.blocks:
        for e, st, alias in ef.states_at_elems(bid):
            if e['k'] == 'CallExpr' and e.get('callee') == 'push_insn_start':
                vs = const_values(tu, gi, F.call_args(e)[1], ef, st, alias)
                if vs is None:
                    run.analysis_broken(rule, 'generate_icode: code argument %s of push_insn_start not evaluable (line %d)' % (F.src(F.call_args(e)[1])[:60], e['l']))
                    continue
                if vs == 'TOP':
                    vs = pubvals
                for v in vs:
                    emitted.setdefault(v, e['l'])
    if len(emitted) < 150:
        run.analysis_broken(rule, 'only %d emitted codes recognised in generate_icode' % len(emitted))
    for v, line in sorted(emitted.items()):
        exc = run.exception(rule, name_of.get(v, ''))
        ok = v in table or bool(exc)
        run.ob(rule, ('emitted', v), ok, {'code': name_of.get(v), 'emitted at line': line, 'has dispatch entry': ok})
        if not ok:
            run.violation(rule, gi, 'emitted code %s' % name_of.get(v, v), 'generate_icode can emit %s but eval has no dispatch entry / '
                          'handler for it' % name_of.get(v, v), line=line)
    # handler operand counts vs insn_descs arity
    g, rows = rf_tables.read_insn_descs(tu)
    arity = {r['code']: len(r['modes']) for r in rows}
    for lab, stmts in labels.items():
        code = lab[2:]
        if code not in arity or arity[code] == 0:
            continue
        nops = None
        for x in F.walk(stmts[0]):
            if x['k'] == 'CompoundAssignOperator' and x['op'] == '+=' and F.src(F.strip(x['c'][0])) == 'pc':
                v = F.const_value(F.strip(x['c'][1]))
                if v is not None:
                    nops = v - 1
        if nops is None or any(x['k'] == 'ReturnStmt' for st in stmts[1:] for x in F.walk(st)):
            continue  # a handler that returns never resumes at pc: its operand count is irrelevant
        ok = nops == arity[code]
        run.ob(rule, ('nops', code), ok, {'opcode': code, 'handler consumes': nops, 'insn_descs arity': arity[code]})
        if not ok:
            run.violation(rule, ev, 'operand count of %s' % code, 'the handler of %s advances over %d operands but the opcode has %d'
                          % (code, nops, arity[code]), line=stmts[0]['l'])


# ---------------------------------------------------------------------------------------------

FAMILIES = {
    'call': 'MIR_call_code_p',
}


def rf7b(run, units=('mir',)):
    rule = 'RF7b'
    run.rule(rule, 'every switch on the opcode that names one member of the call family (CALL, INLINE, JCALL = MIR_call_code_p) names all of '
                   'them, or treats the others in a default/equivalent way recorded as an exception')
    n = 0
    for u in units:
        tu = run.tu(u)
        preds = EF.Predicates(tu)
        uni = frozenset(v for nm, v in tu.enum('MIR_insn_code_t'))
        fam = preds.true_set('MIR_call_code_p', uni)
        if not fam or len(fam) < 3:
            raise F.AnalysisBroken('MIR_call_code_p not evaluable')
        names = {}
        for nm, v in tu.enum('MIR_insn_code_t'):
            names.setdefault(v, nm)
        for f in tu.func_list:
            for sw in [x for x in f.walk() if x['k'] == 'SwitchStmt']:
                c = F.strip(sw['c'][0], explicit=False)
                t = tu.type(c)
                if not ((t is not None and t.enum == 'MIR_insn_code_t') or F.src(c).endswith('code')):
                    continue
                try:
                    regs = R.switch_regions(f, sw)
                except F.AnalysisBroken:
                    continue
                vals = set()
                for r in regs:
                    for (nm, lo, hi) in r['cases']:
                        if lo is not None:
                            vals.update(range(lo, (hi if hi is not None else lo) + 1))
                got = vals & fam
                if not got:
                    continue
                n += 1
                miss = fam - vals
                exc = run.exception(rule, '%s' % f.name)
                ok = not miss or bool(exc)
                run.ob(rule, (u, f.name, sw['l']), ok, {'site': '%s:%d %s' % (f.relfile(), sw['l'], f.name),
                                                        'names': sorted(names[v] for v in got), 'missing': sorted(names[v] for v in miss),
                                                        'verdict': 'complete' if not miss else ('exception: ' + exc if exc else 'INCOMPLETE')})
                if not ok:
                    run.violation(rule, f, 'switch names %s not %s' % (','.join(sorted(names[v] for v in got)), ','.join(sorted(names[v] for v in miss))),
                                  'the switch on the opcode in %s handles %s but not %s; all members of MIR_call_code_p are calls and must '
                                  'be treated alike' % (f.name, ', '.join(sorted(names[v] for v in got)), ', '.join(sorted(names[v] for v in miss))),
                                  line=sw['l'])
    return n


def rf7h_mir2c(run):
    rule = 'RF7h'
    run.rule(rule, 'mir2c: every public opcode has a case in out_insn (an opcode without one is silently dropped under NDEBUG)')
    tu = run.tu('mir2c')
    f = tu.func('out_insn')
    sws = [s for s in R.find_switches(f, lambda c: c.endswith('->code'))]
    if not sws:
        raise F.AnalysisBroken('out_insn switch not found')
    sw = max(sws, key=lambda s: len(R.switch_regions(f, s)))
    have = set()
    for r in R.switch_regions(f, sw):
        for (nm, lo, hi) in r['cases']:
            if nm:
                have.add(nm)
    internal = {'MIR_USE', 'MIR_PHI', 'MIR_INVALID_INSN'}
    for nm, v in rf_tables.insn_codes(tu):
        if nm in internal:
            continue
        ok = nm in have
        exc = run.exception(rule, nm)
        run.ob(rule, ('case', nm), ok or bool(exc), {'opcode': nm, 'case present': ok, 'exception': exc})
        if not ok and not exc:
            run.violation(rule, f, 'no case for %s' % nm, 'out_insn has no case for %s: the instruction is dropped from the generated C '
                          '(assertion failure without NDEBUG)' % nm, line=sw['l'])


# ---------------------------------------------------------------------------------------------
# RF7g label-operand positions
# ---------------------------------------------------------------------------------------------

def label_range_idiom(tu, f):
    """extract {'default': (start, bound), 'MIR_LADDR': (…), 'MIR_SWITCH': (…)} from the
    start_label_nop/bound_label_nop idiom of a function, or None"""
    res = {}
    for n in f.walk():
        if n['k'] == 'DeclStmt':
            d = {x['n']: x for x in n['decls']}
            if 'start_label_nop' in d and 'bound_label_nop' in d and d['start_label_nop'].get('init') and d['bound_label_nop'].get('init'):
                res['default'] = (F.src(F.strip(d['start_label_nop']['init'])), F.src(F.strip(d['bound_label_nop']['init'])))
        if n['k'] == 'IfStmt':
            c = F.strip(n['c'][0])
            if c['k'] == 'BinaryOperator' and c['op'] == '==':
                code = F.strip(c['c'][1])
                if code['k'] == 'DeclRefExpr' and code.get('dk') == 'enumc' and n['c'][1] is not None:
                    st = bd = None
                    for x in F.walk(n['c'][1]):
                        if x['k'] == 'BinaryOperator' and x['op'] == '=':
                            l = F.src(F.strip(x['c'][0]))
                            if l == 'start_label_nop':
                                st = F.src(F.strip(x['c'][1]))
                            elif l == 'bound_label_nop':
                                bd = F.src(F.strip(x['c'][1]))
                    if st is not None and bd is not None:
                        res[code['n']] = (st, bd)
    if 'default' not in res:
        return None
    return res


def rf7g(run):
    rule = 'RF7g'
    run.rule(rule, 'label-operand positions: every function that rewrites label operands (insn duplication, link-time simplification, '
                   'interpreter code generation) uses the same (start, bound) per opcode, those positions are where insn_descs has '
                   'MIR_OP_LABEL, and the set of opcodes collected for label rewiring covers every opcode with a label operand')
    tu = run.tu('mir')
    sites = {}
    for f in tu.func_list:
        if any(n['k'] == 'DeclStmt' and any(d['n'] == 'start_label_nop' for d in n['decls']) for n in f.walk()):
            r = label_range_idiom(tu, f)
            if r is None:
                run.analysis_broken(rule, '%s: label range idiom not recognised' % f.name)
            else:
                sites[f.name] = r
                run.functions_analysed.add(('mir', f.name))
    if len(sites) < 3:
        raise F.AnalysisBroken('label range idiom found in %d functions, 3 expected' % len(sites))
    ref_name = sorted(sites)[0]
    ref = sites[ref_name]
    norm = lambda t: (t[0], t[1].replace('code', 'X').replace('insn->X', 'X'))
    for fn, r in sorted(sites.items()):
        for key in sorted(set(ref) | set(r)):
            a, b = ref.get(key), r.get(key)
            ok = a is not None and b is not None and a == b
            run.ob(rule, ('sibling', fn, key), ok, {'function': fn, 'opcode': key, 'range': b, 'reference (%s)' % ref_name: a})
            if not ok:
                run.violation(rule, tu.funcs[fn], 'label range for %s' % key,
                              '%s rewrites label operands [%s) for %s but %s uses [%s)' % (fn, b, key, ref_name, a), line=tu.funcs[fn].line)
    # table agreement
    g, rows = rf_tables.read_insn_descs(tu)
    for r in rows:
        pos = [i for i, (m, o) in enumerate(r['modes']) if m == 'MIR_OP_LABEL']
        if not pos:
            continue
        exp = ref.get(r['code'], ref['default'])
        try:
            st, bd = int(exp[0]), int(exp[1])
        except ValueError:
            continue
        ok = pos == list(range(st, bd))
        run.ob(rule, ('table', r['code']), ok, {'opcode': r['code'], 'label operands at': pos, 'rewritten range': [st, bd]})
        if not ok:
            run.violation(rule, '<file scope>', 'label position of %s' % r['code'],
                          'insn_descs has the label operand(s) of %s at %s but the rewiring code rewrites operands [%d, %d)'
                          % (r['code'], pos, st, bd), file=g['file'].replace(F.REPO + '/', ''), line=r['line'])
    # collected opcode set covers all label-carrying opcodes
    sf = tu.func('store_labels_for_duplication')
    preds = EF.Predicates(tu)
    codes = dict(tu.enum('MIR_insn_code_t'))
    uni = frozenset(codes.values())
    conds = [n for n in sf.walk() if n['k'] == 'IfStmt']
    if not conds:
        raise F.AnalysisBroken('store_labels_for_duplication: condition not found')
    cond = conds[0]['c'][0]
    collected = set()
    for nm, v in codes.items():
        val = preds.eval(cond, {'insn->code': v}, uni)
        if val is None:
            raise F.AnalysisBroken('store_labels_for_duplication: condition not evaluable')
        if val:
            collected.add(nm)
    need = {r['code'] for r in rows if any(m == 'MIR_OP_LABEL' for m, o in r['modes'])} | {'MIR_SWITCH'}
    for c in sorted(need):
        ok = c in collected
        run.ob(rule, ('collected', c), ok, {'opcode': c, 'collected for label rewiring': ok})
        if not ok:
            run.violation(rule, sf, 'opcode %s not collected' % c, '%s has a label operand but store_labels_for_duplication does not '
                          'collect it: after code generation its label would point into the discarded copy' % c, line=sf.line)


# ---------------------------------------------------------------------------------------------
# RF7e type -> extension opcode maps
# ---------------------------------------------------------------------------------------------
import re as _re


def rf7e(run, units=('mir', 'gen'), expect=3):
    rule = 'RF7e'
    run.rule(rule, 'every switch that maps a narrow integer MIR type to an extension opcode (result extension in make_one_ret, argument '
                   'extension in simplify_func, the target\'s get_ext_code) maps I<n> to EXT<n> and U<n> to UEXT<n>')
    n = 0
    for u in units:
        tu = run.tu(u)
        for f in tu.func_list:
            for sw in [x for x in f.walk() if x['k'] == 'SwitchStmt']:
                try:
                    regs = R.switch_regions(f, sw)
                except F.AnalysisBroken:
                    continue
                m = {}
                for r in regs:
                    exts = [x['n'] for x in R.region_nodes(r['stmts']) if x['k'] == 'DeclRefExpr' and x.get('dk') == 'enumc'
                            and _re.fullmatch(r'MIR_U?EXT(8|16|32)', x['n'])]
                    for (nm, lo, hi) in r['cases']:
                        if nm and nm.startswith('MIR_T_') and exts:
                            m[nm] = exts[0]
                if len(m) < 3:
                    continue
                n += 1
                run.functions_analysed.add((u, f.name))
                for t in ('MIR_T_I8', 'MIR_T_U8', 'MIR_T_I16', 'MIR_T_U16', 'MIR_T_I32', 'MIR_T_U32'):
                    want = 'MIR_%sEXT%s' % ('U' if t[6] == 'U' else '', t[7:])
                    got = m.get(t)
                    ok = got == want
                    run.ob(rule, (u, f.name, sw['l'], t), ok, {'site': '%s:%d %s' % (f.relfile(), sw['l'], f.name), 'type': t, 'maps to': got,
                                                               'specification': want})
                    if not ok:
                        run.violation(rule, f, 'extension of %s' % t, '%s extends a value of type %s with %s; the type\'s width and signedness '
                                      'demand %s' % (f.name, t, got or 'nothing', want), line=sw['l'])
    if n < expect:
        run.analysis_broken(rule, 'only %d type->extension maps found (%d expected: make_one_ret, simplify_func, get_ext_code, …)' % (n, expect))
    return n


# ---------------------------------------------------------------------------------------------
# RF7f type -> C narrowing maps
# ---------------------------------------------------------------------------------------------

def rf7f(run, units=('mir',), expect=4):
    rule = 'RF7f'
    run.rule(rule, 'every switch that narrows or widens a value according to an integer MIR type (FFI argument narrowing and result '
                   'widening in the interpreter, C-argument decoding, expr-data stores) casts through the C type of that width, and of '
                   'that signedness whenever the destination is wider than the cast')
    n = 0
    for u in units:
        tu = run.tu(u)
        for f in tu.func_list:
            for sw in [x for x in f.walk() if x['k'] == 'SwitchStmt']:
                c = F.strip(sw['c'][0], explicit=False)
                try:
                    regs = R.switch_regions(f, sw)
                except F.AnalysisBroken:
                    continue
                entries = []
                for r in regs:
                    tnames = [nm for (nm, lo, hi) in r['cases'] if nm and _re.fullmatch(r'MIR_T_[IU](8|16|32|64)', nm)]
                    if not tnames:
                        continue
                    asg = [x for x in R.region_nodes(r['stmts']) if x['k'] == 'BinaryOperator' and x['op'] == '=']
                    if not asg:
                        continue
                    rhs = asg[0]['c'][1]
                    cast = None
                    x = rhs
                    while x is not None and x['k'] in F.CASTS:
                        if x['k'] == 'CStyleCastExpr':
                            cast = tu.type(x)
                            break
                        x = x['c'][0]
                    if cast is None or cast.kind != 'int':
                        continue
                    dst = tu.type(F.strip(asg[0]['c'][0]))
                    entries.append((tnames, cast, dst, asg[0]))
                if len(entries) < 4:
                    continue
                n += 1
                run.functions_analysed.add((u, f.name))
                for tnames, cast, dst, node in entries:
                    for t in tnames:
                        w = int(t[7:])
                        signed = t[6] == 'I'
                        okw = cast.w == w
                        need_sign = dst is not None and dst.w is not None and dst.w > cast.w
                        oks = (not need_sign) or bool(cast.signed) == signed
                        ok = okw and oks
                        run.ob(rule, (u, f.name, sw['l'], t), ok, {'site': '%s:%d %s' % (f.relfile(), node['l'], f.name), 'type': t,
                                                                   'cast': cast.s, 'destination': dst.s if dst else '?',
                                                                   'signedness matters': need_sign})
                        if not ok:
                            run.violation(rule, f, 'conversion for %s' % t,
                                          '%s converts a %s value through (%s) into a %s: %s' %
                                          (f.name, t, cast.s, dst.s if dst else '?',
                                           'the width differs' if not okw else 'the value is %s-extended but the type is %s'
                                           % ('sign' if cast.signed else 'zero', 'signed' if signed else 'unsigned')), line=node['l'])
    if n < expect:
        run.analysis_broken(rule, 'only %d type->C conversion switches found, %d expected' % (n, expect))
    return n
