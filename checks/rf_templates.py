"""RF11 machine-code template discipline (mir-x86_64.c): the constant byte templates of the call wrapper, the basic-block
wrapper, the FFI trampoline prologue/epilogue and the thunks are decoded with objdump (nothing is executed) and checked for
stack balance, save/restore symmetry and ABI coverage."""
import os, re, subprocess, tempfile, sys
from lib import facts as F
sys.path.insert(0, os.path.join(F.VERIF, 'spec'))
import sysv as ABI


def template_bytes(g):
    vals = [F.const_value(c) for c in F.kids(g['init'])]
    if any(v is None for v in vals):
        raise F.AnalysisBroken('template %s has non-constant bytes' % g['name'])
    return bytes(v & 0xff for v in vals)


def disas(bs, scratch):
    fn = os.path.join(scratch, 'tpl.bin')
    with open(fn, 'wb') as f:
        f.write(bs)
    try:
        out = subprocess.check_output(['objdump', '-D', '-b', 'binary', '-mi386:x86-64', fn], text=True, stderr=subprocess.DEVNULL)
    except Exception as ex:
        raise F.AnalysisBroken('objdump not usable: %s' % type(ex).__name__)
    ins = []
    for l in out.splitlines():
        m = re.match(r'\s*([0-9a-f]+):\t([0-9a-f ]+)\t(.+)$', l)
        if m:
            ins.append((int(m.group(1), 16), m.group(3).strip()))
    return ins


def norm(i):
    return re.sub(r'\s+', ' ', i)


class StackSim:
    """push/pop/spill model of a straight-line template"""

    def __init__(self):
        self.stack = []       # pushed registers
        self.spills = {}      # offset -> xmm register, for the current rsp-relative area
        self.restored = {}
        self.marks = {}       # register -> stack depth when it received rsp
        self.errors = []
        self.saved_int, self.saved_sse = set(), set()

    def run(self, ins):
        for off, i in ins:
            i = norm(i)
            m = re.fullmatch(r'push %(\w+)', i)
            if m:
                self.stack.append(m.group(1))
                self.saved_int.add(m.group(1))
                continue
            m = re.fullmatch(r'pop %(\w+)', i)
            if m:
                if not self.stack:
                    self.errors.append('pop %%%s with no matching push' % m.group(1))
                else:
                    top = self.stack.pop()
                    if top != m.group(1):
                        self.errors.append('pop %%%s restores the slot pushed from %%%s' % (m.group(1), top))
                continue
            m = re.fullmatch(r'(?:movdqu|movdqa|movups|movaps) %(xmm\d+),(0x[0-9a-f]+)?\(%rsp\)', i)
            if m:
                self.spills[int(m.group(2) or '0', 16)] = m.group(1)
                self.saved_sse.add(m.group(1))
                continue
            m = re.fullmatch(r'(?:movdqu|movdqa|movups|movaps) (0x[0-9a-f]+)?\(%rsp\),%(xmm\d+)', i)
            if m:
                o = int(m.group(1) or '0', 16)
                if self.spills.get(o) != m.group(2):
                    self.errors.append('%%%s is reloaded from offset %#x where %s was saved' % (m.group(2), o, self.spills.get(o, 'nothing')))
                self.restored[o] = m.group(2)
                continue
            m = re.fullmatch(r'mov %rsp,%(\w+)', i)
            if m:
                self.marks[m.group(1)] = len(self.stack)
                continue
            m = re.fullmatch(r'mov %(\w+),%(\w+)', i)
            if m and m.group(1) in self.marks and m.group(2) != 'rsp':
                self.marks[m.group(2)] = self.marks[m.group(1)]
                continue
            m = re.fullmatch(r'mov %(\w+),%rsp', i)
            if m:
                d = self.marks.get(m.group(1))
                if d is None:
                    self.errors.append('rsp restored from %%%s which does not hold a saved rsp' % m.group(1))
                elif len(self.stack) != d:
                    self.errors.append('rsp restored from %%%s with %d pushes still outstanding' % (m.group(1), len(self.stack) - d))
                continue
        return self


def rf11(run):
    rule = 'RF11'
    run.rule(rule, 'x86-64 glue templates: every template decodes completely; in the call wrapper and the basic-block wrapper every push '
                   'has its pop in reverse order and every xmm spill its reload from the same slot, all integer and SSE argument '
                   'registers survive the hook call; save_pat/restore_pat and the FFI prologue/epilogue are inverse sequences; the two '
                   'thunk patterns have the same size')
    tu = run.tu('mir')
    gl = {}
    for g in tu.globals:
        t = tu.type(g['t'])
        if t.kind == 'array' and 'uint8_t' in t.s and g.get('init') is not None and g['file'].endswith('mir-x86_64.c'):
            gl[(g.get('func'), g['name'])] = g
    if len(gl) < 25:
        raise F.AnalysisBroken('only %d byte templates found in mir-x86_64.c' % len(gl))
    dec = {}
    for key, g in sorted(gl.items(), key=str):
        if g['name'] == 'iregs':
            continue
        ins = disas(template_bytes(g), run.scratch)
        dec[key] = ins
        bad = [i for o, i in ins if '(bad)' in i]
        run.ob(rule, ('decodes', key), not bad, {'template': '%s in %s' % (key[1], key[0] or 'file scope'), 'instructions': len(ins),
                                                'text': ' | '.join(norm(i) for o, i in ins)[:160]})
        if bad:
            run.violation(rule, key[0] or '<file scope>', 'template %s' % key[1], 'template %s does not decode as x86-64 code' % key[1],
                          file='mir-x86_64.c', line=g['line'])

    def seq(*keys):
        out = []
        for k in keys:
            if k not in dec:
                raise F.AnalysisBroken('template %s not found' % (k,))
            out += dec[k]
        return out
    arg_int = {'rdi', 'rsi', 'rdx', 'rcx', 'r8', 'r9'}
    arg_sse = {'xmm%d' % i for i in range(ABI.NX)}
    comps = {
        'call wrapper (start_pat + wrap_end)': seq(('_MIR_get_wrapper', 'start_pat'), ('_MIR_get_wrapper_end', 'wrap_end')),
        'basic-block wrapper (save_pat2 + call_pat + restore_pat2)': seq((None, 'save_pat2'), ('_MIR_get_bb_wrapper', 'call_pat'), (None, 'restore_pat2')),
        'save_pat + restore_pat': seq((None, 'save_pat'), (None, 'restore_pat')),
        'FFI trampoline prologue + epilogue': seq(('_MIR_get_ff_call', 'prolog'), ('_MIR_get_ff_call', 'epilog')),
    }
    for name, ins in comps.items():
        sim = StackSim().run(ins)
        ok = not sim.errors and not sim.stack
        run.ob(rule, ('balance', name), ok, {'composition': name, 'pushes': sorted(sim.saved_int), 'xmm spills': len(sim.spills),
                                            'problems': sim.errors + (['left on the stack: %s' % sim.stack] if sim.stack else [])})
        if not ok:
            run.violation(rule, '<file scope>', 'stack discipline of %s' % name,
                          '%s: %s' % (name, '; '.join(sim.errors + (['registers left on the stack at the end: %s' % sim.stack] if sim.stack else []))),
                          file='mir-x86_64.c', line=1)
        if 'wrapper' in name or name.startswith('save_pat'):
            miss = (arg_int - sim.saved_int) | (arg_sse - sim.saved_sse)
            unrest = {r for o, r in sim.spills.items() if sim.restored.get(o) != r}
            ok = not miss and not unrest
            run.ob(rule, ('abi-coverage', name), ok, {'composition': name, 'argument registers not saved': sorted(miss),
                                                     'spilled but not reloaded': sorted(unrest)})
            if not ok:
                run.violation(rule, '<file scope>', 'argument registers in %s' % name,
                              '%s does not preserve %s across the call of the hook: the wrapped function would receive clobbered '
                              'arguments' % (name, sorted(miss | unrest)), file='mir-x86_64.c', line=1)
    # the FFI trampoline keeps its two callee-saved work registers
    pro = [norm(i) for o, i in dec[('_MIR_get_ff_call', 'prolog')]]
    used = {'rbx', 'r12'}
    ok = all(('push %%%s' % r) in pro for r in used)
    run.ob(rule, ('ff-callee-saved',), ok, {'prologue': pro})
    if not ok:
        run.violation(rule, '_MIR_get_ff_call', 'callee-saved work registers', 'the FFI trampoline uses rbx and r12 but its prologue is %s' % pro,
                      file='mir-x86_64.c', line=gl[('_MIR_get_ff_call', 'prolog')]['line'])
    # thunk patterns are interchangeable in place
    a, b = len(template_bytes(gl[(None, 'short_jmp_pattern')])), len(template_bytes(gl[(None, 'long_jmp_pattern')]))
    ok = a == b
    run.ob(rule, ('thunk-size',), ok, {'short_jmp_pattern': a, 'long_jmp_pattern': b})
    if not ok:
        run.violation(rule, '<file scope>', 'thunk pattern sizes', 'short_jmp_pattern has %d bytes and long_jmp_pattern %d: retargeting a thunk '
                      'would overwrite its neighbour (the size assertion is compiled out)' % (a, b), file='mir-x86_64.c', line=gl[(None, 'short_jmp_pattern')]['line'])
    # every thunk redirection goes through the code-write protocol
    for fn in ('_MIR_redirect_thunk', '_MIR_replace_bb_thunk'):
        f = tu.funcs.get(fn)
        if f is None:
            continue
        ok = any(x['k'] == 'CallExpr' and x.get('callee') in ('_MIR_change_code', '_MIR_update_code', '_MIR_update_code_arr') for x in f.walk())
        run.ob(rule, ('redirect-protocol', fn), ok)
        if not ok:
            run.violation(rule, f, 'thunk redirection', '%s does not patch the thunk through _MIR_change_code/_MIR_update_code' % fn, line=f.line)


# ---------------------------------------------------------------------------------------------
# RF74: a bottom-tested copy loop template is emitted only for a positive count
# ---------------------------------------------------------------------------------------------

def rf74(run):
    rule = 'RF74'
    run.rule(rule, 'mir-x86_64.c: a byte template whose decoded form is a counted loop that decrements the counter and copies before it '
                   'tests it (do-while) copies at least one element; the function that emits it returns without emitting for a zero '
                   'count, or every caller passes a count proven non-zero (a zero-size block argument must copy nothing)')
    tu = run.tu('mir')
    n = 0
    for g in tu.globals:
        t = tu.type(g['t'])
        if not (t.kind == 'array' and 'uint8_t' in t.s and g.get('init') is not None and g['file'].endswith('mir-x86_64.c') and g.get('func')):
            continue
        if g['name'] == 'iregs':
            continue
        ins = disas(template_bytes(g), run.scratch)
        txt = [norm(i) for o, i in ins]
        offs = [o for o, i in ins]
        # a backward conditional jump whose target lies behind the load of the counter: sub/dec, then a store, then test, then jg/jne back
        loop = None
        for k, i in enumerate(txt):
            m = re.match(r'j(g|ne|nz|a|ge)\s+0x([0-9a-f]+)', i)
            if m and int(m.group(2), 16) <= offs[k]:
                tgt = int(m.group(2), 16)
                body = [(o, t_) for o, t_ in zip(offs, txt) if tgt <= o < offs[k]]
                dec = [j for j, (o, t_) in enumerate(body) if re.match(r'(sub \$0x1,|dec )', t_)]
                store = [j for j, (o, t_) in enumerate(body) if re.match(r'mov\w* %\w+,.*\(', t_)]
                if dec and store and dec[0] < store[0]:
                    loop = (tgt, offs[k])
        if loop is None:
            continue
        f = tu.func(g['func'])
        run.functions_analysed.add(('mir', f.name))
        # which parameter is the count: the one memcpy'd into the `mov $imm, %reg` in front of the loop
        cnt = None
        for x in f.walk():
            if x['k'] == 'CallExpr' and x.get('callee') == 'memcpy':
                a = F.call_args(x)
                dst = F.strip(a[0])
                src = F.strip(a[1])
                if src['k'] == 'UnaryOperator' and src['op'] == '&' and dst['k'] == 'BinaryOperator' and dst['op'] == '+':
                    off = F.const_value(F.strip(dst['c'][1]))
                    if off is not None and off < loop[0]:
                        # the immediate of the instruction containing this offset
                        for o, t_ in zip(offs, txt):
                            if o <= off < o + 8 and re.match(r'mov \$0x0,%r', t_):
                                cnt = F.src(F.strip(src['c'][0]))
        if cnt is None:
            raise F.AnalysisBroken('%s: count operand of the loop template %s not identified' % (f.name, g['name']))
        guard = None
        for x in f.walk():
            if x['k'] == 'IfStmt' and any(y['k'] == 'ReturnStmt' for y in F.walk(x['c'][1])):
                c = F.src(F.strip(x['c'][0])).replace(' ', '').strip('()')
                if c in ('%s==0' % cnt, '!%s' % cnt, '%s<1' % cnt, '%s<=0' % cnt):
                    pushes = [y for y in f.walk() if y['k'] == 'CallExpr' and y.get('callee') == 'push_insns']
                    if pushes and x['l'] < pushes[0]['l']:
                        guard = x
        n += 1
        ok = guard is not None
        why = 'early return at line %d' % guard['l'] if guard is not None else None
        if not ok:
            # all callers proven non-zero?
            from rf_proto import dominating_conditions
            sites, proven = 0, 0
            pi = [i for i, p_ in enumerate(f.params) if p_['n'] == cnt]
            for h in tu.func_list:
                for y in h.walk():
                    if y['k'] == 'CallExpr' and y.get('callee') == f.name and pi:
                        sites += 1
                        a = F.src(F.strip(F.call_args(y)[pi[0]])).replace(' ', '')
                        conds = [c_.replace(' ', '').strip('()') for c_, t_ in dominating_conditions(h.cfg, h.cfg.block_of(y)) if t_]
                        if any(c_ in ('%s!=0' % a, '%s>0' % a, '%s>=1' % a) for c_ in conds):
                            proven += 1
            ok = sites > 0 and proven == sites
            why = 'all %d callers test the count' % sites if ok else None
        run.ob(rule, (f.name, g['name']), ok, {'template': '%s in %s' % (g['name'], f.name), 'loop': '0x%x..0x%x' % loop, 'count': cnt, 'proof': why})
        if not ok:
            run.violation(rule, f, 'loop template %s with a zero count' % g['name'], '%s emits the copy loop %s, which decrements %s and copies one '
                          'element before testing it, without excluding %s == 0: for a zero-size block the trampoline copies one qword over '
                          'the neighbouring outgoing stack slot' % (f.name, g['name'], cnt, cnt), line=f.line)
    if n == 0:
        raise F.AnalysisBroken('no bottom-tested copy loop template found in mir-x86_64.c')
    return n


# ---------------------------------------------------------------------------------------------
# RF11a: the lazy-generation wrapper aligns the stack whatever way it was entered
# ---------------------------------------------------------------------------------------------

def rf11a(run):
    rule = 'RF11a'
    run.rule(rule, 'x86-64 call wrapper (wrap_end, decoded with objdump): the first call of a function under the lazy interfaces reaches the '
                   'wrapper through a `call` (rsp = 8 mod 16) or through a jump (MIR_JCALL, rsp = 0 mod 16), so the stack pointer is '
                   'aligned *dynamically* before the hook is called: rsp (or a copy) is masked with 0xf / ~0xf and rsp adjusted by the '
                   'result; a constant adjustment is right for one of the two entries only (the hook uses movaps on its frame)')
    tu = run.tu('mir')
    g = None
    for x in tu.globals:
        if x['name'] == 'wrap_end' and x.get('func') == '_MIR_get_wrapper_end' and x['file'].endswith('mir-x86_64.c'):
            g = x
    if g is None:
        raise F.AnalysisBroken('template wrap_end of _MIR_get_wrapper_end not found')
    ins = [norm(i) for o, i in disas(template_bytes(g), run.scratch)]
    calls = [k for k, i in enumerate(ins) if re.match(r'call', i)]
    if not calls:
        raise F.AnalysisBroken('wrap_end: no call of the hook found')
    pre = ins[:calls[0]]
    direct = any(re.fullmatch(r'and \$0xfffffffffffffff0,%rsp', i) for i in pre)
    masked = None
    for k, i in enumerate(pre):
        m = re.fullmatch(r'and \$0xf,%(\w+)', i)
        if m:
            r_ = m.group(1)
            # the masked value comes from rsp and is subtracted from rsp afterwards
            from_sp = any(re.fullmatch(r'mov %rsp,%' + r_, j) for j in pre[:k])
            applied = any(re.fullmatch(r'sub %' + r_ + r',%rsp', j) for j in pre[k + 1:])
            if from_sp and applied:
                masked = r_
    ok = direct or masked is not None
    run.ob(rule, ('wrap_end',), ok, {'instructions before the hook call': ' | '.join(pre)[:220], 'dynamic alignment': 'and $-16,%rsp' if direct else masked})
    if not ok:
        run.violation(rule, '_MIR_get_wrapper_end', 'constant stack adjustment in wrap_end', 'wrap_end adjusts rsp by constants only (%s): the '
                      'wrapper is entered by `call` from ordinary calls and by a jump from MIR_JCALL, so one of the two entries runs the '
                      'generator on a stack that is 8 mod 16 (SIGSEGV at its first movaps)'
                      % ' | '.join(i for i in pre if 'rsp' in i)[:160], file='mir-x86_64.c', line=g['line'])
    return 1


# ---------------------------------------------------------------------------------------------
# RF174: %al of a variadic native call is set right in front of the call
# ---------------------------------------------------------------------------------------------

def rf174(run):
    import re
    rule = 'RF174'
    run.rule(rule, 'x86-64 SysV, interpreter FFI trampoline (_MIR_get_ff_call): a variadic callee reads in %al how many vector registers carry '
                   'arguments.  The trampoline sets rax in the same constant template that contains `call *%r11`, in front of the call, with '
                   'no instruction between them that writes rax — the code generated between the prologue and that template (argument moves, '
                   'the block copy loop of gen_blk_mov, which counts in rax) is free to use rax as scratch.  Setting it in the prologue '
                   'makes the callee of a call with a stack-passed block skip saving xmm0–7')
    tu = run.tu('mir')
    gl = {}
    for g in tu.globals:
        t = tu.type(g['t'])
        if t.kind == 'array' and 'uint8_t' in t.s and g.get('init') is not None and g['file'].endswith('mir-x86_64.c') and g.get('func') == '_MIR_get_ff_call':
            gl[g['name']] = g
    dec = {k: [norm(i) for o, i in disas(template_bytes(g), run.scratch)] for k, g in gl.items() if k != 'iregs'}
    with_call = [k for k, ins in dec.items() if any(re.match(r'call\s+\*%r11', i) for i in ins)]
    if len(with_call) != 1:
        raise F.AnalysisBroken('_MIR_get_ff_call: %d templates contain `call *%%r11`' % len(with_call))
    ins = dec[with_call[0]]
    ci = next(k for k, i in enumerate(ins) if re.match(r'call\s+\*%r11', i))
    sets = [k for k, i in enumerate(ins[:ci]) if re.match(r'mov\s+\$0x[0-9a-f]+,%(rax|eax|al)$', i)]
    clobber = [i for i in ins[(sets[-1] + 1 if sets else 0):ci] if re.search(r',%(rax|eax|ax|al)$', i) or re.match(r'(xor|sub|add|and|or)\s.*%(rax|eax)$', i)]
    ok = bool(sets) and not clobber
    f = tu.func('_MIR_get_ff_call')
    run.functions_analysed.add(('mir', f.name))
    run.ob(rule, ('al before call',), ok, {'template': with_call[0], 'text': ' | '.join(ins)})
    if not ok:
        run.violation(rule, f, '%al not set in front of the call', 'the template `%s` of _MIR_get_ff_call is [%s]: rax is not set between the '
                      'generated argument code and `call *%%r11`.  gen_blk_mov leaves rax 0 after copying a stack-passed block, so a '
                      'variadic callee (printf-like, with doubles) does not save the vector registers and reads garbage' %
                      (with_call[0], ' | '.join(ins)), line=gl[with_call[0]]['line'])
    # control: the block copy loop does use rax
    blk = tu.func('gen_blk_mov')
    ctrl = False
    if blk is not None:
        for g in tu.globals:
            if g.get('func') == 'gen_blk_mov' and g.get('init') is not None and 'uint8_t' in tu.type(g['t']).s:
                t_ = [norm(i) for o, i in disas(template_bytes(g), run.scratch)]
                ctrl = ctrl or any('%rax' in i for i in t_)
    run.control(rule, 'gen_blk_mov uses rax', ctrl)
    return 1
