"""RF4 code-memory write discipline: typestate in _MIR_set_code, who-may-call, protect-window coverage."""
from lib import facts as F
import rf_flow

# who may call the code-allocator wrappers (the default_* callbacks are the implementations behind them)
WHO_MAY_CALL = {
    'MIR_mem_protect': {'_MIR_set_code'},       # the only function that opens/closes the write window
    'MIR_mem_map': {'get_last_code_holder'},     # code holders are created here only
    'MIR_mem_unmap': {'code_finish'},            # and released when the context is finished
    '_MIR_set_code': {'add_code', '_MIR_change_code', '_MIR_update_code_arr'},
}
RAW_WRITERS = {'memcpy', 'memmove', 'memset', 'strcpy', 'strncpy'}


class Lin:
    """linear form: {atom: coeff} + const, with optional lower/upper slack for rounding"""

    def __init__(self, terms=None, const=0):
        self.t = dict(terms or {})
        self.c = const

    def add(self, o, k=1):
        r = Lin(self.t, self.c + k * o.c)
        for a, v in o.t.items():
            r.t[a] = r.t.get(a, 0) + k * v
            if r.t[a] == 0:
                del r.t[a]
        return r

    def scale(self, k):
        return Lin({a: v * k for a, v in self.t.items() if v * k != 0}, self.c * k)

    def is_const(self):
        return not self.t

    def __repr__(self):
        parts = ['%s%s' % ('' if v == 1 else ('-' if v == -1 else '%d*' % v), a) for a, v in sorted(self.t.items())]
        if self.c or not parts:
            parts.append(str(self.c))
        return ' + '.join(parts)


def lin_bounds(e, defs, depth=0):
    """(lower, upper) linear bounds of an unsigned size expression.  Recognises +, -, casts, constants, single-definition
    locals (expanded through defs, except atoms listed in defs['__keep__']), x / c * c (round down), (x + c - 1) / c * c
    (round up).  Anything else becomes an atom."""
    e = F.strip(e)
    v = F.const_value(e)
    if v is not None and e['k'] != 'DeclRefExpr':
        return Lin(const=v), Lin(const=v)
    k = e['k']
    if k == 'DeclRefExpr':
        n = e['n']
        if n in defs and n not in defs.get('__keep__', ()) and depth < 6:
            return lin_bounds(defs[n], defs, depth + 1)
        return Lin({n: 1}), Lin({n: 1})
    if k == 'BinaryOperator' and e['op'] in ('+', '-'):
        al, au = lin_bounds(e['c'][0], defs, depth)
        bl, bu = lin_bounds(e['c'][1], defs, depth)
        if e['op'] == '+':
            return al.add(bl), au.add(bu)
        return al.add(bu, -1), au.add(bl, -1)
    if k == 'BinaryOperator' and e['op'] == '*':
        a, b = F.strip(e['c'][0]), F.strip(e['c'][1])

        def unfold(x):
            if x['k'] == 'DeclRefExpr' and x['n'] in defs and x['n'] not in defs.get('__keep__', ()):
                return F.strip(defs[x['n']])
            return x
        a, b = unfold(a), unfold(b)
        if b['k'] == 'BinaryOperator' and b['op'] == '/' and not (a['k'] == 'BinaryOperator' and a['op'] == '/'):
            a, b = b, a  # c * (x / c)  ->  (x / c) * c
        # x / c * c
        if a['k'] == 'BinaryOperator' and a['op'] == '/' and F.src(F.strip(a['c'][1])) == F.src(b):
            c = F.src(b)
            x = F.strip(a['c'][0])
            # (y + c - 1) / c * c  -> round up
            if x['k'] == 'BinaryOperator' and x['op'] == '-' and F.const_value(F.strip(x['c'][1])) == 1:
                s = F.strip(x['c'][0])
                if s['k'] == 'BinaryOperator' and s['op'] == '+' and F.src(F.strip(s['c'][1])) == c:
                    yl, yu = lin_bounds(s['c'][0], defs, depth)
                    return yl, yu.add(Lin({c: 1}, -1))
            xl, xu = lin_bounds(x, defs, depth)
            return xl.add(Lin({c: 1}, -1), -1), xu
        ca, cb = F.const_value(a), F.const_value(b)
        if cb is not None:
            l, u = lin_bounds(a, defs, depth)
            return l.scale(cb), u.scale(cb)
        if ca is not None:
            l, u = lin_bounds(b, defs, depth)
            return l.scale(ca), u.scale(ca)
    t = F.src(e)
    return Lin({t: 1}), Lin({t: 1})


def single_defs(f):
    """locals assigned exactly once (by = or initialiser) -> defining expression; reassigned locals keep only the last
    definition when the assignments are in straight-line order (recorded in order)"""
    defs, order = {}, []
    cond_assigned = set()
    for n in f.walk():
        if n['k'] == 'BinaryOperator' and n['op'] == '=':
            l = F.strip(n['c'][0])
            if l['k'] == 'DeclRefExpr' and any(a['k'] in ('IfStmt', 'ForStmt', 'WhileStmt', 'DoStmt', 'SwitchStmt', 'ConditionalOperator')
                                                for a in f.ancestors(n)):
                cond_assigned.add(l['n'])
    for n in f.walk():
        if n['k'] == 'DeclStmt':
            for d in n['decls']:
                if d.get('init') is not None:
                    defs.setdefault(d['n'], []).append(d['init'])
        elif n['k'] == 'BinaryOperator' and n['op'] == '=':
            l = F.strip(n['c'][0])
            if l['k'] == 'DeclRefExpr' and l.get('dk') == 'local':
                defs.setdefault(l['n'], []).append(n['c'][1])
    for v in cond_assigned:
        defs.pop(v, None)  # assigned under a condition or in a loop: not a single straight-line definition
    return defs


def _subst(tu, e, mapping, outmap, depth=0):
    """copy of expression e of a helper with parameters replaced by the caller's argument trees, `*q` of an out-parameter by
    the caller's variable, and calls of single-return unit functions inlined"""
    import copy
    if e is None:
        return None
    k = e['k']
    if k == 'DeclRefExpr' and e['n'] in mapping:
        return mapping[e['n']]
    if k == 'UnaryOperator' and e.get('op') == '*':
        q = F.strip(e['c'][0])
        if q['k'] == 'DeclRefExpr' and q['n'] in outmap:
            return {'k': 'DeclRefExpr', 'n': outmap[q['n']], 'dk': 'local', 'c': [], 'l': e.get('l')}
    if k == 'CallExpr' and e.get('callee') in tu.funcs and depth < 3:
        g = tu.funcs[e['callee']]
        body = F.kids(g.body) if g.body is not None else []
        if len(body) == 1 and body[0]['k'] == 'ReturnStmt' and F.kids(body[0]):
            args = [_subst(tu, a, mapping, outmap, depth) for a in F.call_args(e)]
            m2 = {prm['n']: a for prm, a in zip(g.params, args)}
            return _subst(tu, F.kids(body[0])[0], m2, {}, depth + 1)
    r = dict(e)
    if 'c' in e and e['c'] is not None:
        r['c'] = [_subst(tu, c, mapping, outmap, depth) if isinstance(c, dict) else c for c in e['c']]
    return r


def outparam_defs(tu, g, defs_all):
    """definitions of the caller's locals that a helper fills through `&local` arguments: v := helper's `*p = E` with the
    arguments substituted"""
    for n in g.walk():
        if n['k'] != 'CallExpr' or n.get('callee') not in tu.funcs or n.get('callee') == '_MIR_set_code':
            continue
        h = tu.funcs[n['callee']]
        if h.body is None:
            continue
        args = F.call_args(n)
        if len(args) != len(h.params):
            continue
        outmap, mapping = {}, {}
        for prm, a in zip(h.params, args):
            a0 = F.strip(a)
            if a0['k'] == 'UnaryOperator' and a0.get('op') == '&' and F.strip(a0['c'][0])['k'] == 'DeclRefExpr':
                outmap[prm['n']] = F.strip(a0['c'][0])['n']
            else:
                mapping[prm['n']] = a
        if not outmap:
            continue
        stores = {}
        for x in F.kids(h.body):
            if x['k'] == 'BinaryOperator' and x['op'] == '=':
                l = F.strip(x['c'][0])
                if l['k'] == 'UnaryOperator' and l.get('op') == '*' and F.strip(l['c'][0])['k'] == 'DeclRefExpr' and F.strip(l['c'][0])['n'] in outmap:
                    stores.setdefault(F.strip(l['c'][0])['n'], []).append(x['c'][1])
        for q, v in outmap.items():
            if len(stores.get(q, [])) == 1 and v not in defs_all:
                defs_all[v] = [_subst(tu, stores[q][0], mapping, outmap)]
    return defs_all


def expand_last(defs_all, name, stop=()):
    """expression of the last definition of name, with earlier self-references expanded (len = f(len))"""
    return defs_all.get(name, [None])[-1]


def nonneg(l):
    """is the linear form provably >= 0 for all non-negative atoms (sizes/addresses)?  all coefficients >= 0 and const >= 0"""
    return l.c >= 0 and all(v >= 0 for v in l.t.values())


def rf4(run):
    rule = 'RF4'
    run.rule(rule, 'code memory: _MIR_set_code opens the write window before every copy and closes it after on all paths with the same '
                   'range; only designated functions call the code-allocator wrappers; each caller\'s window [start, start+len) '
                   'provably covers the bytes written; no other function of mir.c writes through raw copies into published code')
    tu = run.tu('mir')
    # (a) typestate inside _MIR_set_code
    f = tu.func('_MIR_set_code')
    run.functions_analysed.add(('mir', f.name))
    cfg = f.cfg

    def prot(kind):
        def p(x):
            if x['k'] == 'CallExpr' and x.get('callee') == 'MIR_mem_protect':
                a = F.strip(F.call_args(x)[3])
                return a['k'] == 'DeclRefExpr' and a['n'] == kind
            return False
        return p
    opens = [x for x in f.walk() if prot('PROT_WRITE_EXEC')(x)]
    closes = [x for x in f.walk() if prot('PROT_READ_EXEC')(x)]
    copies = [x for x in f.walk() if x['k'] == 'CallExpr' and x.get('callee') in RAW_WRITERS]
    ok = len(opens) == 1 and len(closes) == 1 and len(copies) >= 1
    run.ob(rule, ('set_code', 'shape'), ok, {'opens': len(opens), 'closes': len(closes), 'copies': len(copies)})
    if not ok:
        run.violation(rule, f, 'window calls', '_MIR_set_code must open the write window once and close it once around its copies '
                      '(found %d open, %d close, %d copies)' % (len(opens), len(closes), len(copies)), line=f.line)
    else:
        ob, cb = cfg.block_of(opens[0]), cfg.block_of(closes[0])
        idom = cfg.dominators()
        for c in copies:
            b = cfg.block_of(c)
            dom = cfg.dominates(ob, b, idom) and (ob != b or _before(cfg, ob, opens[0], c))
            # post-domination: every path from the copy to the exit passes the close
            after = cfg.reachable_from(b, avoid=lambda x: x == cb and x != b)
            post = cfg.exit not in after or (b == cb and _before(cfg, b, c, closes[0]))
            ok = dom and post
            run.ob(rule, ('set_code', 'copy', c['l']), ok, {'copy': F.src(c)[:80], 'dominated by open': dom, 'post-dominated by close': post})
            if not ok:
                run.violation(rule, f, 'copy %s' % F.src(F.call_args(c)[0]),
                              'the copy into code memory is %s' % ('not preceded by MIR_mem_protect (…, PROT_WRITE_EXEC) on every path'
                                                                   if not dom else 'not followed by MIR_mem_protect (…, PROT_READ_EXEC) on every path'),
                              line=c['l'])
        a1, a2 = F.call_args(opens[0]), F.call_args(closes[0])
        same = F.src(a1[1]) == F.src(a2[1]) and F.src(a1[2]) == F.src(a2[2])
        run.ob(rule, ('set_code', 'same-range'), same, {'open': F.src(opens[0])[:90], 'close': F.src(closes[0])[:90]})
        if not same:
            run.violation(rule, f, 'window range', 'the window is opened over (%s, %s) but closed over (%s, %s)' %
                          (F.src(a1[1]), F.src(a1[2]), F.src(a2[1]), F.src(a2[2])), line=closes[0]['l'])
        # writes: dest = base + relocs[i].offset, size = sizeof (void *) or reloc_size
    # (b) who may call
    for callee, allowed in WHO_MAY_CALL.items():
        callers = {}
        for g in tu.func_list:
            for n in g.walk():
                if n['k'] == 'DeclRefExpr' and n.get('dk') == 'func' and n['n'] == callee:
                    callers.setdefault(g.name, n['l'])
        if not callers:
            run.analysis_broken(rule, 'no caller of %s found' % callee)
        for g, l in sorted(callers.items()):
            ok = g in allowed
            run.ob(rule, ('who-may-call', callee, g), ok, {'callee': callee, 'caller': g, 'allowed callers': sorted(allowed)})
            if not ok:
                run.violation(rule, tu.funcs[g], 'call of %s' % callee,
                              '%s is called from %s; only {%s} may call it (code-memory protocol)' % (callee, g, ', '.join(sorted(allowed))),
                              line=l)
    # (c) window coverage at each caller of _MIR_set_code
    hr = holder_rule(run, rule, tu)
    for cname in sorted(WHO_MAY_CALL['_MIR_set_code'] - (set() if hr == 'generic' else {'add_code'})):
        g = tu.funcs.get(cname)
        if g is None:
            run.analysis_broken(rule, 'caller %s of _MIR_set_code vanished' % cname)
            continue
        run.functions_analysed.add(('mir', cname))
        calls = [n for n in g.walk() if n['k'] == 'CallExpr' and n.get('callee') == '_MIR_set_code']
        for call in calls:
            a = F.call_args(call)
            start, ln, base, nloc, relocs, rsize = a[1], a[2], a[3], a[4], a[5], a[6]
            defs_all = outparam_defs(tu, g, single_defs(g))
            # maximal offset written: reloc.offset = K (single reloc) or the max_offset idiom
            off_hi = None
            for n in g.walk():
                if n['k'] == 'BinaryOperator' and n['op'] == '=':
                    l = F.strip(n['c'][0])
                    if l['k'] == 'MemberExpr' and l['n'] == 'offset' and F.const_value(F.strip(n['c'][1])) is not None:
                        off_hi = Lin(const=F.const_value(F.strip(n['c'][1])))
                if n['k'] == 'IfStmt':
                    c = F.strip(n['c'][0])
                    if c['k'] == 'BinaryOperator' and c['op'] == '<':
                        l, r = F.strip(c['c'][0]), F.strip(c['c'][1])
                        if l['k'] == 'DeclRefExpr' and r['k'] == 'MemberExpr' and r['n'] == 'offset' and n['c'][1] is not None and \
                                any(x['k'] == 'BinaryOperator' and x['op'] == '=' and F.src(F.strip(x['c'][0])) == l['n']
                                    and F.src(F.strip(x['c'][1])) == F.src(r) for x in F.walk(n['c'][1])):
                            off_hi = Lin({l['n']: 1})
            if off_hi is None:
                run.ob(rule, ('window', cname), False)
                run.analysis_broken(rule, '%s: cannot determine the largest relocation offset written' % cname)
                continue
            size = F.const_value(F.strip(rsize))
            if size == 0:
                size_l = Lin(const=8)
            elif size is not None:
                size_l = Lin(const=size)
            else:
                size_l = Lin({F.src(rsize): 1})
            keep = {F.src(start)} if F.strip(start)['k'] == 'DeclRefExpr' else set()
            defs = {k: v[-1] for k, v in defs_all.items()}
            # a local redefined in terms of itself (len = roundup (len)): expand the previous definition once
            for k, v in defs_all.items():
                if len(v) >= 2 and any(x['k'] == 'DeclRefExpr' and x['n'] == k for x in F.walk(v[-1])):
                    defs[k + '__prev'] = v[-2]
            defs['__keep__'] = keep | {k for k in defs if k.endswith('__prev')}
            sl, su = lin_bounds(start, dict(defs, __keep__=set()))
            bl, bu = lin_bounds(base, dict(defs, __keep__=set()))
            # start + len as a linear form with `start` kept symbolic so that it can cancel
            ll, lu = _len_bounds(ln, defs, defs_all)
            startsym = Lin({F.src(start): 1}) if keep else sl
            end_lo = startsym.add(ll)
            # substitute the lower bound of start for any remaining start atom with positive coefficient
            if keep:
                s = F.src(start)
                coef = end_lo.t.pop(s, 0)
                if coef > 0:
                    end_lo = end_lo.add(sl, coef)
                elif coef < 0:
                    end_lo = end_lo.add(su, coef)
            w_hi = bu.add(off_hi).add(size_l)
            cover_hi = nonneg(end_lo.add(w_hi, -1))
            cover_lo = nonneg(bl.add(su, -1))
            ok = cover_hi and cover_lo
            for v_ in (start, ln):
                v0 = F.strip(v_)
                if v0['k'] == 'DeclRefExpr' and v0.get('dk') == 'local' and v0['n'] not in defs_all:
                    raise F.AnalysisBroken('%s: the window variable %s has no definition the rule can follow' % (cname, v0['n']))
            # the window does not reach past the page that holds the last byte written: end <= last written byte + page - 1
            end_hi = startsym.add(lu)
            if keep:
                s_ = F.src(start)
                coef = end_hi.t.pop(s_, 0)
                if coef > 0:
                    end_hi = end_hi.add(su, coef)
                elif coef < 0:
                    end_hi = end_hi.add(sl, coef)
            w_lo = bl.add(off_hi).add(size_l)
            slack = w_lo.add(end_hi, -1)
            page_atoms = [a_ for a_ in list(slack.t) + list(end_hi.t) if 'page_size' in a_]
            pa = page_atoms[0] if page_atoms else 'page_size'
            slack = slack.add(Lin({pa: 1}, -1))
            # page_size >= 1: a positive coefficient contributes at least its value
            if slack.t.get(pa, 0) > 0:
                slack = Lin({a_: v_ for a_, v_ in slack.t.items() if a_ != pa}, slack.c + slack.t[pa])
            within = nonneg(slack)
            run.ob(rule, ('window-upper', cname), within, {'caller': cname, 'window end <=': repr(end_hi), 'last byte written + 1 >=': repr(w_lo),
                                                          'verdict': 'within the last written page' if within else 'MAY REACH THE NEXT PAGE'})
            if not within:
                run.violation(rule, g, 'protect window of %s reaches past the written page' % cname,
                              'the write window passed to _MIR_set_code can end at [%s] while the last byte written is at [%s]: when the '
                              'written bytes end exactly on a page boundary the window (and the protection change) covers the following '
                              'page, which may hold the code of another context' % (end_hi, w_lo), line=call['l'])
            run.ob(rule, ('window', cname), ok, {'caller': cname, 'window end >=': repr(end_lo), 'last byte written <=': repr(w_hi),
                                                'window start <=': repr(su), 'first byte written >=': repr(bl),
                                                'verdict': 'covers' if ok else 'NOT SHOWN TO COVER'})
            if not ok:
                run.violation(rule, g, 'protect window of %s' % cname,
                              'cannot show that the write window passed to _MIR_set_code covers the bytes written: window end is at least '
                              '[%s] but the write ends at [%s]; window starts at most at [%s], write starts at [%s]'
                              % (end_lo, w_hi, su, bl), line=call['l'])
    return


def _len_bounds(ln, defs, defs_all):
    e = F.strip(ln)
    if e['k'] == 'DeclRefExpr' and e['n'] in defs_all and len(defs_all[e['n']]) >= 2:
        last = defs_all[e['n']][-1]
        if any(x['k'] == 'DeclRefExpr' and x['n'] == e['n'] for x in F.walk(last)):
            # len = g (len): bounds of g applied to the bounds of the previous definition
            d2 = dict(defs)
            d2[e['n']] = defs_all[e['n']][-2]
            prev_l, prev_u = lin_bounds(defs_all[e['n']][-2], dict(d2, **{e['n']: defs_all[e['n']][-2]}))
            # evaluate last with len as an atom, then substitute
            d3 = dict(defs)
            d3.pop(e['n'], None)
            d3['__keep__'] = set(defs.get('__keep__', ())) | {e['n']}
            ll, lu = lin_bounds(last, d3)
            cl = ll.t.pop(e['n'], 0)
            cu = lu.t.pop(e['n'], 0)
            return ll.add(prev_l if cl >= 0 else prev_u, cl), lu.add(prev_u if cu >= 0 else prev_l, cu)
    return lin_bounds(ln, defs)


def _before(cfg, bid, a, b):
    """does node a come before node b in block bid's element list"""
    elems = cfg.blocks[bid].elems
    ia = [i for i, e in enumerate(elems) if any(x is a for x in F.walk(e))]
    ib = [i for i, e in enumerate(elems) if any(x is b for x in F.walk(e))]
    return bool(ia) and bool(ib) and min(ia) < min(ib)


def holder_rule(run, rule, tu):
    """add_code opens the whole code holder that owns the destination, and every caller has established
    free + code_len <= bound for that holder"""
    g = tu.func('add_code')
    run.functions_analysed.add(('mir', 'add_code'))
    calls = [n for n in g.walk() if n['k'] == 'CallExpr' and n.get('callee') == '_MIR_set_code']
    if len(calls) != 1:
        run.analysis_broken(rule, 'add_code: expected one call of _MIR_set_code')
        return
    a = F.call_args(calls[0])
    start, ln, base, size = F.strip(a[1]), F.strip(a[2]), F.strip(a[3]), F.strip(a[6])
    defs = single_defs(g)
    X = None
    if start['k'] == 'MemberExpr' and start['n'] == 'start':
        X = F.src(start['c'][0])
    ok_win = X is not None and F.src(ln) == '(%s->bound - %s->start)' % (X, X)
    basedef = defs.get(F.src(base), [None])[0] if base['k'] == 'DeclRefExpr' else None
    ok_base = basedef is not None and X is not None and F.src(F.strip(basedef)) == '%s->free' % X
    ok = ok_win and ok_base
    if not ok_win:
        # another window shape: judged by the generic coverage / upper-bound analysis like the other callers
        return 'generic'
    run.ob(rule, ('window', 'add_code'), ok, {'caller': 'add_code', 'window': '(%s, %s)' % (F.src(start), F.src(ln)),
                                              'destination': '%s = %s' % (F.src(base), F.src(basedef) if basedef else '?'),
                                              'verdict': 'whole holder that owns the destination' if ok else 'NOT THE OWNING HOLDER'})
    if not ok:
        run.violation(rule, g, 'protect window of add_code', 'add_code must open the whole holder [X->start, X->bound) whose X->free is '
                      'the destination; found window (%s, %s) for destination %s' % (F.src(start), F.src(ln), F.src(basedef) if basedef else F.src(base)),
                      line=calls[0]['l'])
    # the holder parameter and the length parameter of add_code
    pn = [p['n'] for p in g.params]
    if X not in pn or F.src(size) not in pn:
        run.analysis_broken(rule, 'add_code: holder/length are not parameters')
        return
    hi, li = pn.index(X), pn.index(F.src(size))
    # capacity established at each caller
    for h in tu.func_list:
        for call in [n for n in h.walk() if n['k'] == 'CallExpr' and n.get('callee') == 'add_code']:
            args = F.call_args(call)
            H, L = F.src(F.strip(args[hi])), F.src(F.strip(args[li]))
            cfg = h.cfg
            cb = cfg.block_of(call)
            how = None
            # (i) a dominating guard  H->free + L <= H->bound  on the true edge
            idom = cfg.dominators()
            for B in cfg.blocks.values():
                if B.cond is None or len(B.succs) != 2:
                    continue
                c = F.strip(B.cond)
                if c['k'] == 'BinaryOperator' and c['op'] == '<=' and F.src(c['c'][0]) == '(%s->free + %s)' % (H, L) \
                        and F.src(c['c'][1]) == '%s->bound' % H:
                    t = B.succs[0]
                    if t is not None and cfg.dominates(t, cb, idom):
                        how = 'guard %s' % F.src(c)
            # (ii) H = get_last_code_holder (ctx, L) with a non-NULL test
            if how is None:
                for n in h.walk():
                    if n['k'] == 'BinaryOperator' and n['op'] == '=' and F.src(F.strip(n['c'][0])) == H:
                        r = F.strip(n['c'][1])
                        if r['k'] == 'CallExpr' and r.get('callee') == 'get_last_code_holder' and F.src(F.strip(F.call_args(r)[1])) == L:
                            how = 'holder obtained from get_last_code_holder (ctx, %s)' % L
            ok = how is not None
            run.ob(rule, ('capacity', h.name), ok, {'caller': h.name, 'holder': H, 'length': L, 'established by': how})
            if not ok:
                run.violation(rule, h, 'capacity before add_code', '%s calls add_code (%s, …, %s) without having established '
                              '%s->free + %s <= %s->bound' % (h.name, H, L, H, L, H), line=call['l'])
    # get_last_code_holder keeps its promise: every returned holder has free + size <= bound
    gl = tu.func('get_last_code_holder')
    run.functions_analysed.add(('mir', gl.name))
    cfg = gl.cfg
    idom = cfg.dominators()
    sz = gl.params[1]['n']
    rets = rf_flow.return_blocks(gl, lambda r: F.kids(r) and F.const_value(F.strip(F.kids(r)[0])) != 0)
    guards = []
    for B in cfg.blocks.values():
        if B.cond is not None and len(B.succs) == 2:
            c = F.strip(B.cond)
            if c['k'] == 'BinaryOperator' and c['op'] == '<=' and F.src(c['c'][0]).endswith('->free + %s)' % sz) and F.src(c['c'][1]).endswith('->bound'):
                guards.append((B, c))
    defs = {k: v[-1] for k, v in single_defs(gl).items() if len(v) == 1}
    for bid, ret in rets.items():
        rv = F.src(F.strip(F.kids(ret)[0]))
        how = None
        for B, c in guards:
            if B.succs[0] is not None and cfg.dominates(B.succs[0], bid, idom) and F.src(c['c'][1]) == '%s->bound' % rv:
                how = 'guard %s' % F.src(c)
        if how is None:
            # fresh holder: bound = mem + len with len >= size
            maps = [n for n in gl.walk() if n['k'] == 'CallExpr' and n.get('callee') == 'MIR_mem_map']
            if maps:
                lenarg = F.call_args(maps[0])[1]
                lenname = F.src(F.strip(lenarg))
                # len is assigned twice in this function (VARR length, then page_size * npages): take the definition that
                # reaches the map call = the last assignment before it in source order
                cand = [n for n in gl.walk() if n['k'] == 'BinaryOperator' and n['op'] == '=' and F.src(F.strip(n['c'][0])) == lenname
                        and n['l'] <= maps[0]['l'] and not any(x.get('callee') for x in F.walk(n['c'][1]) if x['k'] == 'CallExpr')]
                if cand:
                    d = dict(defs)
                    d.pop(lenname, None)
                    ll, lu = lin_bounds(cand[-1]['c'][1], d)
                    if nonneg(ll.add(Lin({sz: 1}), -1)):
                        how = 'fresh holder of %s = %s >= %s bytes' % (lenname, F.src(cand[-1]['c'][1]), sz)
        ok = how is not None
        run.ob(rule, ('holder-promise', ret['l']), ok, {'function': gl.name, 'return': rv, 'capacity because': how})
        if not ok:
            run.violation(rule, gl, 'return %s' % rv, 'get_last_code_holder returns holder %s without free + %s <= bound being established'
                          % (rv, sz), line=ret['l'])


def rf4d(run, units=('mir', 'gen')):
    """functions that take part in the code-write protocol must not write published code directly"""
    rule = 'RF4d'
    run.rule(rule, 'in every function that calls _MIR_set_code / _MIR_change_code / _MIR_update_code(_arr) — i.e. that patches published '
                   'code — no memcpy/memmove/memset writes through a pointer parameter: all such writes go through _MIR_set_code, '
                   'local staging buffers excepted')
    n = 0
    patchers = {'_MIR_set_code', '_MIR_change_code', '_MIR_update_code_arr', '_MIR_update_code'}
    for u in units:
        tu = run.tu(u)
        for f in tu.func_list:
            if f.name == '_MIR_set_code':
                continue
            if not any(x['k'] == 'CallExpr' and x.get('callee') in patchers for x in f.walk()):
                continue
            run.functions_analysed.add((u, f.name))
            writes = [x for x in f.walk() if x['k'] == 'CallExpr' and x.get('callee') in RAW_WRITERS]
            if not writes:
                n += 1
                run.ob(rule, (u, f.name), True, {'function': f.name, 'raw writes': 0})
            for w in writes:
                n += 1
                dst = F.call_args(w)[0]
                roots = [x for x in F.walk(dst) if x['k'] == 'DeclRefExpr' and x.get('dk') in ('param', 'local', 'global', 'slocal')]
                root = roots[0] if roots else None
                bad = root is not None and root.get('dk') == 'param' and tu.type(root).kind == 'ptr'
                run.ob(rule, (u, f.name, w['l']), not bad, {'site': '%s:%d %s' % (f.relfile(), w['l'], f.name), 'write': F.src(w)[:70],
                                                            'destination rooted at': '%s (%s)' % (root['n'], root.get('dk')) if root else '?'})
                if bad:
                    run.violation(rule, f, 'raw write %s' % F.src(w)[:50],
                                  '%s patches code through the protocol but also writes %s directly through its pointer parameter %s: '
                                  'published code is written without a write-access request' % (f.name, F.src(w)[:60], root['n']), line=w['l'])
    return n
