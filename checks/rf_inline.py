"""RF28 inlining: consolidation of callee top-level allocas into the caller's — offset / live-size invariant."""
from lib import facts as F
from lib import linstate as LS


def rf28(run):
    rule = 'RF28'
    run.rule(rule, 'process_inlines: on every path through the size accounting of an inlined callee\'s top alloca, the offset emitted for '
                   'the callee frame satisfies  previous live size <= offset  and  offset + callee size <= new live size  (exact linear '
                   'forms with round-up terms bounded by x <= roundup(x, a) <= x + a - 1)')
    tu = run.tu('mir')
    f = tu.func('process_inlines')
    run.functions_analysed.add(('mir', f.name))
    # region 1: if (… called_func_top_alloca_used_p) { …; S += Z; … }
    region = None
    S = Z = None
    for n in f.walk():
        if n['k'] == 'IfStmt' and 'top_alloca_used_p' in F.src(n['c'][0]) and n['c'][1] is not None:
            incs = [x for x in F.walk(n['c'][1]) if x['k'] == 'CompoundAssignOperator' and x['op'] == '+=' and
                    F.strip(x['c'][0])['k'] == 'DeclRefExpr' and F.strip(x['c'][1])['k'] == 'DeclRefExpr']
            if incs and 'alloca_size' in F.src(incs[0]['c'][1]):
                region = n
                S, Z = F.src(F.strip(incs[0]['c'][0])), F.src(F.strip(incs[0]['c'][1]))
                break
    if region is None:
        raise F.AnalysisBroken('process_inlines: top-alloca size accounting not found')
    assigned = set()
    for x in F.walk(region['c'][1]):
        if x['k'] in ('BinaryOperator', 'CompoundAssignOperator') and (x['op'] == '=' or x['k'] == 'CompoundAssignOperator'):
            l = F.strip(x['c'][0])
            if l['k'] == 'DeclRefExpr':
                assigned.add(l['n'])
    # emission: MIR_new_int_op (ctx, E) with non-constant E mentioning S/Z/assigned locals, after the region
    emits = []
    for n in f.walk():
        if n['k'] == 'CallExpr' and n.get('callee') == 'MIR_new_int_op' and n['l'] > region['l']:
            e = F.call_args(n)[1]
            if F.const_value(F.strip(e)) is not None:
                continue
            vs = {x['n'] for x in F.walk(e) if x['k'] == 'DeclRefExpr'}
            if vs & ({S, Z} | assigned) and S in ({S} & vs | assigned & vs | {S}):
                flag = [x['n'] for x in F.walk(region['c'][0]) if x['k'] == 'DeclRefExpr' and x['n'].endswith('used_p')]
                if flag and any(any(x['k'] == 'DeclRefExpr' and x['n'] == flag[0] for x in F.walk(a['c'][0]))
                                for a in f.ancestors(n) if a['k'] == 'IfStmt'):
                    emits.append(n)
    if len(emits) != 1:
        raise F.AnalysisBroken('process_inlines: %d candidate offset emissions found, 1 expected' % len(emits))
    E = F.call_args(emits[0])[1]
    sym = LS.Sym()
    s0 = LS.Lin({S + '0': 1})
    paths = sym.run(F.kids(region['c'][1]), {S: s0})
    align_atoms = {a for σ in paths for v in σ.values() for a in v.t if 'align' in a}
    for i, σ in enumerate(paths):
        off = sym.ev(E, σ)
        live = σ.get(S, s0)
        size = σ.get(Z, LS.Lin({Z + '0': 1}))
        o1 = live.add(off, -1).add(size, -1)
        o2 = off.add(s0, -1)
        ok1 = sym.nonneg(o1, align_atoms)
        ok2 = sym.nonneg(o2, align_atoms)
        run.ob(rule, ('path', i), ok1 and ok2, {'path': i, 'live size after': repr(live), 'callee size': repr(size), 'emitted offset': repr(off),
                                               'offset + size <= live size': ok1, 'previous live size <= offset': ok2})
        if not ok1:
            run.violation(rule, f, 'callee frame end on accounting path %d' % i,
                          'on a path through the top-alloca accounting the emitted offset is [%s] and the callee frame has [%s] bytes, but '
                          'the recorded live size is only [%s]: a later inlined frame can overlap the end of this one'
                          % (off, size, live), line=emits[0]['l'])
        if not ok2:
            run.violation(rule, f, 'callee frame start on accounting path %d' % i,
                          'the emitted offset [%s] can be below the previously live size [%s]: the callee frame overlaps live caller data'
                          % (off, s0), line=emits[0]['l'])
    # the "offset is zero" shortcut tests the same expression that is emitted
    for a in f.ancestors(emits[0]):
        if a['k'] == 'IfStmt':
            c = F.strip(a['c'][0])
            if c['k'] == 'BinaryOperator' and c['op'] == '==' and F.const_value(F.strip(c['c'][1])) == 0:
                ok = F.src(F.strip(c['c'][0])) == F.src(F.strip(E))
                run.ob(rule, ('zero-test',), ok, {'zero test': F.src(c), 'emitted': F.src(E)})
                if not ok:
                    run.violation(rule, f, 'zero-offset shortcut', 'the shortcut for offset 0 tests [%s] but the offset emitted otherwise is '
                                  '[%s]' % (F.src(c['c'][0]), F.src(E)), line=a['l'])
                break
    return len(paths)


def rf29(run):
    """instructions created by the link-time transformations after operand simplification are themselves in simplified form"""
    rule = 'RF29'
    run.rule(rule, 'link-time transformations (simplify_func, process_inlines and their helpers) create memory operands only in the '
                   'simplified form the engines rely on: displacement 0, no index register (the interpreter pushes only the base '
                   'register of a memory operand; the check is an assertion compiled out under NDEBUG)')
    tu = run.tu('mir')
    entries = [e for e in ('simplify_func', 'process_inlines', 'make_one_ret', 'simplify_op', 'simplify_insn') if e in tu.funcs]
    fs = tu.reachable(entries)
    # only functions of mir.c proper (not the reader/scanner, which build unsimplified user code)
    n = 0
    for fn in sorted(fs):
        f = tu.funcs[fn]
        if fn in ('MIR_new_mem_op', 'MIR_new_alias_mem_op', '_MIR_new_var_mem_op', 'new_mem_op'):
            continue
        for c in f.walk():
            if c['k'] == 'CallExpr' and c.get('callee') in ('MIR_new_mem_op', 'MIR_new_alias_mem_op'):
                a = F.call_args(c)
                disp, index = F.const_value(F.strip(a[2])), F.const_value(F.strip(a[4]))
                ok = disp == 0 and index == 0
                n += 1
                run.ob(rule, (fn, c['l']), ok, {'site': '%s:%d %s' % (f.relfile(), c['l'], fn), 'operand': F.src(c)[:80],
                                                'disp': F.src(a[2]), 'index': F.src(a[4])})
                if not ok:
                    run.violation(rule, f, 'memory operand %s' % F.src(c)[:60],
                                  '%s creates a memory operand with displacement [%s] / index [%s] after operand simplification: the '
                                  'interpreter addresses memory by the base register alone, so the access goes to the wrong address'
                                  % (fn, F.src(a[2]), F.src(a[4])), line=c['l'])
    # the reliance itself: push_mem uses the base register only
    pm = tu.funcs.get('push_mem')
    if pm is not None:
        fields = {x['n'] for x in pm.walk() if x['k'] == 'MemberExpr' and x.get('rec') in ('MIR_mem_t', 'MIR_mem')}
        run.ob(rule, ('interp-reliance',), True, {'fields of the memory operand the interpreter encodes': sorted(fields)})
    return n
