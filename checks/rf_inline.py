"""RF28 inlining: consolidation of callee top-level allocas into the caller's — offset / live-size invariant."""
from lib import facts as F
from lib import linstate as LS


def rf28(run):
    rule = 'RF28'
    run.rule(rule, 'process_inlines: on every path through the size accounting of an inlined callee\'s top alloca, the offset emitted for '
                   'the callee frame satisfies  previous live size <= offset  and  offset + callee size <= new live size  (exact linear '
                   'forms with round-up terms bounded by x <= roundup(x, a) <= x + a - 1)')
    tu = run.tu('mir')
    f = tu.func('process_inlines')
    run.functions_analysed.add(('mir', f.name))
    # region 1: if (… called_func_top_alloca_used_p) { …; S += Z; … }
    region = None
    S = Z = None
    for n in f.walk():
        if n['k'] == 'IfStmt' and 'top_alloca_used_p' in F.src(n['c'][0]) and n['c'][1] is not None:
            incs = [x for x in F.walk(n['c'][1]) if x['k'] == 'CompoundAssignOperator' and x['op'] == '+=' and
                    F.strip(x['c'][0])['k'] == 'DeclRefExpr' and F.strip(x['c'][1])['k'] == 'DeclRefExpr']
            if incs and 'alloca_size' in F.src(incs[0]['c'][1]):
                region = n
                S, Z = F.src(F.strip(incs[0]['c'][0])), F.src(F.strip(incs[0]['c'][1]))
                break
    if region is None:
        raise F.AnalysisBroken('process_inlines: top-alloca size accounting not found')
    assigned = set()
    for x in F.walk(region['c'][1]):
        if x['k'] in ('BinaryOperator', 'CompoundAssignOperator') and (x['op'] == '=' or x['k'] == 'CompoundAssignOperator'):
            l = F.strip(x['c'][0])
            if l['k'] == 'DeclRefExpr':
                assigned.add(l['n'])
    # emission: MIR_new_int_op (ctx, E) with non-constant E mentioning S/Z/assigned locals, after the region
    emits = []
    for n in f.walk():
        if n['k'] == 'CallExpr' and n.get('callee') == 'MIR_new_int_op' and n['l'] > region['l']:
            e = F.call_args(n)[1]
            if F.const_value(F.strip(e)) is not None:
                continue
            vs = {x['n'] for x in F.walk(e) if x['k'] == 'DeclRefExpr'}
            if vs & ({S, Z} | assigned) and S in ({S} & vs | assigned & vs | {S}):
                flag = [x['n'] for x in F.walk(region['c'][0]) if x['k'] == 'DeclRefExpr' and x['n'].endswith('used_p')]
                if flag and any(any(x['k'] == 'DeclRefExpr' and x['n'] == flag[0] for x in F.walk(a['c'][0]))
                                for a in f.ancestors(n) if a['k'] == 'IfStmt'):
                    emits.append(n)
    if len(emits) != 1:
        raise F.AnalysisBroken('process_inlines: %d candidate offset emissions found, 1 expected' % len(emits))
    E = F.call_args(emits[0])[1]
    sym = LS.Sym()
    s0 = LS.Lin({S + '0': 1})
    paths = sym.run(F.kids(region['c'][1]), {S: s0})
    align_atoms = {a for σ in paths for v in σ.values() for a in v.t if 'align' in a}
    for i, σ in enumerate(paths):
        off = sym.ev(E, σ)
        live = σ.get(S, s0)
        size = σ.get(Z, LS.Lin({Z + '0': 1}))
        o1 = live.add(off, -1).add(size, -1)
        o2 = off.add(s0, -1)
        ok1 = sym.nonneg(o1, align_atoms)
        ok2 = sym.nonneg(o2, align_atoms)
        run.ob(rule, ('path', i), ok1 and ok2, {'path': i, 'live size after': repr(live), 'callee size': repr(size), 'emitted offset': repr(off),
                                               'offset + size <= live size': ok1, 'previous live size <= offset': ok2})
        if not ok1:
            run.violation(rule, f, 'callee frame end on accounting path %d' % i,
                          'on a path through the top-alloca accounting the emitted offset is [%s] and the callee frame has [%s] bytes, but '
                          'the recorded live size is only [%s]: a later inlined frame can overlap the end of this one'
                          % (off, size, live), line=emits[0]['l'])
        if not ok2:
            run.violation(rule, f, 'callee frame start on accounting path %d' % i,
                          'the emitted offset [%s] can be below the previously live size [%s]: the callee frame overlaps live caller data'
                          % (off, s0), line=emits[0]['l'])
    # the "offset is zero" shortcut tests the same expression that is emitted
    for a in f.ancestors(emits[0]):
        if a['k'] == 'IfStmt':
            c = F.strip(a['c'][0])
            if c['k'] == 'BinaryOperator' and c['op'] == '==' and F.const_value(F.strip(c['c'][1])) == 0:
                ok = F.src(F.strip(c['c'][0])) == F.src(F.strip(E))
                run.ob(rule, ('zero-test',), ok, {'zero test': F.src(c), 'emitted': F.src(E)})
                if not ok:
                    run.violation(rule, f, 'zero-offset shortcut', 'the shortcut for offset 0 tests [%s] but the offset emitted otherwise is '
                                  '[%s]' % (F.src(c['c'][0]), F.src(E)), line=a['l'])
                break
    return len(paths)


def rf29(run):
    """instructions created by the link-time transformations after operand simplification are themselves in simplified form"""
    rule = 'RF29'
    run.rule(rule, 'link-time transformations (simplify_func, process_inlines and their helpers) create memory operands only in the '
                   'simplified form the engines rely on: displacement 0, no index register (the interpreter pushes only the base '
                   'register of a memory operand; the check is an assertion compiled out under NDEBUG)')
    tu = run.tu('mir')
    entries = [e for e in ('simplify_func', 'process_inlines', 'make_one_ret', 'simplify_op', 'simplify_insn') if e in tu.funcs]
    fs = tu.reachable(entries)
    # only functions of mir.c proper (not the reader/scanner, which build unsimplified user code)
    n = 0
    for fn in sorted(fs):
        f = tu.funcs[fn]
        if fn in ('MIR_new_mem_op', 'MIR_new_alias_mem_op', '_MIR_new_var_mem_op', 'new_mem_op'):
            continue
        for c in f.walk():
            if c['k'] == 'CallExpr' and c.get('callee') in ('MIR_new_mem_op', 'MIR_new_alias_mem_op'):
                a = F.call_args(c)
                disp, index = F.const_value(F.strip(a[2])), F.const_value(F.strip(a[4]))
                ok = disp == 0 and index == 0
                n += 1
                run.ob(rule, (fn, c['l']), ok, {'site': '%s:%d %s' % (f.relfile(), c['l'], fn), 'operand': F.src(c)[:80],
                                                'disp': F.src(a[2]), 'index': F.src(a[4])})
                if not ok:
                    run.violation(rule, f, 'memory operand %s' % F.src(c)[:60],
                                  '%s creates a memory operand with displacement [%s] / index [%s] after operand simplification: the '
                                  'interpreter addresses memory by the base register alone, so the access goes to the wrong address'
                                  % (fn, F.src(a[2]), F.src(a[4])), line=c['l'])
    # the reliance itself: push_mem uses the base register only
    pm = tu.funcs.get('push_mem')
    if pm is not None:
        fields = {x['n'] for x in pm.walk() if x['k'] == 'MemberExpr' and x.get('rec') in ('MIR_mem_t', 'MIR_mem')}
        run.ob(rule, ('interp-reliance',), True, {'fields of the memory operand the interpreter encodes': sorted(fields)})
    return n


# ---------------------------------------------------------------------------------------------
# RF45: results of several ret insns are merged through fresh registers; RF46: the top alloca precedes every call
# ---------------------------------------------------------------------------------------------

def rf45(run):
    import rf_flow
    rule = 'RF45'
    run.rule(rule, 'make_one_ret: when a function has more than one ret, the registers that receive the results of the early rets '
                   '(sequential moves followed by a jump to the common ret) are temporaries created in make_one_ret, not the operand '
                   'registers of the last ret: moving straight into those can overwrite a register that a later move still reads '
                   '(ret y, x merged into ret x, y)')
    tu = run.tu('mir')
    f = tu.func('make_one_ret')
    run.functions_analysed.add(('mir', f.name))
    cfg = f.cfg
    pushes = [x for x in f.walk() if x['k'] == 'CallExpr' and (x.get('callee') or '') == 'VARR_MIR_op_tpush']
    if len(pushes) != 1:
        raise F.AnalysisBroken('make_one_ret: the push of the merge operands (ret_ops) was found %d times' % len(pushes))
    pb = cfg.block_of(pushes[0])
    # stores last_ret_insn->ops[i] = <op of a new temporary>
    fresh_vars = set()
    for x in f.walk():
        if x['k'] == 'BinaryOperator' and x['op'] == '=':
            r = F.strip(x['c'][1])
            if r['k'] == 'CallExpr' and r.get('callee') == 'MIR_new_reg_op':
                a = F.strip(F.call_args(r)[1])
                ok_src = a['k'] == 'CallExpr' and a.get('callee') == '_MIR_new_temp_reg'
                if a['k'] == 'DeclRefExpr':
                    ok_src = any(y['k'] == 'BinaryOperator' and y['op'] == '=' and F.src(F.strip(y['c'][0])) == a['n']
                                 and F.strip(y['c'][1])['k'] == 'CallExpr' and F.strip(y['c'][1]).get('callee') == '_MIR_new_temp_reg' for y in f.walk())
                if ok_src:
                    fresh_vars.add(F.src(F.strip(x['c'][0])))
    stores = rf_flow.blocks_with(cfg, lambda z: z['k'] == 'BinaryOperator' and z['op'] == '=' and F.src(F.strip(z['c'][0])) == 'last_ret_insn->ops[i]'
                                 and F.src(F.strip(z['c'][1])) in fresh_vars)
    hdr = [B for B in cfg.blocks.values() if B.cond is not None and len(B.succs) == 2 and 'length(' in F.src(B.cond) and '> 1' in F.src(B.cond)]
    ok = False
    if hdr and stores and pb is not None:
        H = hdr[0]
        t = H.succs[0]
        # from the "several rets" edge, the push is reached only through a block that installs a fresh register
        from rf_proto import _loop_headers_of, _loop_signature
        # the store sits in a loop over all results (same bound as the loop that records the merge operands) and that loop lies
        # on every path from the "several rets" edge to the recording
        sh = set()
        for s_ in stores:
            if s_ == t or cfg.dominates(t, s_):   # only the stores on the "several rets" side
                sh |= set(_loop_headers_of(cfg, s_))
        same_bound = bool(sh) and set(_loop_signature(cfg, list(sh))) == set(_loop_signature(cfg, _loop_headers_of(cfg, pb)))
        ok = same_bound and pb not in cfg.reachable_from(t, avoid=lambda q: q in sh) and any(cfg.dominates(H.id, s_) for s_ in stores)
        # and that store precedes the push also textually inside a loop over all results
    run.ob(rule, ('fresh-merge-registers',), ok, {'registers installed before the merge operands are recorded': sorted(fresh_vars),
                                                 'on every path with several rets': ok})
    if not ok:
        run.violation(rule, f, 'merge registers of several rets',
                      'make_one_ret moves the operands of an early ret one after another into the operand registers of the last ret: with '
                      '`ret y, x` before `ret x, y` the second move reads a register the first one has overwritten', line=pushes[0]['l'])
    run.min_instances(rule, 1)


def rf46(run):
    from lib import enumflow as EF
    rule = 'RF46'
    run.rule(rule, 'func_alloca_features: the constant alloca that process_inlines uses as the base of inlined callees\' frames (the '
                   '"top alloca") is accepted only while neither a label, a call nor a branch has been seen: the statement that ends the search '
                   'fires for MIR_LABEL, for every call-family opcode (a call in front of the alloca would be inlined with the alloca '
                   'register still unset) and for branches (an alloca behind a branch may be skipped)')
    tu = run.tu('mir')
    f = tu.func('func_alloca_features')
    run.functions_analysed.add(('mir', f.name))
    preds = EF.Predicates(tu)
    site = None
    for x in f.walk():
        if x['k'] == 'IfStmt' and any(y['k'] == 'BinaryOperator' and y['op'] == '=' and F.src(F.strip(y['c'][0])) == 'set_top_alloca_p'
                                      and F.const_value(y['c'][1]) == 0 for y in F.walk(x['c'][1])) and 'insn->code' in F.src(x['c'][0]):
            if site is None or x['l'] < site['l']:
                site = x
    if site is None:
        raise F.AnalysisBroken('func_alloca_features: the statement clearing set_top_alloca_p on an opcode was not found')
    codes = dict(tu.enum('MIR_insn_code_t'))
    for c in ('MIR_LABEL', 'MIR_CALL', 'MIR_INLINE', 'MIR_JCALL', 'MIR_JMP', 'MIR_BT', 'MIR_BF', 'MIR_BEQ', 'MIR_BLT', 'MIR_UBGE', 'MIR_FBNE',
              'MIR_DBGT', 'MIR_LDBLE', 'MIR_BO', 'MIR_UBNO', 'MIR_SWITCH', 'MIR_JMPI', 'MIR_PRBEQ', 'MIR_BSTART', 'MIR_RET', 'MIR_JRET'):
        v = preds.eval(site['c'][0], {'insn->code': codes[c], 'set_top_alloca_p': 1}, frozenset())
        ok = v is not None and bool(v)
        run.ob(rule, (c,), ok, {'opcode': c, 'ends the search for the top alloca': v})
        if not ok:
            if v is None:
                raise F.AnalysisBroken('func_alloca_features: test not evaluable for %s' % c)
            run.violation(rule, f, 'top alloca after %s' % c, 'a constant alloca that follows a %s is still taken for the function\'s top '
                          'alloca: %s' % (c, 'it is executed more than once' if c == 'MIR_LABEL' else 'a call in front of it is inlined with '
                                          'a frame address computed from the alloca register before the alloca has executed' if c in ('MIR_CALL', 'MIR_INLINE', 'MIR_JCALL')
                                          else 'its memory is released by the matching bend while callees inlined behind it still use it' if c == 'MIR_BSTART'
                                          else 'it is never executed; when the function is inlined the copy loop stops at the return and never meets the alloca it was told to merge (NULL dereference in process_inlines, D117)' if c in ('MIR_RET', 'MIR_JRET')
                                          else 'a branch can jump over it, and the frame of a callee inlined behind the join is addressed from a register that was never set'), line=site['l'])
    run.min_instances(rule, 4)


# ---------------------------------------------------------------------------------------------
# RF50: the inliner maps every callee register to a register created for this inlining
# ---------------------------------------------------------------------------------------------

def rf50(run):
    rule = 'RF50'
    run.rule(rule, 'every set_inline_reg_map (ctx, old, new) in mir.c binds a callee register to a register that was created for this '
                   'inlining by MIR_new_func_reg / MIR_new_global_func_reg (a renamed copy), never to an already existing register of '
                   'the caller such as the register holding an argument: the inlined body assigns call results one after another and '
                   'would overwrite a caller register that still stands for a parameter')
    tu = run.tu('mir')
    n = 0
    FRESH = ('MIR_new_func_reg', 'MIR_new_global_func_reg', '_MIR_new_temp_reg', 'new_temp_reg')
    for f in tu.func_list:
        if f.body is None or f.name == 'set_inline_reg_map':
            continue
        for x in f.walk():
            if x['k'] != 'CallExpr' or x.get('callee') != 'set_inline_reg_map':
                continue
            n += 1
            run.functions_analysed.add(('mir', f.name))
            a = F.strip(F.call_args(x)[2])
            fresh = False
            if a['k'] == 'CallExpr' and a.get('callee') in FRESH:
                fresh = True
            elif a['k'] == 'DeclRefExpr':
                srcs = []
                for y in f.walk():
                    if y['k'] == 'BinaryOperator' and y['op'] == '=' and F.src(F.strip(y['c'][0])) == a['n']:
                        srcs.append(F.strip(y['c'][1]))
                    if y['k'] == 'DeclStmt':
                        for d in y['decls']:
                            if d['n'] == a['n'] and d.get('init') is not None:
                                srcs.append(F.strip(d['init']))
                fresh = bool(srcs) and all(s_['k'] == 'CallExpr' and s_.get('callee') in FRESH for s_ in srcs)
            run.ob(rule, (f.name, x['l']), fresh, {'site': '%s:%d' % (f.name, x['l']), 'new register': F.src(a), 'created for this inlining': fresh})
            if not fresh:
                run.violation(rule, f, 'register map entry %s' % F.src(x)[:70],
                              '%s maps a callee register to %s, which is not a register created for this inlining: the callee register becomes '
                              'an alias of a live caller register (e.g. the argument register), and the sequential assignment of the call '
                              'results or any later write in the caller changes what the inlined body reads' % (f.name, F.src(a)), line=x['l'])
    if n < 1:
        raise F.AnalysisBroken('no call of set_inline_reg_map found')
    return n


# ---------------------------------------------------------------------------------------------
# RF51: every block of a consolidated alloca area is placed at an offset rounded up to its own alignment
# ---------------------------------------------------------------------------------------------

def rf51(run):
    from lib import linstate as LS
    rule = 'RF51'
    run.rule(rule, 'where constant allocas are laid out in one area (adjacent allocas in simplify_func, top allocas of inlined callees '
                   'in process_inlines), on every path the running offset is rounded up to the alignment returned by '
                   'get_alloca_size_align for this block before the block is placed — not only when a new maximal alignment '
                   'appears: MIR_ALLOCA memory is aligned according to the target ABI')
    tu = run.tu('mir')
    n = 0
    for fn, offv, alignv in (('simplify_func', 'overall_size', 'align'), ('process_inlines', 'curr_func_top_alloca_size', 'alloca_align')):
        f = tu.func(fn)
        run.functions_analysed.add(('mir', fn))
        # the statement list that contains get_alloca_size_align (…, &alignv) followed by the advance offv += size
        site = None
        for comp in [x for x in f.walk() if x['k'] == 'CompoundStmt']:
            ks = F.kids(comp)
            gi = [i for i, st in enumerate(ks) if any(y['k'] == 'CallExpr' and y.get('callee') == 'get_alloca_size_align'
                                                      and ('&' + alignv) in F.src(F.call_args(y)[1]).replace(' ', '') for y in F.walk(st))
                  and st['k'] in ('BinaryOperator',)]
            ai = [i for i, st in enumerate(ks) if st['k'] == 'CompoundAssignOperator' and st['op'] == '+=' and F.src(F.strip(st['c'][0])) == offv]
            if gi and ai and gi[0] < ai[0]:
                site = (ks, gi[0], ai[0])
        if site is None:
            raise F.AnalysisBroken('%s: the layout step (get_alloca_size_align … %s += size) was not found' % (fn, offv))
        ks, g0, a0 = site
        sym = LS.Sym()
        st0 = {offv: LS.Lin({'OFF': 1})}
        states = sym.run(ks[g0:a0], st0)
        bad = None
        for σ in states:
            v = σ.get(offv)
            al = σ.get(alignv)
            ok = v is not None and al is not None and len(v.t) == 1 and v.c == 0 and list(v.t.values()) == [1] \
                and list(v.t)[0].startswith('ru(') and list(v.t)[0].endswith(',%r)' % (al,))
            if not ok and bad is None:
                bad = v
        n += 1
        ok = bad is None and bool(states)
        run.ob(rule, (fn,), ok, {'function': fn, 'paths': len(states), 'offset before the block is placed': [repr(σ.get(offv)) for σ in states][:4]})
        if not ok:
            run.violation(rule, f, 'placement of a block in the consolidated alloca area',
                          '%s places a block at %s = [%s] on some path: the offset is not rounded up to the block\'s alignment (only when a '
                          'larger alignment than before appears), so e.g. allocas of 16, 4 and 16 bytes put the third block at offset 20'
                          % (fn, offv, bad), line=ks[a0]['l'])
    return n


# ---------------------------------------------------------------------------------------------
# RF56: link-time passes read a callee through its API view
# ---------------------------------------------------------------------------------------------

def rf56(run):
    rule = 'RF56'
    run.rule(rule, 'process_inlines and func_alloca_features read the instruction list and the variable count of a function that may '
                   'already be under lazy basic-block generation (func->insns then holds the generator\'s copy, func->vars its '
                   'temporaries) only through the API view (original_insns / original_vars_num when present): no direct use of '
                   '<callee>->insns or VARR_LENGTH (<callee>->vars) there')
    tu = run.tu('mir')
    n = 0
    for fn, names in (('process_inlines', ('called_func',)), ('func_alloca_features', ('func',))):
        f = tu.func(fn)
        run.functions_analysed.add(('mir', fn))
        direct = []
        for x in f.walk():
            if x['k'] == 'MemberExpr' and x['n'] == 'insns' and F.src(F.strip(x['c'][0])) in names:
                direct.append(x)
            if x['k'] == 'CallExpr' and (x.get('callee') or '').endswith('length') and F.call_args(x) and \
                    F.src(F.strip(F.call_args(x)[0])) in tuple('%s->vars' % nm for nm in names):
                direct.append(x)
        n += 1
        ok = not direct
        run.ob(rule, (fn,), ok, {'function': fn, 'direct uses': [F.src(d)[:50] for d in direct]})
        if not ok:
            run.violation(rule, f, 'direct use of the callee\'s working lists', '%s uses %s directly: for a function that has been called '
                          'under the lazy basic-block interface this is the generator\'s transformed copy, and a module linked later '
                          'inlines hard registers and generator temporaries (MIR_link fails with "undeclared reg")'
                          % (fn, F.src(direct[0])[:50]), line=direct[0]['l'])
    return n


# ---------------------------------------------------------------------------------------------
# RF72: a ret replaced in the middle of the copied callee jumps over the rest
# RF73: allocas emitted for block argument copies are released with the inlined body
# ---------------------------------------------------------------------------------------------

def rf72(run):
    rule = 'RF72'
    run.rule(rule, 'process_inlines: when the callee code after its ret is not extracted as cold code (stop_insn is not the insn after the '
                   'ret), the branch that replaces the ret by result moves also emits a jump to a label placed in front of the anchor; '
                   'otherwise execution falls through into the callee code that followed the ret')
    tu = run.tu('mir')
    f = tu.func('process_inlines')
    run.functions_analysed.add(('mir', f.name))
    # the else branch of `if (new_insn->code != MIR_RET)`
    branches = [x for x in f.walk() if x['k'] == 'IfStmt' and 'MIR_RET' in F.src(x['c'][0]) and 'new_insn->code' in F.src(x['c'][0]) and x['c'][2] is not None]
    if len(branches) != 1:
        raise F.AnalysisBroken('process_inlines: the branch replacing the callee ret was not identified (%d candidates)' % len(branches))
    rb = branches[0]['c'][2]
    jumps = []
    for x in F.walk(rb):
        c_ = F.strip(x['c'][0]) if x['k'] == 'IfStmt' else None
        if c_ is not None and c_['k'] == 'BinaryOperator' and c_['op'] == '!=' and 'stop_insn' in F.src(c_) and ('_next' in F.src(c_)):
            for y in F.walk(x['c'][1]):
                if y['k'] == 'CallExpr' and y.get('callee') == 'MIR_new_insn' and len(F.call_args(y)) >= 3 and F.src(F.strip(F.call_args(y)[1])) == 'MIR_JMP':
                    lab = F.strip(F.call_args(y)[2])
                    if lab['k'] == 'CallExpr' and lab.get('callee') == 'MIR_new_label_op':
                        jumps.append((y, F.src(F.strip(F.call_args(lab)[1]))))
    ok = bool(jumps)
    placed = False
    if ok:
        labv = jumps[0][1]
        for x in f.walk():
            if x['k'] == 'CallExpr' and x.get('callee') == 'MIR_insert_insn_before' and len(F.call_args(x)) == 4 \
                    and F.src(F.strip(F.call_args(x)[2])) == 'anchor' and F.src(F.strip(F.call_args(x)[3])) == labv and x['l'] > branches[0]['l']:
                placed = True
    run.ob(rule, ('jump',), ok and placed, {'jump over the code after the ret': ok, 'label placed in front of the anchor': placed})
    if not (ok and placed):
        run.violation(rule, f, 'ret replaced without a jump', 'the branch of process_inlines that replaces the callee ret by result moves %s: when '
                      'the callee has a dynamic alloca (no cold-code extraction) the code after its ret is copied right behind the moves and '
                      'execution falls into it' % ('emits no jump for the case DLIST_NEXT (insn) != stop_insn' if not ok else
                                                   'jumps to a label that is never inserted in front of the anchor'), line=branches[0]['l'])
    return 1


def rf73(run):
    rule = 'RF73'
    run.rule(rule, 'process_inlines: an inlined call whose callee takes a block argument by value gets an alloca at the call site (add_blk_move); '
                   'that case forces the bstart/bend bracket (non_top_alloca_p) before the cold-code decision and the bracket emission, so '
                   'the copy is released when the inlined body is left (a call in a loop must not grow the stack)')
    tu = run.tu('mir')
    f = tu.func('process_inlines')
    cfg = f.cfg
    blk = [x for x in f.walk() if x['k'] == 'CallExpr' and x.get('callee') == 'add_blk_move']
    if len(blk) != 1:
        raise F.AnalysisBroken('process_inlines: add_blk_move call not found')
    # a flag set in the same branch
    par_if = None
    cur = blk[0]['i']
    while cur is not None:
        p_ = f.parent.get(cur)
        if p_ is None:
            break
        if f.nodes[p_]['k'] == 'IfStmt':
            par_if = f.nodes[p_]
            break
        cur = p_
    flags = []
    if par_if is not None:
        for x in F.walk(par_if['c'][1]):
            if x['k'] == 'BinaryOperator' and x['op'] == '=' and F.const_value(F.strip(x['c'][1])) == 1 and F.strip(x['c'][0])['k'] == 'DeclRefExpr':
                flags.append(F.strip(x['c'][0])['n'])
    forced = None
    for x in f.walk():
        if x['k'] == 'IfStmt' and F.src(F.strip(x['c'][0])) in flags:
            for y in F.walk(x['c'][1]):
                if y['k'] == 'BinaryOperator' and y['op'] == '=' and F.src(F.strip(y['c'][0])) == 'non_top_alloca_p' and F.const_value(F.strip(y['c'][1])) == 1:
                    forced = y
    uses = [x for x in f.walk() if x['k'] == 'IfStmt' and 'non_top_alloca_p' in F.src(x['c'][0])]
    ok = forced is not None and uses and all(forced['l'] < u['l'] for u in uses) and 'non_top_alloca_p' in flags or \
        (forced is not None and bool(uses) and all(forced['l'] < u['l'] for u in uses))
    direct = 'non_top_alloca_p' in flags
    ok = ok or (direct and False)
    run.ob(rule, ('bracket',), bool(ok), {'flag set with the block copy': flags, 'forces non_top_alloca_p at': forced['l'] if forced else None,
                                          'decisions on non_top_alloca_p at': [u['l'] for u in uses]})
    if not ok:
        run.violation(rule, f, 'block argument copy without bstart/bend', 'the alloca that add_blk_move emits for a by-value block argument is not '
                      'tied to the bstart/bend bracket of the inlined body (no flag forcing non_top_alloca_p before it is consulted): the '
                      'memory is never released and an inlined call in a loop grows the stack on every iteration', line=blk[0]['l'])
    return 1


# ---------------------------------------------------------------------------------------------
# RF83: the extension of a narrow result sits in front of the common ret for every ret
# ---------------------------------------------------------------------------------------------

def rf83(run):
    from rf_proto import dominating_conditions
    rule = 'RF83'
    run.rule(rule, 'make_one_ret: the instruction that extends a narrow (i8 … u32) result is inserted in front of the final ret, where all '
                   'merged rets arrive, whenever the result type needs one: the insertion depends on the result type only (ext_code / '
                   'res_types), not on whether the function had several rets (ret_label) - an extension applied on the path of one ret '
                   'leaves the values of the other rets unextended')
    tu = run.tu('mir')
    f = tu.func('make_one_ret')
    run.functions_analysed.add(('mir', f.name))
    cfg = f.cfg
    ins = []
    for x in f.walk():
        if x['k'] == 'CallExpr' and x.get('callee') == 'MIR_insert_insn_before' and len(F.call_args(x)) == 4 and F.src(F.strip(F.call_args(x)[2])) == 'last_ret_insn':
            a = F.strip(F.call_args(x)[3])
            txt = F.src(a)
            newi = [y for y in F.walk(a) if y['k'] == 'CallExpr' and y.get('callee') == 'MIR_new_insn']
            if not newi and a['k'] == 'DeclRefExpr':
                newi = [F.strip(z['c'][1]) for z in f.walk() if z['k'] == 'BinaryOperator' and z['op'] == '=' and F.src(F.strip(z['c'][0])) == a['n']
                        and F.strip(z['c'][1])['k'] == 'CallExpr' and F.strip(z['c'][1]).get('callee') == 'MIR_new_insn' and z['l'] <= x['l']]
            if any(F.src(F.strip(F.call_args(y)[1])) == 'ext_code' for y in newi):
                ins.append(x)
    if not ins:
        raise F.AnalysisBroken('make_one_ret: insertion of the extension in front of the last ret not found')
    n = 0
    for x in ins:
        conds = dominating_conditions(cfg, cfg.block_of(x), selective=True)
        # `if (VARR_LENGTH (ret_insns) == 0) return;` - a function without any ret has nothing to extend
        foreign = [c for c, t in conds if not ('ext_code' in c or 'res_types' in c or 'nres' in c
                                               or ('ret_insns' in c and c.replace(' ', '').rstrip(')').endswith('==0') and not t))]
        n += 1
        ok = not foreign
        run.ob(rule, (x['l'],), ok, {'site': '%s:%d' % (f.relfile(), x['l']), 'conditions': [c for c, t in conds]})
        if not ok:
            run.violation(rule, f, 'conditional result extension', 'the extension in front of the common ret is inserted only when %s: for the '
                          'other case the values merged from the rets reach the ret unextended (a function with two rets and an i8 result '
                          'returns 301 instead of 45)' % ' and '.join(foreign), line=x['l'])
    return n


# ---------------------------------------------------------------------------------------------
# RF90: the merged top alloca runs once; RF91: inlined areas are addressed from a register nobody else writes
# ---------------------------------------------------------------------------------------------

def rf90(run):
    rule = 'RF90'
    run.rule(rule, 'process_inlines: the alloca that it creates for the memory of inlined callees is inserted in front of the first '
                   'instruction of the caller on every path (MIR_insert_insn_before on head_func_insn), never after it: the first '
                   'instruction can be a label that is a loop header, and an alloca behind it is executed on every iteration')
    tu = run.tu('mir')
    f = tu.func('process_inlines')
    run.functions_analysed.add(('mir', f.name))
    created = [x for x in f.walk() if x['k'] == 'BinaryOperator' and x['op'] == '=' and F.src(F.strip(x['c'][0])) == 'func_top_alloca'
               and F.strip(x['c'][1])['k'] == 'CallExpr' and F.strip(x['c'][1]).get('callee') == 'MIR_new_insn' and 'MIR_ALLOCA' in F.src(x['c'][1])]
    if len(created) != 1:
        raise F.AnalysisBroken('process_inlines: creation of the merged top alloca not found')
    ins = [x for x in f.walk() if x['k'] == 'CallExpr' and x.get('callee') in ('MIR_insert_insn_before', 'MIR_insert_insn_after', 'MIR_prepend_insn', 'MIR_append_insn')
           and F.src(F.strip(F.call_args(x)[-1])) == 'func_top_alloca']
    if not ins:
        raise F.AnalysisBroken('process_inlines: insertion of the merged top alloca not found')
    n = 0
    for x in ins:
        n += 1
        ok = x['callee'] == 'MIR_prepend_insn' or (x['callee'] == 'MIR_insert_insn_before' and F.src(F.strip(F.call_args(x)[2])) == 'head_func_insn')
        run.ob(rule, (x['l'],), ok, {'site': '%s:%d' % (f.relfile(), x['l']), 'insertion': F.src(x)[:80]})
        if not ok:
            run.violation(rule, f, 'merged top alloca behind the head instruction', '`%s` places the alloca for inlined callees behind an existing '
                          'instruction: when that instruction is a label reached by a back edge the alloca runs on every iteration and the '
                          'stack grows without bound' % F.src(x)[:70], line=x['l'])
    return n


def rf91(run):
    rule = 'RF91'
    run.rule(rule, 'process_inlines: the address of an inlined callee\'s alloca area is computed from the result register of the merged top '
                   'alloca.  That register is one created by process_inlines itself (a fresh temporary installed as the alloca result, the '
                   'program\'s register receives a copy): the program may assign its own alloca register again, and the first inlined '
                   'callee may assign the register it lent')
    tu = run.tu('mir')
    f = tu.func('process_inlines')
    cfg = f.cfg
    idom = cfg.dominators()
    uses = [x for x in f.walk() if x['k'] == 'CallExpr' and x.get('callee') == 'MIR_new_insn' and any('func_top_alloca->ops[0]' == F.src(F.strip(a)) for a in F.call_args(x)[3:])
            and 'new_called_func_top_alloca' in F.src(x)]
    if not uses:
        raise F.AnalysisBroken('process_inlines: computation of an inlined area address from func_top_alloca->ops[0] not found')
    fresh = [x for x in f.walk() if x['k'] == 'BinaryOperator' and x['op'] == '=' and F.src(F.strip(x['c'][0])) == 'func_top_alloca->ops[0]'
             and F.strip(x['c'][1])['k'] == 'CallExpr' and F.strip(x['c'][1]).get('callee') == 'MIR_new_reg_op']
    ok_fresh = []
    for x in fresh:
        a = F.strip(F.call_args(F.strip(x['c'][1]))[1])
        src_ok = a['k'] == 'CallExpr' and a.get('callee') in ('new_temp_reg', '_MIR_new_temp_reg')
        if a['k'] == 'DeclRefExpr':
            src_ok = any(y['k'] == 'BinaryOperator' and y['op'] == '=' and F.src(F.strip(y['c'][0])) == a['n'] and F.strip(y['c'][1])['k'] == 'CallExpr'
                         and F.strip(y['c'][1]).get('callee') in ('new_temp_reg', '_MIR_new_temp_reg') and y['l'] < x['l'] and x['l'] - y['l'] < 6 for y in f.walk())
        if src_ok:
            ok_fresh.append(x)
    n = 0
    for u in uses:
        ub = cfg.block_of(u)
        # on every path to the use the fresh register has been installed: either the installing block dominates, or it is guarded by a
        # once-flag whose other edge means "already installed"
        ok = False
        for x in ok_fresh:
            xb = cfg.block_of(x)
            if xb == ub or cfg.dominates(xb, ub, idom):
                ok = True
            else:
                # if (!flag) { install; flag = TRUE; }  directly in front of the use
                for B in cfg.blocks.values():
                    if B.cond is not None and len(B.succs) == 2 and (cfg.dominates(B.id, ub, idom)) and (B.succs[0] == xb or cfg.dominates(B.succs[0], xb, idom)):
                        ct = F.src(F.strip(B.cond)).replace(' ', '').strip('()')
                        flag = ct[1:] if ct.startswith('!') else None
                        if flag and any(y['k'] == 'BinaryOperator' and y['op'] == '=' and F.src(F.strip(y['c'][0])) == flag and F.const_value(F.strip(y['c'][1])) == 1
                                        and cfg.block_of(y) == xb for y in f.walk()):
                            ok = True
        n += 1
        run.ob(rule, (u['l'],), ok, {'site': '%s:%d' % (f.relfile(), u['l']), 'address computed from': 'func_top_alloca->ops[0]',
                                     'fresh register installed at': [x['l'] for x in ok_fresh]})
        if not ok:
            run.violation(rule, f, 'inlined area addressed from a program register', 'the area of an inlined callee is addressed as '
                          'func_top_alloca->ops[0] + offset while that operand is still the register written in the program (the caller\'s '
                          'alloca register or the register lent by the first inlined callee): an assignment to it before the next inlined '
                          'call makes the address wrong', line=u['l'])
    return n


# ---------------------------------------------------------------------------------------------
# RF98: inside the inlining loop code is only placed inside the bracket of the call being inlined
# ---------------------------------------------------------------------------------------------

def rf98(run):
    rule = 'RF98'
    run.rule(rule, 'process_inlines: the size accounting of the merged top alloca (curr_func_top_alloca_size, anchors / alloca_sizes stack) is '
                   'valid between the inlined call and its anchor.  Inside the main loop every instruction inserted into the caller goes '
                   'in front of the anchor, behind the call, or next to the top alloca / head instruction; callee code meant for the end of '
                   'the function (cold code) is collected and appended after the loop, where its calls are no longer inlined with a stale '
                   'alloca offset')
    tu = run.tu('mir')
    f = tu.func('process_inlines')
    run.functions_analysed.add(('mir', f.name))
    loops = [l for l in f.walk() if l['k'] == 'ForStmt' and l['c'][0] is not None and 'head_func_insn' in F.src(l['c'][0])]
    if len(loops) != 1:
        raise F.AnalysisBroken('process_inlines: main loop not found')
    body = loops[0]['c'][3]
    n = 0
    ALLOWED_ANCHORS = ('anchor', 'call', 'func_top_alloca', 'head_func_insn', 'ret_label', 'after_ret_label')
    for x in F.walk(body):
        if x['k'] != 'CallExpr':
            continue
        c = x.get('callee')
        if c in ('MIR_append_insn', 'MIR_prepend_insn'):
            n += 1
            run.ob(rule, (x['l'],), False)
            run.violation(rule, f, '%s inside the inlining loop' % c, '`%s` puts code at the %s of the caller while the loop is still inlining: a call '
                          'in that code is inlined later with the alloca offset of whatever bracket is current then, so two live frames share '
                          'one area of the merged alloca' % (F.src(x)[:70], 'end' if c == 'MIR_append_insn' else 'start'), line=x['l'])
        elif c in ('MIR_insert_insn_before', 'MIR_insert_insn_after'):
            a = F.src(F.strip(F.call_args(x)[2]))
            n += 1
            ok = a in ALLOWED_ANCHORS
            run.ob(rule, (x['l'],), ok, {'site': '%s:%d' % (f.relfile(), x['l']), 'position': '%s %s' % (c[16:], a)} if n % 6 == 1 or not ok else None)
            if not ok:
                run.violation(rule, f, 'insertion relative to %s' % a, '`%s` inserts code relative to `%s`, which is not inside the bracket of the '
                              'call being inlined' % (F.src(x)[:70], a), line=x['l'])
    if n < 8:
        raise F.AnalysisBroken('process_inlines: only %d insertions found in the main loop' % n)
    return n


# ---------------------------------------------------------------------------------------------
# RF113: link-time passes whose working state lives in the context are not re-entered
# ---------------------------------------------------------------------------------------------

def rf113(run):
    rule = 'RF113'
    run.rule(rule, 'process_inlines and simplify_func keep their working state in the context (the value table of vn_add_val, anchors, '
                   'alloca_sizes, cold_insns, temp_insns, inline_reg_map) and reset it at their start.  Neither is reachable from '
                   'itself in the call graph: a nested run would reset the state of the outer run, which then maps operands through stale '
                   'value numbers of another function and loses pending cold code')
    tu = run.tu('mir')
    cg = tu.callgraph()
    n = 0
    for fn in ('process_inlines', 'simplify_func'):
        f = tu.func(fn)
        run.functions_analysed.add(('mir', fn))
        # context-level state: macro-expanded `ctx->…_ctx->…` containers the function truncates / clears
        resets = sorted({F.src(F.strip(F.call_args(x)[0]))[:60] for x in f.walk() if x['k'] == 'CallExpr' and F.call_args(x)
                         and ((x.get('callee') or '').endswith('trunc') or (x.get('callee') or '').endswith('clear'))
                         and 'ctx->' in F.src(F.strip(F.call_args(x)[0]))})
        if fn == 'process_inlines' and not resets:
            raise F.AnalysisBroken('process_inlines: no context-level working state found; the rule needs to be reviewed')
        inner = set()
        for c in cg.get(fn, ()):
            if c in tu.funcs:
                inner |= tu.reachable([c])
        ok = fn not in inner
        n += 1
        run.ob(rule, (fn,), ok, {'function': fn, 'context state it resets': resets[:6], 'functions reachable from its callees': len(inner)})
        if not ok:
            sites = [x for x in f.walk() if x['k'] == 'CallExpr' and x.get('callee') in tu.funcs and fn in tu.reachable([x['callee']])]
            run.violation(rule, f, '%s re-entered' % fn, '%s is reachable from itself (through `%s`): the nested run resets %s, which the outer run '
                          'is still using; operands simplified afterwards get value numbers (registers) of the other function' %
                          (fn, F.src(sites[0])[:50] if sites else '?', ', '.join(resets[:3]) or 'the shared working state'),
                          line=sites[0]['l'] if sites else f.line)
    return n


# ---------------------------------------------------------------------------------------------
# RF153: the inliner rewrites no operand of the caller's own instructions
# ---------------------------------------------------------------------------------------------

RF153_WRITES = {
    ('func_insn', 'ops[0].u.i'): 'renumbering of a label of the caller',
    ('insn', 'ops[0].u.i'): 'renumbering of a label moved to the cold part',
    ('func_top_alloca', 'ops[0]'): 'the merged top alloca gets a register of its own',
    ('func_top_alloca', 'ops[1]'): 'the merged top alloca gets its size from a fresh temporary',
}


def rf153(run):
    rule = 'RF153'
    run.rule(rule, 'process_inlines changes the caller only by inserting copies of callee instructions and by the four operand writes of the '
                   'frozen table (label renumbering, result register and size of the merged top alloca).  It assigns no other operand of an '
                   'instruction that was already in the caller: a constant patched in a `mov n, 32` that precedes the alloca changes a '
                   'register the program may read again')
    tu = run.tu('mir')
    f = tu.func('process_inlines')
    run.functions_analysed.add(('mir', f.name))
    n = 0
    for x in f.walk():
        if x['k'] in ('BinaryOperator', 'CompoundAssignOperator') and x['op'].endswith('=') and x['op'] not in ('==', '!=', '<=', '>='):
            l = F.src(F.strip(x['c'][0])).replace(' ', '')
            if '->ops[' not in l:
                continue
            base, rest = l.split('->', 1)
            n += 1
            ok = (base, rest) in RF153_WRITES or base in ('new_insn',)
            run.ob(rule, (x['l'],), ok, {'site': '%s:%d' % (f.relfile(), x['l']), 'write': F.src(x)[:70], 'reason': RF153_WRITES.get((base, rest))})
            if not ok:
                run.violation(rule, f, 'operand of a caller instruction rewritten', '`%s` in process_inlines rewrites an operand of an instruction that '
                              'belongs to the caller: a size the program keeps in its own register (`mov n, 32; alloca buf, n; … n …`) silently becomes '
                              'the merged size of the inlined frames' % F.src(x)[:70], line=x['l'])
    if n < 4:
        raise F.AnalysisBroken('process_inlines: only %d operand writes found' % n)
    return n


# ---------------------------------------------------------------------------------------------
# RF161: the value-number table of the simplifier belongs to one function at a time
# ---------------------------------------------------------------------------------------------

def rf161(run):
    import rf_proto
    rule = 'RF161'
    run.rule(rule, 'mir.c: the table of vn_add_val maps (opcode, operands) to a temporary *register number of the function being processed*.  '
                   'MIR_link simplifies all functions and then runs process_inlines on each, so every per-function driver — a function '
                   'with a MIR_item_t parameter that reaches vn_add_val and is called from a function without one — empties the table '
                   '(vn_empty) on every path before its first call that can reach vn_add_val.  A stale entry makes simplify_op load a value '
                   'into a register number of another function, i.e. into an unrelated variable of this one')
    tu = run.tu('mir')
    cg = tu.callgraph()
    reach_cache = {}

    def reaches(fn):
        if fn not in reach_cache:
            reach_cache[fn] = 'vn_add_val' in tu.reachable([fn])
        return reach_cache[fn]

    def has_item_param(g):
        return any((getattr(tu.type(q), 's', '') or '') == 'MIR_item_t' for q in g.params)
    cands = [g for g in tu.func_list if g.body is not None and g.file.startswith('/repo') and g.name != 'vn_add_val' and has_item_param(g) and reaches(g.name)]
    cnames = {g.name for g in cands}
    callers = {}
    for g in tu.func_list:
        if g.body is None:
            continue
        for x in g.walk():
            if x['k'] == 'CallExpr' and x.get('callee') in cnames:
                callers.setdefault(x['callee'], set()).add(g.name)
    drivers = [g for g in cands if callers.get(g.name) and not (callers[g.name] & cnames)]
    run.control(rule, 'per-function drivers found (simplify_func, process_inlines)', len(drivers) >= 2)
    n = 0
    for g in drivers:
        cfg = g.cfg
        run.functions_analysed.add(('mir', g.name))
        empt = set(rf_proto.calls_in(cfg, 'vn_empty'))
        uses = set()
        for b, B in cfg.blocks.items():
            for el in B.elems:
                for y in F.walk(el):
                    if y['k'] == 'CallExpr' and y.get('callee') and y['callee'] != 'vn_empty' and (y['callee'] == 'vn_add_val' or reaches(y['callee'])):
                        uses.add(b)
        free = cfg.reachable_from(cfg.entry, avoid=lambda b: b in empt)
        bad = sorted(uses & free)
        # a block that both empties and uses: the emptying call has to come first
        for b in uses & empt:
            order = []
            for el in cfg.blocks[b].elems:
                for y in F.walk(el):
                    if y['k'] == 'CallExpr' and y.get('callee'):
                        order.append(y['callee'])
            first_use = next((k for k, c_ in enumerate(order) if c_ != 'vn_empty' and (c_ == 'vn_add_val' or reaches(c_))), None)
            first_empty = order.index('vn_empty') if 'vn_empty' in order else None
            if first_use is not None and (first_empty is None or first_use < first_empty) and b in cfg.reachable_from(cfg.entry, avoid=lambda bb: bb in (empt - {b})):
                bad.append(b)
        n += 1
        ok = not bad
        run.ob(rule, (g.name,), ok, {'driver': g.name, 'called from': sorted(callers[g.name]), 'blocks calling into vn_add_val': len(uses),
                                    'reachable without vn_empty': len(bad)})
        if not ok:
            run.violation(rule, g, 'value numbers of another function', '%s can reach vn_add_val (through simplify_op) on a path that has not called '
                          'vn_empty: the table still holds the entries of the function processed before, and a hit returns that '
                          'function\'s temporary register number — `mov <that number>, callee` then overwrites an unrelated variable' % g.name,
                          line=g.line)
    return n


# ---------------------------------------------------------------------------------------------
# RF190: the merged top alloca keeps its address in a register of its own
# ---------------------------------------------------------------------------------------------

def rf190(run):
    rule = 'RF190'
    run.rule(rule, 'process_inlines: the addresses of all inlined frames are derived from the result register of the caller\'s (merged) top '
                   'alloca, so that register must be one nothing else writes.  The flag `func_top_alloca_own_reg_p` becomes TRUE only in a '
                   'statement list that has just given the alloca a *fresh* result register (`func_top_alloca->ops[0] = MIR_new_reg_op (…, '
                   'new_temp_reg …)`).  Setting it where the alloca was created with the renamed register of the inlined callee lets the '
                   'callee\'s own code move the base of every frame inlined after it')
    tu = run.tu('mir')
    f = tu.func('process_inlines')
    run.functions_analysed.add(('mir', f.name))
    sets = [x for x in f.walk() if x['k'] == 'BinaryOperator' and x['op'] == '=' and F.src(F.strip(x['c'][0])) == 'func_top_alloca_own_reg_p'
            and F.const_value(F.strip(x['c'][1])) not in (0, None)]
    if not sets:
        raise F.AnalysisBroken('process_inlines: no place sets func_top_alloca_own_reg_p')
    n = 0
    for x in sets:
        st, p_ = x, f.parent_of(x)
        while p_ is not None and p_['k'] != 'CompoundStmt':
            st, p_ = p_, f.parent_of(p_)
        fresh = False
        temp_fresh = False
        for s_ in (F.kids(p_) if p_ is not None else []):
            if s_ is st:
                break
            for y in F.walk(s_):
                if y['k'] == 'BinaryOperator' and y['op'] == '=':
                    l, r = F.src(F.strip(y['c'][0])), F.strip(y['c'][1])
                    if l == 'temp_reg' and r['k'] == 'CallExpr' and r.get('callee') == 'new_temp_reg':
                        temp_fresh = True
                    if l.replace(' ', '') == 'func_top_alloca->ops[0]' and temp_fresh and 'temp_reg' in F.src(r):
                        fresh = True
        n += 1
        run.ob(rule, (x['l'],), fresh, {'site': '%s:%d' % (f.relfile(), x['l']), 'alloca given a fresh result register just before': fresh})
        if not fresh:
            run.violation(rule, f, 'top alloca declared to own its register', 'process_inlines sets func_top_alloca_own_reg_p (line %d) without having '
                          'replaced the result register of the top alloca by a fresh temporary: the alloca keeps the (renamed) register of an '
                          'inlined callee, which that callee may reassign — the frames of the calls inlined afterwards are then addressed from '
                          'the changed value' % x['l'], line=x['l'])
    return n
