"""Property -> rule families.  Each entry is a list of callables taking the Run context."""
import rf_alloc, rf_state, rf_tables, rf_sig


def c17_rf1(run):
    rf_alloc.rf1(run)
    run.min_instances('RF1', 2500)
    sh = run.shadow()
    rf_alloc.rf1(sh, units=(run.control_tu('rf1_control.c'),))
    got = {(f.func, f.slots.get('callee')) for f in sh.findings}
    run.control('RF1', 'rf1_control.c', {('drop', 'free'), ('dup', 'strdup')} <= got
                and any('mismatch' in f.msg for f in sh.findings if f.func == 'drop'))


def c17_rf3(run):
    n = rf_alloc.rf3(run)
    run.min_instances('RF3', 2)


def c18_rf5(run):
    rf_state.rf5(run)
    rf_state.nonreentrant(run)
    run.min_instances('RF5', 100)
    sh = run.shadow()
    rf_state.rf5(sh, units=(run.control_tu('rf5_control.c'),))
    got = {f.construct.split(':')[0] for f in sh.findings}
    run.control('RF5', 'rf5_control.c', got == {'static counter', 'static shared_box', 'static table', 'static id'})


def c15_rf17(run):
    rf_tables.rf17(run)
    run.min_instances('RF17', 500)


def c02_rf8(run):
    rf_sig.rf8(run, engines=('interp', 'folder'))
    run.min_instances('RF8', 250)
    rf_sig.rf8_control(run)


def c20_rf8(run):
    rf_sig.rf8(run, engines=('mir2c',))
    run.min_instances('RF8', 120)
    rf_sig.rf8_control(run)


PLAN = {
    'C02': [c02_rf8],
    'C20': [c20_rf8],
    'C15': [c15_rf17],
    'C18': [c18_rf5],
    'C17': [c17_rf1, c17_rf3],
}
