"""Property -> rule families.  Each entry is a list of callables taking the Run context."""
import rf_alloc, rf_state


def c17_rf1(run):
    rf_alloc.rf1(run)
    run.min_instances('RF1', 2500)
    sh = run.shadow()
    rf_alloc.rf1(sh, units=(run.control_tu('rf1_control.c'),))
    got = {(f.func, f.slots.get('callee')) for f in sh.findings}
    run.control('RF1', 'rf1_control.c', {('drop', 'free'), ('dup', 'strdup')} <= got
                and any('mismatch' in f.msg for f in sh.findings if f.func == 'drop'))


def c17_rf3(run):
    n = rf_alloc.rf3(run)
    run.min_instances('RF3', 2)


def c18_rf5(run):
    rf_state.rf5(run)
    rf_state.nonreentrant(run)
    run.min_instances('RF5', 100)
    sh = run.shadow()
    rf_state.rf5(sh, units=(run.control_tu('rf5_control.c'),))
    got = {f.construct.split(':')[0] for f in sh.findings}
    run.control('RF5', 'rf5_control.c', got == {'static counter', 'static shared_box', 'static table', 'static id'})


PLAN = {
    'C18': [c18_rf5],
    'C17': [c17_rf1, c17_rf3],
}
