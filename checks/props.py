"""Property -> rule families.  Each entry is a list of callables taking the Run context."""
import rf_alloc, rf_state, rf_tables, rf_sig, rf_union, rf_flow, rf_vocab, rf_mir2c, rf_code, rf_bounds, rf_fold, rf_proto, rf_dispatch, rf_keys, rf_abi, rf_x86, rf_inline, rf_templates
import rf_iface, rf_callmode
import re as _re, functools as _ft, traceback as _tb, os as _os
from lib import facts as _F


def _isolate(fn):
    """a rule that cannot classify what it sees reports ANALYSIS-BROKEN for itself; the other rules of the property still run"""
    @_ft.wraps(fn)
    def w(run, *a, **k):
        import signal as _sig

        class _Budget(Exception):
            pass

        def _on_alarm(signum, frame):
            raise _Budget()
        nested = getattr(w, '_active', 0)
        w.__dict__['_active'] = nested + 1
        old_handler = None
        if not _isolate.depth:
            old_handler = _sig.signal(_sig.SIGALRM, _on_alarm)
            _sig.alarm(int(_os.environ.get('VERIF_RULE_BUDGET_S', '180')))
        _isolate.depth += 1
        try:
            return fn(run, *a, **k)
        except _Budget:
            run.analysis_broken(fn.__name__, 'the rule did not finish within its time budget (a construct makes the evaluation blow up): no verdict')
        except _F.AnalysisBroken as ex:
            run.analysis_broken(fn.__name__.upper().replace('RF', 'RF', 1), str(ex))
        except Exception as ex:  # an internal error of one rule must not hide the verdicts of the others
            tb = _tb.format_exc().strip().splitlines()
            run.analysis_broken(fn.__name__, 'internal error %s: %s @ %s' % (type(ex).__name__, ex, tb[-3].strip() if len(tb) >= 3 else ''))
            if _os.environ.get('VERIF_DEBUG'):
                _tb.print_exc()
        finally:
            _isolate.depth -= 1
            if not _isolate.depth:
                _sig.alarm(0)
                if old_handler is not None:
                    _sig.signal(_sig.SIGALRM, old_handler)
    return w


_isolate.depth = 0


for _m in (rf_alloc, rf_state, rf_tables, rf_sig, rf_union, rf_flow, rf_vocab, rf_mir2c, rf_code, rf_bounds, rf_fold, rf_proto, rf_dispatch,
           rf_keys, rf_abi, rf_x86, rf_inline, rf_templates, rf_iface, rf_callmode):
    for _n in dir(_m):
        if _re.fullmatch(r'rf\d+[a-z]?(_[a-z0-9]+)?', _n) and callable(getattr(_m, _n)):
            setattr(_m, _n, _isolate(getattr(_m, _n)))

from lib import facts as F


def c17_rf1(run):
    rf_alloc.rf1(run)
    run.min_instances('RF1', 2500)
    sh = run.shadow()
    rf_alloc.rf1(sh, units=(run.control_tu('rf1_control.c'),))
    got = {(f.func, f.slots.get('callee')) for f in sh.findings}
    run.control('RF1', 'rf1_control.c', {('drop', 'free'), ('dup', 'strdup')} <= got
                and any('mismatch' in f.msg for f in sh.findings if f.func == 'drop'))


def c17_rf3(run):
    n = rf_alloc.rf3(run)
    run.min_instances('RF3', 2)


def c18_rf5(run):
    rf_state.rf5(run, units=('mir', 'gen', 'c2mir', 'mir2c'))
    rf_state.nonreentrant(run)
    run.min_instances('RF5', 100)
    rf_state.rf5s(run)
    sh = run.shadow()
    rf_state.rf5(sh, units=(run.control_tu('rf5_control.c'),))
    got = {f.construct.split(':')[0] for f in sh.findings}
    run.control('RF5', 'rf5_control.c', got == {'static counter', 'static shared_box', 'static table', 'static id'})


def c15_rf17(run):
    rf_tables.rf17(run)
    run.min_instances('RF17', 500)
    rf_flow.rf67(run, units=('mir',))
    run.min_instances('RF67', 60)


def c15_rf19(run):
    rf_tables.rf19_mem(run)
    run.min_instances('RF19', 150)
    rf_callmode.rf19c(run)
    rf_callmode.rf19d(run)
    rf_tables.rf19e(run)
    rf_callmode.rf81(run)
    run.min_instances('RF81', 10)
    rf_tables.rf94(run)
    run.min_instances('RF94', 150)
    rf_proto.rf102(run)
    rf_tables.rf134(run)
    rf_tables.rf145(run)
    rf_tables.rf154(run)
    rf_tables.rf169(run)
    rf_tables.rf184(run)
    rf_tables.rf195(run)
    rf_tables.rf201(run)


def c15_rf16h(run):
    rf_flow.rf16h(run)
    run.min_instances('RF16h', 2)


def c02_rf8(run):
    rf_sig.rf8(run, engines=('interp', 'folder'))
    run.min_instances('RF8', 250)
    rf_sig.rf8_control(run)


def c20_rf8(run):
    rf_sig.rf8(run, engines=('mir2c',))
    run.min_instances('RF8', 120)
    rf_sig.rf8_control(run)


TEXT_IO = ('MIR_output', 'MIR_output_module', 'MIR_output_item', 'MIR_output_insn', 'MIR_output_op', 'MIR_output_str',
           'MIR_scan_string')
BIN_IO = ('MIR_write', 'MIR_write_module', 'MIR_write_with_func', 'MIR_write_module_with_func', 'MIR_read', 'MIR_read_with_func')


def rf6_control(run):
    sh = run.shadow()
    rf_union.rf6(sh, run.control_tu('rf6_control.c'), level='incomplete')
    got = {(f.func, 'incomplete' in f.msg) for f in sh.findings}
    run.control('RF6', 'rf6_control.c', got == {('print_item', True), ('print_op', False)})


def rf20_control(run):
    sh = run.shadow()
    rf_flow.rf20(sh, [run.control_tu('rf20_control.c')])
    run.control('RF20', 'rf20_control.c', {f.func for f in sh.findings} == {'stuck'})


def io_funcs(run, entries):
    tu = run.tu('mir')
    missing = [e for e in entries if e not in tu.funcs]
    if missing:
        raise F.AnalysisBroken('entry points not found in mir.c: %s' % ', '.join(missing))
    return tu.reachable(entries)


def c10_rf6(run):
    fs = io_funcs(run, TEXT_IO)
    n = rf_union.rf6(run, 'mir', functions=fs, level='incomplete')
    run.min_instances('RF6', 60)
    rf6_control(run)
    rf_flow.rf20(run, ['mir'], functions=fs)
    run.min_instances('RF20', 5)
    rf20_control(run)


def c11_rf6(run):
    fs = io_funcs(run, BIN_IO)
    rf_union.rf6(run, 'mir', functions=fs, level='incomplete')
    run.min_instances('RF6', 40)
    rf6_control(run)
    rf_flow.rf20(run, ['mir'], functions=fs)
    run.min_instances('RF20', 5)
    rf20_control(run)


def c20_rf6(run):
    rf_union.rf6(run, 'mir2c', level='incomplete')
    run.min_instances('RF6', 40)
    rf6_control(run)
    rf_flow.rf20(run, ['mir2c'])
    run.min_instances('RF20', 5)
    rf20_control(run)


def c20_rf21(run):
    rf_mir2c.rf21(run)
    rf_mir2c.rf57(run)
    run.min_instances('RF57', 13)
    rf_mir2c.rf58(run)
    rf_mir2c.rf59(run)
    run.min_instances('RF59', 19)
    rf_mir2c.rf60(run)
    run.min_instances('RF60', 2)
    rf_mir2c.rf61(run)
    run.min_instances('RF61', 40)
    rf_mir2c.rf92(run)
    run.min_instances('RF92', 10)
    rf_mir2c.rf93(run)
    rf_mir2c.rf95(run)
    run.min_instances('RF95', 6)
    rf_vocab.rf103(run)
    rf_mir2c.rf139(run)
    rf_mir2c.rf156(run)
    rf_mir2c.rf167(run)
    rf_mir2c.rf175(run)
    rf_vocab.rf118(run, True)
    rf_proto.rf117(run)
    rf_mir2c.rf112(run)
    sh = run.shadow()
    rf_mir2c.rf112(sh, units=(run.control_tu('rf112_control.c'),))
    run.control('RF112', 'rf112_control.c', {f.func for f in sh.findings} == {'print_bad'})
    run.min_instances('RF21', 8)
    rf_vocab.rf37(run, 'mir2c', ('MIR_module2c',))
    run.min_instances('RF37', 3)


def c11_vocab(run):
    rf_vocab.rf7d(run)
    run.min_instances('RF7d', 50)
    rf_vocab.rf15(run)
    run.min_instances('RF15', 3)
    rf_vocab.rf7j(run)
    run.min_instances('RF7j', 8)
    rf_vocab.rf7k(run)
    rf_vocab.rf75(run)
    rf_vocab.rf82(run)
    run.min_instances('RF82', 40)
    rf_vocab.rf96(run)
    rf_bounds.rf88(run)
    rf_vocab.rf85b(run)
    rf_vocab.rf115(run)
    rf_vocab.rf121(run)
    rf_vocab.rf176(run)
    rf_vocab.rf191(run)
    rf_bounds.rf13s(run)   # the binary form is written through the compressor
    rf_bounds.rf183(run)
    rf_vocab.rf129(run)


def c10_vocab(run):
    rf_vocab.rf7c(run)
    run.min_instances('RF7c', 30)
    rf_vocab.rf22(run)
    run.min_instances('RF22', 1)
    rf_vocab.rf22b(run)
    rf_vocab.rf7k(run)
    rf_vocab.rf37(run, 'mir', ('MIR_output', 'MIR_output_item', 'MIR_output_insn', 'MIR_output_op', 'MIR_output_module'))
    run.min_instances('RF37', 6)
    rf_vocab.rf15(run)
    run.min_instances('RF15', 3)
    rf_vocab.rf80(run)
    rf_vocab.rf85(run)
    rf_vocab.rf103(run)
    rf_vocab.rf106(run)
    rf_vocab.rf116(run)
    rf_vocab.rf118(run, False)
    rf_vocab.rf143(run)
    rf_vocab.rf159(run)
    rf_vocab.rf172(run)
    rf_vocab.rf192(run)


def c17_rf2(run):
    rf_alloc.rf2(run)
    run.min_instances('RF2', 300)
    rf_alloc.rf27(run)
    run.min_instances('RF27', 3)
    rf_alloc.rf2b(run)
    rf_alloc.rf78(run)
    run.min_instances('RF78', 30)
    rf_alloc.rf78b(run, units=('gen', 'mir'))
    rf_alloc.rf109(run)
    rf_alloc.rf122(run)
    rf_alloc.rf130(run)
    rf_alloc.rf137(run)
    rf_alloc.rf152(run)
    rf_alloc.rf164(run)
    rf_alloc.rf181(run)
    rf_alloc.rf185(run)
    rf_alloc.rf189(run)
    rf_proto.rf163(run)
    rf_proto.rf165(run)
    run.min_instances('RF78b', 20)


def c17_rf4(run):
    rf_code.rf4(run)
    run.min_instances('RF4', 15)
    rf_code.rf4d(run)
    run.min_instances('RF4d', 10)


def c12_rf13(run):
    rf_bounds.rf13(run)
    run.min_instances('RF13', 4)
    sh = run.shadow()
    rf_bounds.rf13(sh, header='rf13_control.c', unit=run.control_tu('rf13_control.c'))
    got = sorted(f.construct.split(' ')[0] for f in sh.findings)
    run.control('RF13', 'rf13_control.c', got == ['callback', 'destination', 'index'])
    rf_bounds.rf13w(run)
    run.min_instances('RF13w', 257)
    rf_bounds.rf13h(run)
    run.min_instances('RF13h', 3)
    rf_bounds.rf88(run)
    rf_bounds.rf13s(run)
    run.min_instances('RF13s', 3)
    rf_bounds.rf13_exits(run)
    run.min_instances('RF13e', 8)
    rf_bounds.rf13c(run)
    rf_bounds.rf105(run)
    rf_bounds.rf135(run)
    rf_bounds.rf146(run)
    rf_bounds.rf160(run)
    rf_bounds.rf173(run)
    rf_bounds.rf183(run)
    run.min_instances('RF13c', 2)


def c11_rf14(run):
    rf_bounds.rf14(run, BIN_IO[:4])
    run.min_instances('RF14', 1)
    rf_bounds.rf13c(run)
    run.min_instances('RF13c', 2)


def c02_rf23(run):
    rf_fold.rf23(run)
    run.min_instances('RF23', 70)
    rf_fold.rf25(run)
    sh = run.shadow()
    rf_fold.rf25(sh, units=(run.control_tu('rf25_control.c'),))
    run.control('RF25', 'rf25_control.c', {f.func for f in sh.findings} == {'mask_bad'})


def c01_rf18(run):
    rf_flow.rf18(run, units=('mir', 'gen'))
    run.min_instances('RF18', 40)
    rf_flow.rf33(run)
    rf_flow.rf32(run)
    rf_flow.rf36(run)
    rf_flow.rf43(run)
    rf_flow.rf44(run)
    rf_fold.rf49(run)
    rf_flow.rf52(run)
    rf_flow.rf54(run)
    rf_flow.rf55(run)
    rf_flow.rf62(run)
    run.min_instances('RF62', 4)
    rf_flow.rf30(run)
    rf_flow.rf68(run)
    run.min_instances('RF68', 18)
    rf_flow.rf69(run)
    run.min_instances('RF69', 2)
    rf_flow.rf70(run)
    run.min_instances('RF70', 4)
    rf_flow.rf18b(run)
    rf_flow.rf32t(run)
    run.min_instances('RF32t', 56)
    rf_flow.rf97(run)
    rf_flow.rf99(run)
    rf_flow.rf67(run, units=('gen',))
    rf_flow.rf114(run)
    rf_fold.rf48b(run)
    rf_flow.rf131(run)
    rf_proto.rf138(run)
    rf_x86.rf140(run)
    rf_flow.rf148(run)
    rf_fold.rf149(run)
    rf_flow.rf179(run)
    rf_flow.rf198(run)


def c04_rf18(run):
    rf_flow.rf18(run, units=('mir',))
    run.min_instances('RF18', 8)
    rf_dispatch.rf7e(run)
    run.min_instances('RF7e', 18)
    rf_dispatch.rf7g(run)
    run.min_instances('RF7g', 60)
    rf_dispatch.rf7b(run, units=('mir',))
    rf_inline.rf28(run)
    run.min_instances('RF28', 3)
    rf_inline.rf29(run)
    run.min_instances('RF29', 3)
    rf_proto.rf16j(run)
    rf_fold.rf38(run)
    rf_fold.rf41(run)
    rf_inline.rf45(run)
    rf_inline.rf46(run)
    rf_inline.rf50(run)
    rf_inline.rf51(run)
    rf_inline.rf56(run)
    rf_inline.rf72(run)
    rf_inline.rf73(run)
    rf_inline.rf83(run)
    rf_inline.rf90(run)
    rf_inline.rf91(run)
    rf_inline.rf98(run)
    rf_inline.rf113(run)
    rf_fold.rf48b(run)
    rf_fold.rf142(run)
    rf_inline.rf153(run)
    rf_inline.rf161(run)
    rf_fold.rf180(run)
    rf_inline.rf190(run)
    rf_fold.rf100(run)
    rf_fold.rf200(run)
    rf_flow.rf71(run, units=('mir',))
    run.min_instances('RF71', 3)
    rf_fold.rf48(run)


def c16_rf16(run):
    rf_proto.rf16a(run)
    rf_proto.rf16b(run)
    rf_proto.rf16i(run)
    run.min_instances('RF16a', 5)
    run.min_instances('RF16b', 4)
    rf_proto.rf16j(run)
    rf_proto.rf16k(run)
    rf_iface.rf42b(run)
    rf_inline.rf56(run)
    rf_proto.rf107(run)
    rf_proto.rf120(run)
    rf_iface.rf31b(run)
    rf_iface.rf132(run)
    rf_proto.rf66(run)
    rf_proto.rf163(run)
    rf_proto.rf16f(run)
    rf_proto.rf171(run)
    rf_templates.rf11(run)
    rf_proto.rf199(run)
    run.min_instances('RF66', 4)
    rf_x86.rf77(run)
    rf_dispatch.rf7g(run)
    run.min_instances('RF7g', 60)


def c13_rf16(run):
    rf_proto.rf16c(run)
    rf_proto.rf16d(run)
    rf_proto.rf16e(run)
    run.min_instances('RF16d', 8)
    run.min_instances('RF16e', 4)
    rf_proto.rf24(run)
    run.min_instances('RF24', 12)
    rf_proto.rf16l(run)
    rf_proto.rf79(run)
    rf_proto.rf108(run)
    rf_proto.rf123(run)
    rf_proto.rf136(run)
    rf_proto.rf138(run)
    rf_proto.rf150(run)
    rf_proto.rf157(run)
    rf_proto.rf158(run)
    rf_proto.rf168(run)
    rf_proto.rf196(run)


def c14_rf16f(run):
    rf_proto.rf16f(run)
    run.min_instances('RF16f', 15)
    rf_dispatch.rf7f(run)
    rf_proto.rf16d(run)
    run.min_instances('RF16d', 8)
    rf_flow.rf53(run)
    rf_proto.rf76(run)
    rf_proto.rf79(run)
    rf_iface.rf89(run)
    rf_proto.rf128(run)
    rf_iface.rf132(run)
    rf_iface.rf151(run)
    rf_proto.rf16m(run)
    rf_proto.rf162(run)
    rf_proto.rf171(run)
    rf_proto.rf188(run)
    rf_proto.rf194(run)


def c02_rf7a(run):
    rf_dispatch.rf7a(run)
    run.min_instances('RF7a', 600)


def c15_rf7b(run):
    rf_dispatch.rf7b(run, units=('mir', 'gen'))
    run.min_instances('RF7b', 1)


def c20_rf7h(run):
    rf_dispatch.rf7h_mir2c(run)
    run.min_instances('RF7h', 150)


def c03_rf11(run):
    rf_templates.rf11(run)
    run.min_instances('RF11', 40)
    rf_templates.rf11a(run)
    rf_dispatch.rf7g(run)
    run.min_instances('RF7g', 60)
    rf_code.rf4(run)
    rf_code.rf4d(run)
    rf_iface.rf31a(run)
    rf_iface.rf31b(run)
    rf_flow.rf33(run)
    rf_iface.rf42(run)
    rf_iface.rf47(run)
    rf_flow.rf52(run)
    rf_flow.rf53(run)
    rf_inline.rf56(run)
    rf_x86.rf64(run)
    run.min_instances('RF64', 10)
    rf_x86.rf77(run)
    rf_iface.rf89(run)
    rf_x86.rf104(run)
    rf_x86.rf124(run)
    rf_proto.rf165(run)
    rf_iface.rf177(run)
    rf_keys.rf182(run)
    rf_abi.rf187(run)
    rf_iface.rf193(run)
    rf_iface.rf132(run)
    rf_iface.rf147(run)
    rf_iface.rf151(run)
    rf_abi.rf111(run)


def c06_rf11(run):
    rf_templates.rf11(run)
    run.min_instances('RF11', 40)
    rf_flow.rf30(run)
    run.min_instances('RF30', 3)


def c05_rf12(run):
    rf_keys.rf12(run)
    run.min_instances('RF12', 25)
    rf_keys.rf12b(run)
    rf_keys.rf182(run)
    rf_abi.rf187(run)
    run.min_instances('RF12b', 100)
    rf_alloc.rf3b(run, units=('mir',))
    run.min_instances('RF3b', 100)
    rf_iface.rf47(run)


def c05_rf10(run):
    rf_abi.rf10(run)
    run.min_instances('RF10', 24)
    rf_abi.rf10b(run)
    run.min_instances('RF10b', 12)
    rf_abi.rf10c(run)
    run.min_instances('RF10c', 6)
    rf_abi.rf10d(run)
    run.min_instances('RF10d', 1)
    rf_abi.rf10e(run)
    rf_abi.rf10h(run)
    rf_abi.rf10i(run)
    rf_abi.rf10j(run)
    rf_abi.rf84(run)
    rf_abi.rf65(run)
    run.min_instances('RF65', 2)
    rf_flow.rf32(run)
    rf_templates.rf74(run)
    rf_flow.rf97(run)
    rf_dispatch.rf7e(run, units=('gen',), expect=1)
    rf_dispatch.rf7f(run)
    run.min_instances('RF7f', 30)
    rf_abi.rf126(run)
    rf_abi.rf133(run)
    rf_abi.rf144(run)
    rf_templates.rf174(run)
    rf_flow.rf178(run)
    rf_fold.rf23(run)


def c06_rf10(run):
    rf_abi.rf10(run)
    run.min_instances('RF10', 24)
    rf_abi.rf10b(run)
    run.min_instances('RF10b', 12)
    rf_abi.rf10e(run)
    rf_abi.rf10f(run)
    rf_abi.rf10g(run)
    rf_abi.rf65(run)
    run.min_instances('RF65', 2)
    rf_flow.rf43(run)
    rf_dispatch.rf7f(run)
    run.min_instances('RF7f', 30)
    rf_abi.rf111(run)
    rf_abi.rf127(run)
    rf_abi.rf133(run)
    rf_iface.rf147(run)
    rf_fold.rf23(run)
    rf_abi.rf155(run)
    rf_fold.rf166(run)
    rf_abi.rf126(run)
    rf_abi.rf186(run)


def c02_rf9(run):
    rf_x86.rf9(run)
    run.min_instances('RF9', 1500)
    rf_x86.rf7i(run)
    run.min_instances('RF7i', 40)
    rf_x86.rf9m(run)
    rf_x86.rf63(run)
    run.min_instances('RF63', 5)
    rf_x86.rf64(run)
    run.min_instances('RF64', 10)
    rf_x86.rf101(run)


def c02_rf26(run):
    rf_fold.rf26(run)
    run.min_instances('RF26', 10)
    rf_fold.rf34(run)
    rf_fold.rf38(run)
    rf_fold.rf38b(run)
    rf_fold.rf39(run)
    rf_fold.rf40(run)
    rf_fold.rf41(run)
    rf_fold.rf48(run)
    rf_inline.rf51(run)
    rf_fold.rf86(run)
    rf_fold.rf87(run)
    rf_fold.rf100(run)
    rf_fold.rf200(run)
    rf_x86.rf110(run)
    rf_fold.rf141(run)
    rf_fold.rf170(run)
    rf_flow.rf197(run)
    rf_fold.rf149(run)


PLAN = {
    'C03': [c03_rf11],
    'C05': [c05_rf10, c05_rf12],
    'C06': [c06_rf10, c06_rf11, c02_rf9],
    'C13': [c13_rf16],
    'C14': [c14_rf16f],
    'C16': [c16_rf16],
    'C01': [c02_rf8, c02_rf23, c01_rf18, c02_rf26, c02_rf9],
    'C04': [c04_rf18],
    'C12': [c12_rf13],
    'C10': [c10_rf6, c10_vocab],
    'C11': [c11_rf6, c11_vocab, c11_rf14],
    'C02': [c02_rf8, c02_rf23, c02_rf7a, c02_rf26, c02_rf9],
    'C20': [c20_rf8, c20_rf6, c20_rf21, c20_rf7h],
    'C15': [c15_rf17, c15_rf16h, c15_rf7b, c15_rf19],
    'C18': [c18_rf5, c17_rf4],
    'C17': [c17_rf1, c17_rf2, c17_rf3, c17_rf4],
}


# ---------------------------------------------------------------------------------------------
# thorough tier: the quick rules plus wider scopes, a second configuration and a compiler cross-reference
# ---------------------------------------------------------------------------------------------
import subprocess


def t_rf6_all(units):
    def fn(run):
        for u in units:
            rf_union.rf6(run, u, level='incomplete')
    fn.__name__ = 'thorough_rf6_all_' + '_'.join(units)
    return fn


def t_rf6_assertions(units):
    """second configuration: with assertions enabled the asserted tag tests become path knowledge; union reads that contradict
    an assertion are reported too (can only add findings)"""
    def fn(run):
        for u in units:
            tu = run.tu(u, extra_flags=('-UNDEBUG',))
            rf_union.rf6(run, tu, level='contradiction')
    fn.__name__ = 'thorough_rf6_assertions_' + '_'.join(units)
    return fn


def t_rf20_all(units):
    def fn(run):
        rf_flow.rf20(run, list(units))
    fn.__name__ = 'thorough_rf20_' + '_'.join(units)
    return fn


def t_rf25_all(run):
    rf_fold.rf25(run, units=('gen', 'mir', 'c2mir', 'mir2c'))


def t_clang_xref(files):
    """independent cross-reference, reported as INFO only: clang's own switch/fallthrough/uninitialised diagnostics"""
    def fn(run):
        for rel in files:
            cmd = ['clang', '-fsyntax-only', '-DMIR_PARALLEL_GEN', '-I' + F.REPO, '-std=gnu11', '-fsigned-char', '-DNDEBUG',
                   '-Wno-everything', '-Wswitch', '-Wimplicit-fallthrough', '-Wconditional-uninitialized', '-Wsometimes-uninitialized',
                   os.path.join(F.REPO, rel)]
            try:
                p = subprocess.run(cmd, capture_output=True, text=True, timeout=300)
                warns = [l for l in p.stderr.splitlines() if 'warning:' in l]
                run.info('clang-xref', '%s: %d clang diagnostics (-Wswitch -Wimplicit-fallthrough -W*-uninitialized)' % (rel, len(warns)))
                for w in warns[:20]:
                    run.info('clang-xref', w[:200])
            except Exception as ex:
                run.info('clang-xref', '%s: clang cross-reference not run (%s)' % (rel, type(ex).__name__))
    fn.__name__ = 'thorough_clang_xref'
    return fn


import os
def t_rf59_all(run):
    rf_mir2c.rf59(run, exhaustive=True)
    run.min_instances('RF59', 1000)


THOROUGH = {
    'C01': [t_rf25_all, t_clang_xref(['mir-gen.c'])],
    'C02': [t_rf25_all, t_rf6_assertions(['mir']), t_clang_xref(['mir.c', 'mir-gen.c'])],
    'C04': [t_rf6_all(['mir'])],
    'C05': [t_rf6_assertions(['mir'])],
    'C06': [t_rf6_assertions(['gen'])],
    'C10': [t_rf6_all(['mir']), t_rf6_assertions(['mir']), t_rf20_all(['mir'])],
    'C11': [t_rf6_all(['mir']), t_rf6_assertions(['mir']), t_rf20_all(['mir'])],
    'C12': [t_rf20_all(['mir'])],
    'C13': [t_rf6_all(['mir'])],
    'C14': [t_rf6_all(['mir'])],
    'C15': [t_rf6_all(['mir']), t_rf6_assertions(['mir'])],
    'C16': [t_rf6_all(['gen']), t_rf20_all(['gen'])],
    'C17': [t_rf20_all(['mir', 'gen', 'c2mir']), t_clang_xref(['c2mir/c2mir.c'])],
    'C18': [t_clang_xref(['mir.c', 'mir-gen.c', 'c2mir/c2mir.c'])],
    'C20': [t_rf6_assertions(['mir2c']), t_clang_xref(['mir2c/mir2c.c']), t_rf59_all],
}
