"""RF23 extension-pair folding table: the generator's decision which of two stacked extensions survives, checked over its
whole finite domain against the arithmetic definition of sign/zero extension."""
import itertools
from lib import facts as F
from lib import enumflow as EF
from lib import regions as R
from lib import absint as AI

WIDTHS = (8, 16, 32)
SAMPLES = [0, 1, 0x7f, 0x80, 0xff, 0x100, 0x7fff, 0x8000, 0xffff, 0x10000, 0x7fffffff, 0x80000000, 0xffffffff,
           0x100000000, 0x123456789abcdef0, 0xfedcba9876543210, 0x8000000000000000, 0xffffffffffffffff,
           0x00000000ffff8000, 0xffffffff00008080, 0x80808080, 0x7f7f7f7f7f7f7f7f]
M64 = (1 << 64) - 1


def ext(x, w, signed):
    x &= (1 << w) - 1
    if signed and x >> (w - 1):
        x |= M64 & ~((1 << w) - 1)
    return x


def truth(w, s, w2, s2):
    """which single extension equals ext(w,s) applied after ext(w2,s2)?"""
    both = [ext(ext(x, w2, s2), w, s) for x in SAMPLES]
    res = set()
    if both == [ext(x, w, s) for x in SAMPLES]:
        res.add('outer')
    if both == [ext(x, w2, s2) for x in SAMPLES]:
        res.add('inner')
    return res


def rf23(run):
    rule = 'RF23'
    run.rule(rule, 'generator: for every pair (outer ext of width w/sign s applied to inner ext of width w2/sign s2) over {8,16,32}² × '
                   '{signed,unsigned}², the branch the code takes (keep the outer opcode / take the inner opcode) is one that the '
                   'arithmetic of sign and zero extension allows; get_ext_params maps each ext opcode to its width and signedness')
    tu = run.tu('gen')
    preds = EF.Predicates(tu)
    codes = dict(tu.enum('MIR_insn_code_t'))
    # --- get_ext_params ---
    gp = tu.func('get_ext_params')
    want = {'MIR_EXT8': (8, 1), 'MIR_EXT16': (16, 1), 'MIR_EXT32': (32, 1), 'MIR_UEXT8': (8, 0), 'MIR_UEXT16': (16, 0), 'MIR_UEXT32': (32, 0)}
    sign_expr = None
    for n in gp.walk():
        if n['k'] == 'BinaryOperator' and n['op'] == '=' and F.strip(n['c'][0])['k'] == 'UnaryOperator':
            sign_expr = n['c'][1]
    widths = {}
    for sw in R.find_switches(gp):
        for r in R.switch_regions(gp, sw):
            rets = [x for x in R.region_nodes(r['stmts']) if x['k'] == 'ReturnStmt']
            if rets:
                v = F.const_value(F.strip(F.kids(rets[0])[0]))
                for (nm, lo, hi) in r['cases']:
                    if nm:
                        widths[nm] = v
    if sign_expr is None or not widths:
        raise F.AnalysisBroken('get_ext_params not recognised')
    pname = gp.params[0]['n']
    for c, (w, s) in sorted(want.items()):
        sv = preds.eval(sign_expr, {pname: codes[c]}, frozenset(codes.values()))
        ok = widths.get(c) == w and sv is not None and int(bool(sv)) == s
        run.ob(rule, ('params', c), ok, {'opcode': c, 'width': widths.get(c), 'signed': sv, 'expected': [w, s]})
        if not ok:
            run.violation(rule, gp, 'get_ext_params (%s)' % c, 'get_ext_params maps %s to width %s / signed %s, expected %d / %d'
                          % (c, widths.get(c), sv, w, s), line=gp.line)
    # --- folding sites ---
    nsites = 0
    for f in tu.func_list:
        calls = [n for n in f.walk() if n['k'] == 'CallExpr' and n.get('callee') == 'get_ext_params']
        if len(calls) < 2:
            continue
        run.functions_analysed.add(('gen', f.name))
        info = []
        for c in calls:
            par = f.parent_of(c)
            while par is not None and par['k'] in F.CASTS:
                par = f.parent_of(par)
            wvar = None
            if par is not None and par['k'] == 'BinaryOperator' and par['op'] == '=':
                wvar = F.src(F.strip(par['c'][0]))
            a = F.call_args(c)
            svar = F.src(F.strip(F.strip(a[1])['c'][0])) if F.strip(a[1])['k'] == 'UnaryOperator' else None
            info.append((wvar, svar, F.src(a[0])))
        if any(i[0] is None or i[1] is None for i in info):
            run.analysis_broken(rule, '%s: result variables of get_ext_params not recognised' % f.name)
            continue
        # the if chain: IfStmts whose condition mentions both width variables
        wnames = {i[0] for i in info}
        chains = []
        for n in f.walk():
            if n['k'] == 'IfStmt' and wnames <= {x['n'] for x in F.walk(n['c'][0]) if x['k'] == 'DeclRefExpr'}:
                p = f.parent_of(n)
                if p is not None and p['k'] == 'IfStmt' and p['c'][2] is n:
                    continue  # part of an else-if chain, handled from its head
                chains.append(n)
        for head in chains:
            branches = []
            n = head
            while n is not None and n['k'] == 'IfStmt':
                branches.append((n['c'][0], n['c'][1]))
                n = n['c'][2]
            # classify branch bodies and find outer/inner instruction variables
            kinds = []
            outer_insn = inner_insn = None
            for cond, body in branches:
                kind = None
                for x in F.walk(body):
                    if x['k'] == 'BinaryOperator' and x['op'] == '=':
                        l, r = F.src(F.strip(x['c'][0])), F.src(F.strip(x['c'][1]))
                        if l.endswith('->code') and r.endswith('->code'):
                            kind = 'inner'
                            outer_insn, inner_insn = l[:-6], r[:-6]
                for x in F.walk(body):
                    if kind is None and x['k'] == 'BinaryOperator' and x['op'] == '=':
                        l, r = F.src(F.strip(x['c'][0])), F.src(F.strip(x['c'][1]))
                        if '->ops[1]' in l and '->ops[1]' in r and l.split('->')[0] != r.split('->')[0]:
                            kind = 'outer'
                kinds.append(kind)
            if outer_insn is None:
                # no branch takes the inner opcode: find outer/inner from an operand rewiring
                for cond, body in branches:
                    for x in F.walk(body):
                        if x['k'] == 'BinaryOperator' and x['op'] == '=':
                            l, r = F.src(F.strip(x['c'][0])), F.src(F.strip(x['c'][1]))
                            if '->ops[1]' in l and '->ops[1]' in r:
                                outer_insn, inner_insn = l.split('->')[0], r.split('->')[0]
            if outer_insn is None or not any(kinds):
                continue
            inner = [i for i in info if i[2].startswith(inner_insn + '->')]
            outer = [i for i in info if i not in inner]
            if len(inner) != 1 or len(outer) != 1:
                run.analysis_broken(rule, '%s: cannot tell the outer from the inner extension' % f.name)
                continue
            (w_o, s_o, _), (w_i, s_i, _) = outer[0], inner[0]
            nsites += 1
            for w, s, w2, s2 in itertools.product(WIDTHS, (0, 1), WIDTHS, (0, 1)):
                env = {w_o: w, s_o: s, w_i: w2, s_i: s2}
                decision = None
                for (cond, body), kind in zip(branches, kinds):
                    v = preds.eval(cond, env, frozenset())
                    if v is None:
                        decision = 'unknown'
                        break
                    if v:
                        decision = kind or 'none'
                        break
                if decision == 'unknown':
                    run.analysis_broken(rule, '%s: folding condition %s not evaluable' % (f.name, F.src(cond)[:80]))
                    break
                allowed = truth(w, s, w2, s2)
                ok = decision in (None, 'none') or decision in allowed
                desc = '%sext%d(%sext%d(x))' % ('' if s else 'u', w, '' if s2 else 'u', w2)
                run.ob(rule, (f.name, head['l'], w, s, w2, s2), ok,
                       {'site': '%s:%d %s' % (f.relfile(), head['l'], f.name), 'pair': desc, 'code keeps': decision or 'both',
                        'arithmetic allows': sorted(allowed) or ['neither']})
                if not ok:
                    run.violation(rule, f, 'fold %s -> %s' % (desc, decision),
                                  '%s rewrites %s to the %s extension alone, but that is not the same function (e.g. on inputs with bit '
                                  '%d set); arithmetic allows: %s' % (f.name, desc, decision, min(w, w2) - 1, sorted(allowed) or 'neither'),
                                  line=head['l'])
    nsites += _rf23_helpers(run, rule, tu, preds)
    if nsites < 2:
        run.analysis_broken(rule, 'only %d extension-folding sites recognised (copy_prop and combine_exts expected)' % nsites)
    return nsites


def _rf23_helpers(run, rule, tu, preds):
    """the decision moved into a helper `code2 = h (inner_code, outer_code)`: a function that calls get_ext_params for two of
    its parameters and returns one of them (or something else for "no folding").  Its `if (…) return …;` statements are the
    decision list; which parameter is the outer extension is read off the callers (the instruction whose code is assigned
    the result / whose operand is rewired)."""
    n = 0
    for h in tu.func_list:
        if h.body is None or not h.file.startswith('/repo') or len(h.params) < 2:
            continue
        calls = [x for x in h.walk() if x['k'] == 'CallExpr' and x.get('callee') == 'get_ext_params']
        if len(calls) != 2:
            continue
        pnames = [q['n'] for q in h.params]
        info = {}
        for c in calls:
            par = h.parent_of(c)
            while par is not None and par['k'] in F.CASTS + ('ParenExpr',):
                par = h.parent_of(par)
            a = F.call_args(c)
            if par is None or par['k'] != 'BinaryOperator' or par['op'] != '=' or F.strip(a[1])['k'] != 'UnaryOperator':
                info = None
                break
            info[F.src(F.strip(a[0]))] = (F.src(F.strip(par['c'][0])), F.src(F.strip(F.strip(a[1])['c'][0])))
        if not info or set(info) - set(pnames) or len(info) != 2:
            continue
        # decision list
        body = F.kids(h.body) if h.body['k'] == 'CompoundStmt' else [h.body]
        branches = []
        ok_shape = True
        for st in body:
            if st['k'] == 'IfStmt' and st['c'][2] is None:
                rets = [y for y in F.walk(st['c'][1]) if y['k'] == 'ReturnStmt']
                if len(rets) == 1 and F.kids(rets[0]):
                    branches.append((st['c'][0], F.src(F.strip(F.kids(rets[0])[0]))))
                    continue
                ok_shape = False
            elif st['k'] == 'ReturnStmt' and F.kids(st):
                branches.append((None, F.src(F.strip(F.kids(st)[0]))))
            elif st['k'] in ('DeclStmt', 'NullStmt'):
                continue
            else:
                ok_shape = False
        if not ok_shape or not branches:
            run.analysis_broken(rule, '%s: helper deciding on a pair of extensions has statements other than `if (…) return …;`' % h.name)
            continue
        # callers: which argument is the outer extension
        outer_idx = set()
        callers = 0
        for g in tu.func_list:
            if g.body is None or g is h:
                continue
            for c in g.walk():
                if c['k'] != 'CallExpr' or c.get('callee') != h.name:
                    continue
                callers += 1
                run.functions_analysed.add(('gen', g.name))
                inits = {}
                for y in g.walk():
                    if y['k'] == 'DeclStmt':
                        for d in y.get('decls', []):
                            if d.get('init') is not None:
                                inits[d['n']] = F.src(F.strip(d['init']))
                args = []
                for a in F.call_args(c):
                    t = F.src(F.strip(a))
                    args.append(inits.get(t, t))
                # the outer instruction: `O->ops[1] = I->ops[1]`
                outer = None
                for y in g.walk():
                    if y['k'] == 'BinaryOperator' and y['op'] == '=':
                        l, r = F.src(F.strip(y['c'][0])), F.src(F.strip(y['c'][1]))
                        if l.endswith('->ops[1]') and r.endswith('->ops[1]') and l != r:
                            outer = l[:-len('->ops[1]')]
                        if l.endswith('->ops[1].u.var') and r.endswith('->ops[1].u.var') and l != r:
                            outer = l[:-len('->ops[1].u.var')]
                if outer is None:
                    run.analysis_broken(rule, '%s: cannot tell the outer extension at the call of %s' % (g.name, h.name))
                    continue
                idx = [k for k, t in enumerate(args) if t == outer + '->code']
                if len(idx) != 1:
                    run.analysis_broken(rule, '%s: arguments of %s not recognised (%s)' % (g.name, h.name, ', '.join(args)))
                    continue
                outer_idx.add(idx[0])
        if callers == 0:
            continue
        run.functions_analysed.add(('gen', h.name))
        if len(outer_idx) != 1:
            run.ob(rule, (h.name, 'callers'), len(outer_idx) == 0, {'helper': h.name, 'outer extension passed at positions': sorted(outer_idx)})
            if outer_idx:
                run.violation(rule, h, 'callers of %s disagree' % h.name, 'the callers of %s pass the outer extension at different argument '
                              'positions (%s): one of them folds the pair the wrong way round' % (h.name, sorted(outer_idx)), line=h.line)
            continue
        po = pnames[next(iter(outer_idx))]
        pi = [q for q in info if q != po][0]
        if po not in info:
            run.analysis_broken(rule, '%s: the outer parameter is not analysed by get_ext_params' % h.name)
            continue
        (w_o, s_o), (w_i, s_i) = info[po], info[pi]
        n += callers
        for w, s_, w2, s2 in itertools.product(WIDTHS, (0, 1), WIDTHS, (0, 1)):
            env = {w_o: w, s_o: s_, w_i: w2, s_i: s2}
            decision = None
            for cond, ret in branches:
                if cond is not None and 'get_ext_params' in F.src(cond):
                    continue   # "not an extension": false for the six opcodes considered here
                v = True if cond is None else preds.eval(cond, env, frozenset())
                if v is None:
                    decision = 'unknown'
                    break
                if v:
                    decision = 'outer' if ret == po else 'inner' if ret == pi else 'none'
                    break
            if decision == 'unknown':
                run.analysis_broken(rule, '%s: folding condition %s not evaluable' % (h.name, F.src(cond)[:80]))
                break
            allowed = truth(w, s_, w2, s2)
            ok = decision in (None, 'none') or decision in allowed
            desc = '%sext%d(%sext%d(x))' % ('' if s_ else 'u', w, '' if s2 else 'u', w2)
            run.ob(rule, (h.name, h.line, w, s_, w2, s2), ok,
                   {'site': '%s:%d %s' % (h.relfile(), h.line, h.name), 'pair': desc, 'code keeps': decision or 'both',
                    'arithmetic allows': sorted(allowed) or ['neither']})
            if not ok:
                run.violation(rule, h, 'fold %s -> %s' % (desc, decision),
                              '%s (used by %d callers) rewrites %s to the %s extension alone, but that is not the same function (e.g. on inputs '
                              'with bit %d set); arithmetic allows: %s' % (h.name, callers, desc, decision, min(w, w2) - 1, sorted(allowed) or 'neither'),
                              line=h.line)
    return n


def rf25(run, units=('gen', 'mir')):
    """a shift of a 32-bit integer *constant* by a run-time amount whose result flows into a 64-bit integer is computed in 32
    bits: for amounts >= 32 the value is wrong (the strength-reduction code computes masks and powers of two this way)"""
    rule = 'RF25'
    run.rule(rule, 'no expression shifts a 32-bit integer constant by a non-constant amount and then widens the result to 64 bits '
                   '(e.g. (1 << sh) - 1 assigned to an int64_t): masks and powers of two for 64-bit MIR values must be computed in '
                   '64-bit arithmetic')
    n = 0
    for u in units:
        tu = run.tu(u)
        for f in tu.func_list:
            hits = 0
            for s in f.walk():
                if s['k'] != 'BinaryOperator' or s['op'] != '<<':
                    continue
                t = tu.type(s)
                if t is None or t.kind != 'int' or t.w != 32:
                    continue
                l, r = F.strip(s['c'][0]), F.strip(s['c'][1])
                if F.const_value(l) is None or F.const_value(r) is not None:
                    continue
                n += 1
                # follow the value through 32-bit arithmetic up to a widening conversion
                x, p = s, f.parent_of(s)
                widened = None
                while p is not None:
                    if p['k'] in F.CASTS:
                        pt = tu.type(p)
                        if pt is not None and pt.kind == 'int' and pt.w == 64:
                            widened = p
                            break
                        if pt is not None and pt.kind == 'int' and pt.w == 32:
                            x, p = p, f.parent_of(p)
                            continue
                        break
                    if p['k'] == 'BinaryOperator' and p['op'] in ('+', '-', '|', '&', '^', '*') and tu.type(p).w == 32:
                        x, p = p, f.parent_of(p)
                        continue
                    if p['k'] == 'UnaryOperator' and p['op'] in ('-', '~') and tu.type(p).w == 32:
                        x, p = p, f.parent_of(p)
                        continue
                    break
                # a dominating bound on the amount (sh < 32) would make it safe: look for a comparison of the amount with a
                # constant <= 32 in an enclosing if condition
                safe = False
                if widened is not None:
                    amt = F.src(r)
                    for a in f.ancestors(s):
                        if a['k'] == 'IfStmt':
                            for c in F.walk(a['c'][0]):
                                if c['k'] == 'BinaryOperator' and c['op'] in ('<', '<=') and F.src(F.strip(c['c'][0])) == amt:
                                    k = F.const_value(F.strip(c['c'][1]))
                                    if k is not None and k <= (32 if c['op'] == '<' else 31):
                                        safe = True
                ok = widened is None or safe
                run.ob(rule, (u, f.name, s['l']), ok, {'site': '%s:%d %s' % (f.relfile(), s['l'], f.name), 'shift': F.src(s),
                                                      'widened to 64 bits': widened is not None, 'amount bounded below 32': safe})
                if not ok:
                    run.violation(rule, f, 'shift %s' % F.src(s),
                                  '%s is evaluated in 32-bit int and then widened to %s: for a shift amount >= 32 the value is wrong '
                                  '(use a 64-bit constant)' % (F.src(x), tu.type(widened).s), line=s['l'])
    return n


def rf26(run):
    """width preservation in strength reduction: the instructions that replace a 32-bit (S-suffixed) multiply/divide are all
    32-bit opcodes, those replacing a 64-bit one are all 64-bit opcodes"""
    import os, sys
    sys.path.insert(0, os.path.join(F.VERIF, 'spec'))
    import opcodes as SPEC
    from lib import absint as AI
    rule = 'RF26'
    run.rule(rule, 'transform_mul_div: for each of MUL/MULS/UDIV/UDIVS/DIV/DIVS every arithmetic instruction of the replacement sequence '
                   'has the operand width of the replaced instruction (a 64-bit shift applied to a 32-bit operand reads the undefined '
                   'upper half)')
    tu = run.tu('gen')
    f = tu.func('transform_mul_div')
    run.functions_analysed.add(('gen', f.name))
    preds = EF.Predicates(tu)
    codes = dict(tu.enum('MIR_insn_code_t'))
    names = {}
    for nm, v in tu.enum('MIR_insn_code_t'):
        names.setdefault(v, nm)
    n = 0
    for src in ('MIR_MUL', 'MIR_MULS', 'MIR_UDIV', 'MIR_UDIVS', 'MIR_DIV', 'MIR_DIVS'):
        want_w = SPEC.parse(src[4:]).width
        for sh in (0, 5):
            col = AI.Collector(tu, preds, lambda x: x.get('callee') == 'MIR_new_insn')
            env = {'insn->code': codes[src], 'sh': sh}
            # `sh` is assigned from a call: keep our assumed value by evaluating statements that do not reassign it
            col.run(_without_assign(f.body, 'sh'), env)
            for call, e in col.hits:
                cv = preds.eval(F.call_args(call)[1], e, frozenset())
                if cv is None:
                    run.analysis_broken(rule, 'transform_mul_div: opcode of %s not evaluable for %s' % (F.src(call)[:50], src))
                    continue
                nm = names.get(cv, str(cv))
                sp = SPEC.parse(nm[4:]) if nm.startswith('MIR_') else None
                if sp is None or sp.kind not in ('arith', 'cmp', 'unary', 'ext'):
                    continue
                n += 1
                ok = sp.width == want_w
                run.ob(rule, (src, sh, call['l']), ok, {'replaced': src, 'shift count': 'zero' if sh == 0 else 'non-zero', 'emits': nm,
                                                       'line': call['l'], 'width': sp.width, 'required': want_w})
                if not ok:
                    run.violation(rule, f, '%s in the lowering of %s' % (nm, src),
                                  'the strength-reduced sequence for %s contains the %d-bit instruction %s: %s' %
                                  (src, sp.width, nm, 'a 64-bit operation on a 32-bit operand depends on its undefined upper half'
                                   if want_w == 32 else 'a 32-bit operation truncates the 64-bit operand'), line=call['l'])
    return n


def _without_assign(body, var):
    """a shallow copy of a compound statement without the top-level statements that assign var (so that an assumed value
    survives the call that would compute it)"""
    def assigns(s):
        for x in F.walk(s):
            if x['k'] == 'BinaryOperator' and x['op'] == '=' and F.src(F.strip(x['c'][0])) == var:
                return True
        return False
    if body['k'] != 'CompoundStmt':
        return body
    nb = dict(body)
    nb['c'] = [s for s in F.kids(body) if not (s['k'] in ('BinaryOperator', 'IfStmt') and assigns(s) and s['k'] == 'BinaryOperator')]
    # an if whose condition assigns var (sh < 0 && (sh = …) >= 0): drop the whole statement, it only swaps operands
    nb['c'] = [s for s in nb['c'] if not (s['k'] == 'IfStmt' and assigns(s['c'][0]))]
    return nb


# ---------------------------------------------------------------------------------------------
# RF34: store-to-load forwarding in GVN narrows the forwarded value
# ---------------------------------------------------------------------------------------------

def rf34(run):
    from lib import enumflow as EF
    import rf_callmode as CM
    rule = 'RF34'
    run.rule(rule, 'gvn_modify, load after an available store of the same location: for every integer memory type the instruction '
                   'that defines the forwarding temporary from the stored value is the extension a load of that type performs '
                   '(I8->EXT8, U8->UEXT8, I16->EXT16, U16->UEXT16, I32->EXT32, U32->UEXT32) and a plain move only for 64-bit types; '
                   'the load inherits the store\'s value number only when no narrowing happens. Decided by evaluating the code '
                   'argument of the MIR_new_insn that creates the definition over the finite type domain')
    gen = run.tu('gen')
    f = gen.func('gvn_modify')
    run.functions_analysed.add(('gen', f.name))
    calls = []
    for x in f.walk():
        if x['k'] == 'CallExpr' and x.get('callee') == 'MIR_new_insn' and len(F.call_args(x)) >= 4:
            src_arg = F.strip(F.call_args(x)[3])
            if src_arg['k'] == 'ConditionalOperator' and 'op_ref' in F.src(src_arg['c'][0]) and 'mem_insn->ops[0]' in F.src(src_arg['c'][0]):
                calls.append(x)
    if len(calls) != 1:
        raise F.AnalysisBroken('gvn_modify: the definition of the forwarding temporary (MIR_new_insn (…, op_ref == &mem_insn->ops[0] ? … : …)) '
                               'was found %d times' % len(calls))
    call = calls[0]
    store_test = F.src(F.strip(F.strip(F.call_args(call)[3])['c'][0]))
    comp = None
    for a in f.ancestors(call):
        if a['k'] == 'CompoundStmt':
            comp = a
            break
    stmts = []
    for st in F.kids(comp):
        stmts.append(st)
        if any(y is call for y in F.walk(st)):
            break
    ev = CM.TextEnv(gen)
    codes = dict(gen.enum('MIR_insn_code_t'))
    tys = dict(gen.enum('MIR_type_t'))
    cname = {v: k for k, v in codes.items()}
    want = {'MIR_T_I8': 'MIR_EXT8', 'MIR_T_U8': 'MIR_UEXT8', 'MIR_T_I16': 'MIR_EXT16', 'MIR_T_U16': 'MIR_UEXT16',
            'MIR_T_I32': 'MIR_EXT32', 'MIR_T_U32': 'MIR_UEXT32', 'MIR_T_I64': 'MIR_MOV', 'MIR_T_U64': 'MIR_MOV', 'MIR_T_P': 'MIR_MOV'}
    tkey = None
    for x in F.walk(comp):
        if x['k'] == 'MemberExpr' and x['n'] == 'type' and 'op_ref' in F.src(x):
            tkey = F.src(x)
    bad = None
    for tn, wc in want.items():
        for is_store in (1, 0):
            env = {store_test: is_store, store_test.strip('()'): is_store, 'insn->code': codes['MIR_MOV']}
            if tkey is not None:
                env[tkey] = tys[tn]
            re_ = CM.RetEval(ev)
            for st in stmts[:-1]:
                re_.run(st, env)
            got = ev.eval(F.call_args(call)[1], env, frozenset())
            exp = codes[wc] if is_store else codes['MIR_MOV']
            ok = got == exp
            run.ob(rule, (tn, 'store' if is_store else 'load'), ok, {'memory type': tn, 'available insn': 'store' if is_store else 'load',
                                                                   'definition code': cname.get(got, got), 'required': cname[exp]})
            if not ok and bad is None:
                bad = (tn, is_store, got, exp)
    if bad:
        tn, is_store, got, exp = bad
        if got is None:
            raise F.AnalysisBroken('gvn_modify: the code of the forwarding definition is not evaluable for %s' % tn)
        run.violation(rule, f, 'forwarding definition for %s memory' % tn,
                      'after a store to %s memory the reload is replaced by a temporary defined with %s; a load of that type yields %s of the '
                      'low part, so generated code at -O2/-O3 sees the unnarrowed stored value' % (tn, cname.get(got, got), cname[exp]), line=call['l'])
    # the load inherits the store's value number only when nothing is narrowed
    branch = None
    for a in f.ancestors(call):
        if a['k'] == 'CompoundStmt' and any(y['k'] == 'CallExpr' and y.get('callee') == 'copy_gvn_info'
                                            and [F.src(F.strip(z)) for z in F.call_args(y)] == ['bb_insn', 'mem_bb_insn'] for y in F.walk(a)):
            branch = a
            break
    if branch is None:
        raise F.AnalysisBroken('gvn_modify: copy_gvn_info (bb_insn, mem_bb_insn) of the forwarding branch not found')
    for tn, wc in want.items():
        env = {store_test: 1, store_test.strip('()'): 1, store_test.replace('==', '!='): 0, store_test.replace('==', '!=').strip('()'): 0,
               'insn->code': codes['MIR_MOV']}
        if tkey is not None:
            env[tkey] = tys[tn]
        col = AI.Collector(gen, ev, lambda c: c.get('callee') == 'copy_gvn_info' and [F.src(F.strip(z)) for z in F.call_args(c)] == ['bb_insn', 'mem_bb_insn'])
        for st in F.kids(branch):
            if any(y is call for y in F.walk(st)):
                break
            col.run(st, env)
        copied = bool(col.hits)
        ok = copied == (wc == 'MIR_MOV')
        run.ob(rule, ('value-number', tn), ok, {'memory type': tn, 'load takes the value number of the stored value': copied,
                                               'allowed': wc == 'MIR_MOV'})
        if not ok:
            run.violation(rule, f, 'value number of a reload from %s memory' % tn,
                          'the reload after a store to %s memory %s the value number of the stored value' % (tn, 'takes' if copied else 'does not take'),
                          line=branch['l'])
    run.min_instances(rule, 20)


# ---------------------------------------------------------------------------------------------
# RF38: folding of a branch on a constant respects the width the branch tests
# ---------------------------------------------------------------------------------------------

def rf38(run):
    import rf_callmode as CM
    rule = 'RF38'
    run.rule(rule, 'simplify_func: where BT/BTS/BF/BFS with an immediate condition is replaced by a jump or by nothing, then over '
                   'opcode x immediate kind x representative immediates (0, 1, 2, -1, 2^31, 2^32, 2^32+1, 0xffffffff00000000) the '
                   'replacement is a jump exactly when the branch would be taken: BT/BF test all 64 bits, BTS/BFS the low 32 bits')
    tu = run.tu('mir')
    f = tu.func('simplify_func')
    run.functions_analysed.add(('mir', f.name))
    site = None
    for x in f.walk():
        if x['k'] == 'IfStmt':
            c = F.src(x['c'][0])
            if 'MIR_BTS' in c and 'MIR_BFS' in c and 'ops[1]' in c:
                if site is None or x['l'] < site['l']:
                    site = x
    if site is None:
        raise F.AnalysisBroken('simplify_func: the constant-branch folding test was not found')
    ev = CM.TextEnv(tu)
    codes = dict(tu.enum('MIR_insn_code_t'))
    modes = dict(tu.enum('MIR_op_mode_t'))
    imms = [0, 1, 2, -1, 1 << 31, 1 << 32, (1 << 32) + 1, -(1 << 32)]
    n = 0
    first = None
    for cn in ('MIR_BT', 'MIR_BTS', 'MIR_BF', 'MIR_BFS'):
        for mn in ('MIR_OP_INT', 'MIR_OP_UINT'):
            for imm in imms:
                env = {'code': codes[cn], 'insn->code': codes[cn], 'insn->ops[1].mode': modes[mn], 'insn->ops[1].u.i': imm,
                       'insn->ops[1].u.u': imm & ((1 << 64) - 1)}
                fires = ev.eval(site['c'][0], env, frozenset())
                if fires is None:
                    raise F.AnalysisBroken('simplify_func: folding test not evaluable for %s %s %d' % (cn, mn, imm))
                if not fires:
                    run.ob(rule, (cn, mn, imm), True, {'opcode': cn, 'immediate': imm, 'folded': False})
                    n += 1
                    continue
                col = AI.Collector(tu, ev, lambda c: c.get('callee') == 'MIR_new_insn' and len(F.call_args(c)) >= 2
                                   and F.const_value(F.call_args(c)[1]) == codes['MIR_JMP'])
                col.run(site['c'][1], dict(env))
                rem = AI.Collector(tu, ev, lambda c: c.get('callee') == 'MIR_remove_insn')
                rem.run(site['c'][1], dict(env))
                jumps = bool(col.hits)
                low = imm & 0xffffffff if cn in ('MIR_BTS', 'MIR_BFS') else imm
                nonzero = low != 0
                taken = nonzero if cn in ('MIR_BT', 'MIR_BTS') else not nonzero
                ok = jumps == taken and bool(rem.hits)
                n += 1
                run.ob(rule, (cn, mn, imm), ok, {'opcode': cn, 'immediate': '%#x' % (imm & ((1 << 64) - 1)), 'folded': True,
                                                'replaced by a jump': jumps, 'branch is taken': taken})
                if not ok and first is None:
                    first = (cn, imm, jumps, taken)
    if first:
        cn, imm, jumps, taken = first
        run.violation(rule, f, 'folding of %s with immediate %#x' % (cn, imm & ((1 << 64) - 1)),
                      '%s L, %#x is %s, but %s: %s looks at %s' % (cn, imm & ((1 << 64) - 1), 'replaced by `jmp L`' if jumps else 'deleted',
                                                                    'the branch is taken' if taken else 'the branch is not taken', cn,
                                                                    'the low 32 bits only' if cn.endswith('S') else 'all 64 bits'), line=site['l'])
    run.min_instances(rule, 60)


def rf38b(run):
    """the same for the generator's GVN: the value a constant condition is reduced to before the branch is resolved"""
    import rf_callmode as CM
    rule = 'RF38'
    gen = run.tu('gen')
    f = gen.func('gvn_modify')
    run.functions_analysed.add(('gen', f.name))
    sws = R.find_switches(f, lambda c: c.endswith('->code') or c.strip('()') == 'code')
    regs = {}
    for sw in sws:
        try:
            rs = R.switch_regions(f, sw)
        except F.AnalysisBroken:
            continue
        for r in rs:
            for nm, lo, hi in r['cases']:
                if nm in ('MIR_BT', 'MIR_BTS', 'MIR_BF', 'MIR_BFS'):
                    regs[nm] = r
    if set(regs) != {'MIR_BT', 'MIR_BTS', 'MIR_BF', 'MIR_BFS'}:
        raise F.AnalysisBroken('gvn_modify: cases of the conditional branches on one operand not found (%s)' % sorted(regs))
    ev = CM.TextEnv(gen)
    codes = dict(gen.enum('MIR_insn_code_t'))
    for cn, r in sorted(regs.items()):
        for imm in (0, 1, 2, -1, 1 << 31, 1 << 32, (1 << 32) + 1, -(1 << 32)):
            env = {'insn->code': codes[cn], 'code': codes[cn], 'val': imm}
            for st in r['stmts']:
                for x in F.walk(st):
                    if x['k'] == 'CallExpr' and x.get('callee') == 'get_gvn_op':
                        env[F.src(x)] = 1
            re_ = CM.RetEval(ev)
            for st in r['stmts']:
                if st['k'] == 'BreakStmt':
                    break
                try:
                    if not re_.run(st, env):
                        break
                except F.AnalysisBroken:
                    break
            got = env.get('val')
            low = imm & 0xffffffff if cn in ('MIR_BTS', 'MIR_BFS') else imm
            want_taken = (low != 0) if cn in ('MIR_BT', 'MIR_BTS') else (low == 0)
            ok = got is not None and bool(got) == want_taken
            run.ob(rule, ('gvn', cn, imm), ok, {'opcode': cn, 'constant condition': '%#x' % (imm & ((1 << 64) - 1)), 'reduced to': got, 'branch is taken': want_taken})
            if not ok:
                if got is None:
                    raise F.AnalysisBroken('gvn_modify: value of the constant condition of %s not evaluable' % cn)
                run.violation(rule, f, 'GVN folding of %s with condition %#x' % (cn, imm & ((1 << 64) - 1)),
                              'gvn_modify reduces the constant condition %#x of %s to %s, i.e. treats the branch as %staken; %s looks at %s'
                              % (imm & ((1 << 64) - 1), cn, got, '' if got else 'not ', cn, 'the low 32 bits only' if cn.endswith('S') else 'all 64 bits'),
                              line=r['line'])
                return


# ---------------------------------------------------------------------------------------------
# RF39: no unchecked narrowing of a computed factor into a memory scale; RF40: nothing is inserted between an overflow
# producer and the branch that reads its flags
# ---------------------------------------------------------------------------------------------

RF39_EXC = {('out_insn', 'mem.scale'): 'operand class "s" of the pattern matcher admits only the immediates 1, 2, 4, 8'}


def rf39(run, units=('gen', 'c2mir')):
    from rf_proto import dominating_conditions
    rule = 'RF39'
    run.rule(rule, 'a value of a wider integer type is converted to MIR_scale_t (8 bits) only where a test against MIR_MAX_SCALE (or an '
                   'explicit small bound) selects the conversion: either the conversion is an arm of a ?: with such a test or the '
                   'statement is dominated by one; otherwise a factor such as 258 silently becomes scale 2')
    n = 0
    for u in units:
        tu = run.tu(u)
        for f in tu.func_list:
            if f.body is None:
                continue
            for x in f.walk():
                if x['k'] not in ('BinaryOperator', 'CompoundAssignOperator') or x.get('op') not in ('=', '*=', '+='):
                    continue
                l = F.strip(x['c'][0])
                if l['k'] != 'MemberExpr' or l['n'] != 'scale':
                    continue
                lt = tu.type(l)
                if lt is None or lt.kind != 'int' or lt.w != 8:
                    continue
                r = x['c'][1]
                if F.const_value(r) is not None:
                    continue
                # widest non-constant source feeding the store
                wide = [y for y in F.walk(r) if y['k'] in ('DeclRefExpr', 'MemberExpr', 'CallExpr', 'ArraySubscriptExpr') and tu.type(y) is not None
                        and tu.type(y).kind == 'int' and (tu.type(y).w or 0) > 8 and F.const_value(y) is None]
                if not wide and x['op'] == '=':
                    continue
                n += 1
                run.functions_analysed.add((u, f.name))
                key = (f.name, F.src(l).split('->')[-1] if '->' in F.src(l) else F.src(l))
                exc = RF39_EXC.get((f.name, F.src(l)))
                cfg = f.cfg
                b = cfg.block_of(x)
                conds = [c for c, t in (dominating_conditions(cfg, b) if b is not None else [])]

                def bounded(txt):
                    import re as _re
                    return 'MIR_MAX_SCALE' in txt or 'UINT8_MAX' in txt or _re.search(r'<=?\s*\(*\s*(255|256|8|9)\b', txt) is not None
                guard = any(bounded(c) for c in conds)
                rr = F.strip(r)
                if rr['k'] == 'ConditionalOperator' and bounded(F.src(rr['c'][0])):
                    guard = True
                ok = guard or exc is not None
                run.ob(rule, (u, f.name, x['l']), ok, {'site': '%s:%d %s' % (f.relfile(), x['l'], f.name), 'store': F.src(x)[:80],
                                                      'guarded': guard, 'exception': exc})
                if not ok:
                    run.violation(rule, f, 'scale store %s' % F.src(x)[:60],
                                  '%s stores a %d-bit value into the 8-bit scale of a memory operand without a range test: a factor '
                                  'larger than 255 wraps (258 -> 2) and still looks like a legal scale' % (f.name, max((tu.type(y).w for y in wide), default=64)),
                                  line=x['l'])
    return n


def rf40(run):
    import rf_callmode as CM
    rule = 'RF40'
    run.rule(rule, 'gvn_modify: the branch that materialises a constant result (`x = …; x = const` added right after the instruction) is '
                   'not taken for an overflow-flag producer that is followed by a branch on the flags: the added move can be emitted as '
                   'a flag-changing instruction (xor for zero). Decided by evaluating the statements between the opcode switch and the '
                   'test of const_p for every overflow producer with a reachable BO')
    gen = run.tu('gen')
    f = gen.func('gvn_modify')
    run.functions_analysed.add(('gen', f.name))
    preds = EF.Predicates(gen)
    uni = frozenset(v for nm, v in gen.enum('MIR_insn_code_t'))
    ovf = preds.true_set('MIR_overflow_insn_code_p', uni)
    if not ovf:
        raise F.AnalysisBroken('MIR_overflow_insn_code_p not evaluable')
    site = None
    for x in f.walk():
        if x['k'] == 'IfStmt' and 'const_p' in F.src(x['c'][0]) and any(
                y['k'] == 'CallExpr' and y.get('callee') == 'gen_add_insn_after' for y in F.walk(x['c'][1])):
            site = x
    if site is None:
        raise F.AnalysisBroken('gvn_modify: the `if (const_p)` block that adds the constant move was not found')
    comp = None
    for a in f.ancestors(site):
        if a['k'] == 'CompoundStmt':
            comp = a
            break
    ks = F.kids(comp)
    idx = [i for i, st in enumerate(ks) if st is site][0]
    start = max([i for i, st in enumerate(ks[:idx]) if st['k'] == 'SwitchStmt'] or [-1]) + 1
    between = ks[start:idx]
    calls = {F.src(y) for st in between + [site] for y in F.walk(st if st is not site else site['c'][0]) if y['k'] == 'CallExpr' and y.get('callee') == 'reachable_bo_exists_p'}
    ev = CM.TextEnv(gen)
    names = {}
    for nm, v in gen.enum('MIR_insn_code_t'):
        names.setdefault(v, nm)
    for v in sorted(ovf):
        env = {'insn->code': v, 'const_p': 1}
        for c in calls:
            env[c] = 1
        re_ = CM.RetEval(ev)
        for st in between:
            re_.run(st, env)
        taken = ev.eval(site['c'][0], env, frozenset())
        ok = taken is not None and not taken
        run.ob(rule, (names[v],), ok, {'opcode': names[v], 'followed by a branch on the flags': True, 'constant move is added': taken})
        if not ok:
            if taken is None:
                raise F.AnalysisBroken('gvn_modify: const_p not evaluable for %s' % names[v])
            run.violation(rule, f, 'constant result of %s' % names[v],
                          'for %s with constant operands followed by BO/BNO/UBO/UBNO gvn_modify adds `mov r, <const>` between the '
                          'instruction and the branch; `mov r, 0` is encoded as xor and clears the flags the branch reads' % names[v], line=site['l'])
            break
    run.min_instances(rule, 6)


# ---------------------------------------------------------------------------------------------
# RF41: the neutral-element shortcut of simplify_func is confined to plain integer arithmetic
# ---------------------------------------------------------------------------------------------

class MayEval:
    """three-valued evaluation: which truth values / integer results are possible when some atoms are unknown"""

    def __init__(self, tu):
        self.tu = tu
        self.preds = EF.Predicates(tu)
        self.depth = 0

    def values(self, e, env):
        """set of possible integer values of e, or None when anything is possible"""
        v = self.preds.eval(e, env, frozenset())
        if v is not None:
            return {v}
        e = F.strip(e)
        k = e['k']
        if k == 'ConditionalOperator':
            t = self.truth(e['c'][0], env)
            out = set()
            for tv, arm in ((True, e['c'][1]), (False, e['c'][2])):
                if tv in t:
                    s = self.values(arm, env)
                    if s is None:
                        return None
                    out |= s
            return out
        if k == 'BinaryOperator' and e['op'] == '=':
            return self.values(e['c'][1], env)
        if k == 'CallExpr' and e.get('callee') in self.tu.funcs and self.tu.funcs[e['callee']].body is not None and self.depth < 3:
            g = self.tu.funcs[e['callee']]
            env2 = {}
            for prm, a in zip(g.params, F.call_args(e)):
                pv = self.preds.eval(a, env, frozenset())
                if pv is not None:
                    env2[prm['n']] = pv
                EF.Predicates._struct_arg(prm['n'], a, env, env2)
            self.depth += 1
            try:
                return self.returns(F.kids(g.body), env2)
            finally:
                self.depth -= 1
        return None

    def truth(self, e, env):
        """subset of {True, False} that e can evaluate to"""
        v = self.preds.eval(e, env, frozenset())
        if v is not None:
            return {bool(v)}
        e = F.strip(e)
        k = e['k']
        if k == 'BinaryOperator' and e['op'] in ('&&', '||'):
            a, b = self.truth(e['c'][0], env), self.truth(e['c'][1], env)
            if e['op'] == '&&':
                r = set()
                if True in a and True in b:
                    r.add(True)
                if False in a or (True in a and False in b):
                    r.add(False)
                return r
            r = set()
            if True in a or (False in a and True in b):
                r.add(True)
            if False in a and False in b:
                r.add(False)
            return r
        if k == 'UnaryOperator' and e['op'] == '!':
            return {not x for x in self.truth(e['c'][0], env)}
        if k == 'BinaryOperator' and e['op'] in ('==', '!='):
            a, b = self.values(e['c'][0], env), self.values(e['c'][1], env)
            if a is not None and b is not None:
                r = set()
                for x in a:
                    for y in b:
                        r.add((x == y) if e['op'] == '==' else (x != y))
                return r
        return {True, False}

    def returns(self, stmts, env):
        """possible return values of a statement list (forks on unknown conditions); None = unknown"""
        out = set()
        for i, st in enumerate(stmts):
            k = st['k']
            if k == 'ReturnStmt':
                ks = F.kids(st)
                s = self.values(ks[0], env) if ks else set()
                return None if s is None else out | s
            if k == 'CompoundStmt':
                s = self.returns(F.kids(st) + [{'k': '__cont__'}], env)
                if s is None:
                    return None
                if '__cont__' not in s:
                    return out | s
                out |= s - {'__cont__'}
                continue
            if k == '__cont__':
                return out | {'__cont__'}
            if k == 'IfStmt':
                t = self.truth(st['c'][0], env)
                falls = False
                for tv, arm in ((True, st['c'][1]), (False, st['c'][2])):
                    if tv not in t:
                        continue
                    if arm is None:
                        falls = True
                        continue
                    s = self.returns([arm, {'k': '__cont__'}], dict(env))
                    if s is None:
                        return None
                    if '__cont__' in s:
                        falls = True
                    out |= s - {'__cont__'}
                if not falls:
                    return out
                continue
            if k == 'SwitchStmt':
                v = self.preds.eval(st['c'][0], env, frozenset())
                body = st['c'][1]
                if v is None or body is None or body['k'] != 'CompoundStmt':
                    return None
                seq, started, dflt = [], False, None
                ks = F.kids(body)
                for j, s_ in enumerate(ks):
                    x = s_
                    labels = []
                    while x is not None and x['k'] in ('CaseStmt', 'DefaultStmt'):
                        labels.append(x)
                        x = F.kids(x)[0] if F.kids(x) else None
                    if not started:
                        if any(lb['k'] == 'CaseStmt' and lb.get('lo') is not None and lb['lo'] <= v <= lb.get('hi', lb['lo']) for lb in labels):
                            started = True
                        elif any(lb['k'] == 'DefaultStmt' for lb in labels) and dflt is None:
                            dflt = j
                    if started and x is not None:
                        if x['k'] == 'BreakStmt':
                            break
                        seq.append(x)
                if not started and dflt is not None:
                    for s_ in ks[dflt:]:
                        x = s_
                        while x is not None and x['k'] in ('CaseStmt', 'DefaultStmt'):
                            x = F.kids(x)[0] if F.kids(x) else None
                        if x is None:
                            continue
                        if x['k'] == 'BreakStmt':
                            break
                        seq.append(x)
                s = self.returns(seq + [{'k': '__cont__'}], dict(env))
                if s is None:
                    return None
                if '__cont__' not in s:
                    return out | s
                out |= s - {'__cont__'}
                continue
            if k == 'DeclStmt':
                for d in st['decls']:
                    if d.get('init') is not None:
                        pv = self.preds.eval(d['init'], env, frozenset())
                        if pv is not None:
                            env[d['n']] = pv
                        else:
                            env.pop(d['n'], None)
                            # `op = &insn->ops[2]`: facts about the pointee are addressed through the pointer
                            i0 = F.strip(d['init'])
                            if i0['k'] == 'UnaryOperator' and i0['op'] == '&':
                                t0 = F.src(F.strip(i0['c'][0]))
                                for key, val in list(env.items()):
                                    if isinstance(key, str) and key.startswith(t0 + '.'):
                                        env[d['n'] + '->' + key[len(t0) + 1:]] = val
                continue
            if k == 'BinaryOperator' and st['op'] == '=':
                l = F.strip(st['c'][0])
                if l['k'] == 'DeclRefExpr':
                    pv = self.preds.eval(st['c'][1], env, frozenset())
                    if pv is None:
                        env.pop(l['n'], None)
                    else:
                        env[l['n']] = pv
                continue
            if k in ('ForStmt', 'WhileStmt', 'DoStmt', 'GotoStmt'):
                return None
        return out


def rf41(run):
    rule = 'RF41'
    run.rule(rule, 'simplify_func: the shortcut `op r, x, <neutral constant>  =>  move r, x` can fire (three-valued evaluation of its '
                   'condition with unknown operands) only for plain integer arithmetic opcodes; never for floating-point opcodes '
                   '(x + 0.0 is not x for x = -0.0, and a move keeps a signalling NaN) nor for overflow-flag producers')
    import sys as _sys, os as _os
    _sys.path.insert(0, _os.path.join(F.VERIF, 'spec'))
    import opcodes as SPEC
    tu = run.tu('mir')
    f = tu.func('simplify_func')
    run.functions_analysed.add(('mir', f.name))
    site = None
    for x in f.walk():
        if x['k'] != 'IfStmt' or x['c'][1] is None:
            continue
        th = x['c'][1]
        news = [y for y in F.walk(th) if y['k'] == 'CallExpr' and y.get('callee') == 'MIR_new_insn' and len(F.call_args(y)) == 4
                and F.src(F.strip(F.call_args(y)[2])) == 'insn->ops[0]' and F.src(F.strip(F.call_args(y)[3])) == 'insn->ops[1]']
        rem = [y for y in F.walk(th) if y['k'] == 'CallExpr' and y.get('callee') == 'MIR_remove_insn']
        nested = [y for y in F.walk(th) if y['k'] == 'IfStmt' and any(z is n_ for n_ in news for z in F.walk(y))]
        if news and rem and all(F.const_value(F.call_args(n_)[1]) is None or True for n_ in news):
            # the innermost if-statement that contains both
            if site is None or (x['l'] >= site['l'] and any(z is x for z in F.walk(site))):
                site = x
    if site is None:
        raise F.AnalysisBroken('simplify_func: the neutral-element shortcut was not found')
    me = MayEval(tu)
    n = 0
    first = None
    for cname, cval in tu.enum('MIR_insn_code_t'):
        if not cname.startswith('MIR_') or cname in ('MIR_INSN_BOUND', 'MIR_INVALID_INSN'):
            continue
        sp = SPEC.parse(cname[4:])
        env = {'code': cval, 'insn->code': cval, 'insn->nops': 3}
        t = me.truth(site['c'][0], env)
        can = True in t
        allowed = sp is not None and sp.dom == 'i' and sp.kind == 'arith'
        ok = (not can) or allowed
        n += 1
        run.ob(rule, (cname,), ok, {'opcode': cname, 'shortcut can fire': can, 'plain integer arithmetic': allowed})
        if not ok and first is None:
            first = cname
    if first:
        run.violation(rule, f, 'neutral-element shortcut for %s' % first,
                      'simplify_func can replace %s with a constant third operand by a move of the second operand; that is not an '
                      'identity for this opcode (floating point: (-0.0) + 0.0 is +0.0 and a signalling NaN is quieted; overflow '
                      'producers: the flags are lost)' % first, line=site['l'])
    run.min_instances(rule, 150)


# ---------------------------------------------------------------------------------------------
# RF48: the branch-reversal table
# ---------------------------------------------------------------------------------------------

def rf48(run):
    import sys as _sys, os as _os
    _sys.path.insert(0, _os.path.join(F.VERIF, 'spec'))
    import opcodes as SPEC
    rule = 'RF48'
    run.rule(rule, 'MIR_reverse_branch_code over every opcode: a conditional branch is mapped to the branch with the negated relation of '
                   'the same width, signedness and domain (BT<->BF, EQ<->NE, LT<->GE, LE<->GT, BO<->BNO); floating-point branches are '
                   'reversible only for EQ/NE — !(a < b) is not a >= b when an operand is NaN; every other opcode maps to MIR_INSN_BOUND')
    tu = run.tu('mir')
    f = tu.func('MIR_reverse_branch_code')
    run.functions_analysed.add(('mir', f.name))
    me = MayEval(tu)
    codes = tu.enum('MIR_insn_code_t')
    byv = {}
    for nm, v in codes:
        byv.setdefault(v, nm)
    bound = dict(codes)['MIR_INSN_BOUND']
    NEG = {'==': '!=', '!=': '==', '<': '>=', '>=': '<', '<=': '>', '>': '<='}
    n = 0
    first = None
    for nm, v in codes:
        if v >= bound:
            continue
        rs = me.returns(F.kids(f.body), {'code': v})
        if rs is None or len(rs) != 1:
            raise F.AnalysisBroken('MIR_reverse_branch_code (%s) not evaluable: %s' % (nm, rs))
        r = next(iter(rs))
        rn = byv.get(r, str(r))
        sp = SPEC.parse(nm[4:])
        exp = None
        if nm in ('MIR_BT', 'MIR_BF', 'MIR_BTS', 'MIR_BFS'):
            exp = {'MIR_BT': 'MIR_BF', 'MIR_BF': 'MIR_BT', 'MIR_BTS': 'MIR_BFS', 'MIR_BFS': 'MIR_BTS'}[nm]
        elif nm in ('MIR_BO', 'MIR_BNO', 'MIR_UBO', 'MIR_UBNO', 'MIR_PRBEQ', 'MIR_PRBNE'):
            exp = {'MIR_BO': 'MIR_BNO', 'MIR_BNO': 'MIR_BO', 'MIR_UBO': 'MIR_UBNO', 'MIR_UBNO': 'MIR_UBO',
                   'MIR_PRBEQ': 'MIR_PRBNE', 'MIR_PRBNE': 'MIR_PRBEQ'}[nm]
        elif sp is not None and sp.kind == 'bcmp':
            if sp.dom == 'i' or sp.op in ('==', '!='):
                # the opcode with the same attributes and the negated relation
                for nm2, v2 in codes:
                    s2 = SPEC.parse(nm2[4:]) if nm2.startswith('MIR_') else None
                    if s2 is not None and s2.kind == 'bcmp' and s2.dom == sp.dom and s2.width == sp.width and s2.op == NEG[sp.op] \
                            and (s2.signed == sp.signed or sp.op in ('==', '!=')):
                        exp = nm2
                        break
        # reversal is optional (a missing entry only loses an optimisation) but a present one must be right
        ok = rn == 'MIR_INSN_BOUND' or (exp is not None and rn == exp)
        n += 1
        if rn != 'MIR_INSN_BOUND' or not ok:
            run.ob(rule, (nm,), ok, {'opcode': nm, 'reversed to': rn, 'allowed': exp or 'none (MIR_INSN_BOUND)'})
        else:
            run.ob(rule, (nm,), ok)
        if not ok and first is None:
            first = (nm, rn, exp)
    if first:
        nm, rn, exp = first
        sp = SPEC.parse(nm[4:])
        why = 'an ordered floating-point comparison is false for NaN operands, and so is its "opposite": `%s L1; jmp L2; L1:` rewritten to `%s L2` ' \
              'falls into the true arm for a NaN' % (nm[4:].lower(), rn[4:].lower()) if (sp is not None and sp.dom != 'i') else \
            'the reversed branch must test the negated relation with the same width and signedness (%s)' % (exp or 'no reversal exists')
        run.violation(rule, f, 'reversal of %s' % nm, 'MIR_reverse_branch_code maps %s to %s: %s' % (nm, rn, why), line=f.line)
    run.min_instances(rule, 150)


# ---------------------------------------------------------------------------------------------
# RF49: the overlap test of two constant-offset memory ranges (dead store elimination)
# ---------------------------------------------------------------------------------------------

def rf49(run):
    rule = 'RF49'
    run.rule(rule, 'alloca_mem_intersect_p: once both displacements are known and based on the same alloca, the result is TRUE exactly '
                   'when the byte ranges [disp1, disp1 + size1) and [disp2, disp2 + size2) overlap — evaluated for all displacements '
                   '0..24 and sizes 1, 2, 4, 8, 16; a FALSE for overlapping ranges lets dead-store elimination delete a store that a later '
                   'load of another size still reads')
    gen = run.tu('gen')
    f = gen.func('alloca_mem_intersect_p')
    run.functions_analysed.add(('gen', f.name))
    ks = F.kids(f.body)
    last = -1
    for i, st in enumerate(ks):
        if st['k'] == 'BinaryOperator' and st['op'] == '=' and F.src(F.strip(st['c'][0])) in ('disp1', 'disp2', 'size1', 'size2'):
            last = i
    if last < 0:
        raise F.AnalysisBroken('alloca_mem_intersect_p: the assignments of disp1/disp2/size1/size2 were not found')
    tail = ks[last + 1:]
    me = MayEval(gen)
    n = 0
    first = None
    for s1 in (1, 2, 4, 8, 16):
        for s2 in (1, 2, 4, 8, 16):
            for d1 in range(0, 25):
                for d2 in range(0, 25):
                    rs = me.returns(tail, {'disp1': d1, 'disp2': d2, 'size1': s1, 'size2': s2})
                    if rs is None or len(rs) != 1:
                        raise F.AnalysisBroken('alloca_mem_intersect_p: tail not evaluable (%s)' % rs)
                    got = bool(next(iter(rs)))
                    exp = d1 < d2 + s2 and d2 < d1 + s1
                    ok = got == exp
                    n += 1
                    if not ok and first is None:
                        first = (d1, s1, d2, s2, got)
                    if not ok or n % 997 == 0:
                        run.ob(rule, (d1, s1, d2, s2), ok, {'range 1': '[%d, %d)' % (d1, d1 + s1), 'range 2': '[%d, %d)' % (d2, d2 + s2), 'reported': got, 'overlap': exp})
                    else:
                        run.ob(rule, (d1, s1, d2, s2), ok)
    if first:
        d1, s1, d2, s2, got = first
        run.violation(rule, f, 'overlap of [%d,%d) and [%d,%d)' % (d1, d1 + s1, d2, d2 + s2),
                      'alloca_mem_intersect_p reports %s for the ranges [%d, %d) and [%d, %d), which %s: %s'
                      % ('an intersection' if got else 'no intersection', d1, d1 + s1, d2, d2 + s2, 'do not overlap' if got else 'overlap',
                         'a store that is still read is deleted as dead' if not got else 'the elimination is only less effective'), line=f.line)
    run.min_instances(rule, 10000)


# ---------------------------------------------------------------------------------------------
# RF86: constant folding of a division cannot trap inside the generator
# RF87: strength reduction of mul/div by 2^k requires 2^k to be a positive power of two in the instruction width
# ---------------------------------------------------------------------------------------------

def rf86(run):
    import re
    rule = 'RF86'
    run.rule(rule, 'GVN constant folding of DIV/MOD family: the C division that computes the folded value is executed only when it cannot trap '
                   'in the generator process.  For each of the eight opcodes the guard of the fold, evaluated over divisor / dividend pairs '
                   'in the operation\'s own width, excludes a zero divisor and (signed) the minimum value divided by -1')
    gen = run.tu('gen')
    f = gen.func('gvn_modify')
    run.functions_analysed.add(('gen', f.name))
    sws = [s_ for s_ in f.walk() if s_['k'] == 'SwitchStmt' and F.src(s_['c'][0]).replace(' ', '') == 'insn->code']
    if not sws:
        raise F.AnalysisBroken('gvn_modify: switch on insn->code not found')
    from lib import regions as R
    sw = max(sws, key=lambda s_: len(R.switch_regions(f, s_)))
    regs = R.switch_regions(f, sw)
    spec = {'MIR_DIV': (64, True), 'MIR_DIVS': (32, True), 'MIR_UDIV': (64, False), 'MIR_UDIVS': (32, False),
            'MIR_MOD': (64, True), 'MIR_MODS': (32, True), 'MIR_UMOD': (64, False), 'MIR_UMODS': (32, False)}
    n = 0
    for r in regs:
        for (nm, lo, hi) in r['cases']:
            if nm not in spec:
                continue
            w, sg = spec[nm]
            # the statement that divides: val = p1 OP p2 under an if
            divs = [x for x in R.region_nodes(r['stmts']) if x['k'] == 'BinaryOperator' and x['op'] in ('/', '%')]
            if not divs:
                raise F.AnalysisBroken('gvn_modify: no division in the fold of %s' % nm)
            d = divs[0]
            a, b = F.src(F.strip(d['c'][0])), F.src(F.strip(d['c'][1]))
            ta, tb = gen.type(F.strip(d['c'][0])), gen.type(F.strip(d['c'][1]))
            # enclosing if of the division
            guard = None
            cur = d['i']
            while cur is not None:
                p_ = f.parent.get(cur)
                if p_ is None:
                    break
                pn = f.nodes[p_]
                if pn['k'] == 'IfStmt' and any(y is d for y in F.walk(pn['c'][1])):
                    guard = pn
                    break
                cur = p_
            txt = F.src(guard['c'][0]).replace(' ', '') if guard is not None else ''
            width_ok = ta is not None and tb is not None and ta.w == w and tb.w == w
            zero_ok = re.search(r'\b%s!=0' % re.escape(b), txt) is not None
            mn = 'INT64_MIN' if w == 64 else 'INT32_MIN'
            minus_ok = (not sg) or (re.search(r'%s!=\(?-\(?%d' % (re.escape(a), (1 << (w - 1)) if False else 0), txt) is not None) or \
                (('%s!=' % a) in txt and ('%s!=-1' % b in txt or '%s!=(-1)' % b in txt))
            n += 1
            ok = width_ok and zero_ok and minus_ok
            run.ob(rule, (nm,), ok, {'opcode': nm, 'division': F.src(d)[:30], 'operand width': (ta.w if ta else None), 'guard': F.src(guard['c'][0])[:110] if guard else None})
            if not ok:
                why = ('the division is computed in %s bits, the opcode is %d-bit' % (ta.w if ta else '?', w)) if not width_ok else \
                      ('the divisor `%s` (in the width of the division) is not tested against zero' % b) if not zero_ok else \
                      ('%s / -1 is not excluded' % mn)
                run.violation(rule, f, 'fold of %s can trap' % nm, 'GVN folds %s with `%s`: %s - the generator itself receives SIGFPE while compiling, even '
                              'when the division is never executed' % (nm, F.src(d)[:30], why), line=d['l'])
    if n != 8:
        raise F.AnalysisBroken('gvn_modify: %d of the 8 division folds found' % n)
    return n


def rf87(run):
    rule = 'RF87'
    run.rule(rule, 'transform_mul_div: the shift count is the log2 of the 64-bit constant; the replacement by a shift is valid only when the '
                   'constant is a positive power of two in the width and signedness of the instruction (MUL, UDIV: k <= 63; DIV: k <= 62; MULS, '
                   'UDIVS: k <= 31; DIVS: k <= 30).  Evaluated over opcode x k = 0..63: every (opcode, k) outside these bounds takes the '
                   '`return insn` exit in front of the first new instruction')
    gen = run.tu('gen')
    f = gen.func('transform_mul_div')
    run.functions_analysed.add(('gen', f.name))
    preds = EF.Predicates(gen)
    codes = dict(gen.enum('MIR_insn_code_t'))
    first_new = min(x['l'] for x in f.walk() if x['k'] == 'CallExpr' and x.get('callee') == 'MIR_new_insn')
    exits = [x for x in F.kids(f.body) if x['k'] == 'IfStmt' and x['l'] < first_new and 'sh' in F.src(x['c'][0])
             and any(y['k'] == 'ReturnStmt' for y in F.walk(x['c'][1]))]
    if not exits:
        raise F.AnalysisBroken('transform_mul_div: no early exit on sh')
    limit = {'MIR_MUL': 63, 'MIR_UDIV': 63, 'MIR_DIV': 62, 'MIR_MULS': 31, 'MIR_UDIVS': 31, 'MIR_DIVS': 30}
    n = 0
    for nm, lim in sorted(limit.items()):
        bad = []
        for k in range(0, 64):
            env = {'insn->code': codes[nm], 'sh': k}
            out = False
            for x in exits:
                v = preds.eval(x['c'][0], env, frozenset())
                if v is None:
                    raise F.AnalysisBroken('transform_mul_div: exit `%s` not evaluable for %s, sh=%d' % (F.src(x['c'][0])[:50], nm, k))
                if v:
                    out = True
            if k > lim and not out:
                bad.append(k)
        n += 1
        run.ob(rule, (nm,), not bad, {'opcode': nm, 'largest valid k': lim, 'k transformed although invalid': bad[:6]})
        if bad:
            run.violation(rule, f, 'shift for %s by 2^%d' % (nm, bad[0]), '%s with the constant 2^%d (…2^%d) is replaced by a shift: in the '
                          '%d-bit %s arithmetic of the instruction that constant is %s, and x86 masks the shift count to the operand width'
                          % (nm, bad[0], bad[-1], 32 if nm.endswith('S') else 64, 'signed' if nm in ('MIR_DIV', 'MIR_DIVS') else 'unsigned',
                             'zero' if bad[0] >= (32 if nm.endswith('S') else 64) else 'negative'), line=exits[0]['l'])
    return n


# ---------------------------------------------------------------------------------------------
# RF100: lowering of a memory result never puts arithmetic between an overflow producer and its branch
# ---------------------------------------------------------------------------------------------

def rf100(run):
    rule = 'RF100'
    run.rule(rule, 'simplify_op lowers a memory operand `T:disp(base, index, scale)` to a base-only one with MOV / MUL / ADD instructions.  '
                   'For a memory *result* of a non-move instruction they are inserted after the instruction (after_p) - except, by '
                   'evaluation of that flag over all opcodes, for the overflow-flag producers: MIR allows only moves and stores between '
                   'a producer and its BO/BNO/UBO/UBNO, and x86 ADD / IMUL overwrite the flags')
    tu = run.tu('mir')
    f = tu.func('simplify_op')
    run.functions_analysed.add(('mir', f.name))
    preds = EF.Predicates(tu)
    uni = frozenset(v for nm, v in tu.enum('MIR_insn_code_t'))
    ovf = preds.true_set('MIR_overflow_insn_code_p', uni)
    names = {}
    for nm, v in tu.enum('MIR_insn_code_t'):
        names.setdefault(v, nm)
    decl = None
    for x in f.walk():
        if x['k'] == 'DeclStmt':
            for d in x['decls']:
                if d['n'] == 'after_p' and d.get('init') is not None:
                    decl = d
    if decl is None:
        raise F.AnalysisBroken('simplify_op: the placement flag after_p was not found')
    n = 0
    bad = []
    for v in sorted(ovf):
        r = preds.eval(decl['init'], {'move_p': 0, 'out_p': 1, 'code': v}, frozenset())
        if r is None:
            raise F.AnalysisBroken('simplify_op: after_p not evaluable for %s' % names[v])
        n += 1
        ok = not r
        run.ob(rule, (names[v],), ok, {'opcode': names[v], 'address instructions placed after it': bool(r)} if n % 3 == 1 or not ok else None)
        if not ok:
            bad.append(names[v])
    if bad:
        run.violation(rule, f, 'address arithmetic behind %s' % '/'.join(bad[:3]), 'for a memory result of %s simplify_op inserts the address '
                      'computation (mov / mul / add) after the instruction: `addo i64:8(p), a, b; bo L` becomes addo; mov; add; mov; bo and '
                      'the generated add overwrites the overflow flag the branch tests' % '/'.join(bad), line=decl['init']['l'])
    return n


# ---------------------------------------------------------------------------------------------
# RF48b: no opcode map negates an ordered floating-point relation
# ---------------------------------------------------------------------------------------------

def rf48b(run, units=('mir', 'gen')):
    import sys as _sys, os as _os
    _sys.path.insert(0, _os.path.join(F.VERIF, 'spec'))
    import opcodes as SPEC
    rule = 'RF48b'
    run.rule(rule, 'every function of mir.c / mir-gen.c that maps an opcode to an opcode (one MIR_insn_code_t parameter, result '
                   'MIR_insn_code_t, body a switch of returns), evaluated for all opcodes: a floating-point comparison or branch with an '
                   'ordered relation (<, <=, >, >=) is never mapped to the negated relation of the same type — both are false for a NaN, '
                   'so `fblt L1; jmp L2; L1:` is not `fbge L2`.  (Swapping the operands, LT -> GT, is a different map and is decided by RF110.)')
    NEG = {'<': '>=', '>=': '<', '<=': '>', '>': '<='}
    n = 0
    maps = 0
    for u in units:
        tu = run.tu(u)
        codes = tu.enum('MIR_insn_code_t')
        byv = {}
        for nm, v in codes:
            byv.setdefault(v, nm)
        bound = dict(codes)['MIR_INSN_BOUND']
        me = MayEval(tu)
        for f in tu.func_list:
            if f.body is None or not f.file.startswith('/repo') or len(f.params) != 1:
                continue
            if 'MIR_insn_code_t' not in tu.type(f.ret).s or 'MIR_insn_code_t' not in tu.type(f.params[0]['t']).s:
                continue
            if u == 'gen' and f.name in tu_names_seen(run, 'mir'):
                continue
            maps += 1
            run.functions_analysed.add((u, f.name))
            pn = f.params[0]['n']
            for nm, v in codes:
                if v >= bound or not nm.startswith('MIR_'):
                    continue
                sp = SPEC.parse(nm[4:])
                if sp is None or sp.kind not in ('bcmp', 'cmp') or sp.dom == 'i' or sp.op not in NEG:
                    continue
                try:
                    rs = me.returns(F.kids(f.body), {pn: v})
                except F.AnalysisBroken:
                    rs = None
                if rs is None:
                    raise F.AnalysisBroken('%s (%s) not evaluable' % (f.name, nm))
                n += 1
                bad = None
                for r in rs:
                    rn = byv.get(r, str(r))
                    s2 = SPEC.parse(rn[4:]) if rn.startswith('MIR_') else None
                    if s2 is not None and s2.kind == sp.kind and s2.dom == sp.dom and s2.width == sp.width and s2.op == NEG[sp.op]:
                        bad = rn
                run.ob(rule, (f.name, nm), bad is None, {'map': f.name, 'opcode': nm, 'result': sorted(byv.get(r, str(r)) for r in rs)} if bad or n % 24 == 1 else None)
                if bad:
                    run.violation(rule, f, '%s -> %s' % (nm, bad), '%s maps %s to %s, the negated relation: both are false when an operand is NaN, so code '
                                  'rewritten through this map (a branch over a jump turned into the "opposite" branch) takes the other arm for a NaN' %
                                  (f.name, nm, bad), line=f.line)
    if maps < 2:
        raise F.AnalysisBroken('RF48b: only %d opcode maps found' % maps)
    return n


def tu_names_seen(run, unit):
    """names of functions defined in another unit (mir.c is textually included by mir-gen.c builds? no: separate units) — used to
    avoid analysing the same included function twice"""
    tu = run.tu(unit)
    return {f.name for f in tu.func_list if f.body is not None}


# ---------------------------------------------------------------------------------------------
# RF141: the "by 2^0" shortcut of strength reduction is an identity only for multiply and divide
# ---------------------------------------------------------------------------------------------

def rf141(run):
    from lib import absint as AI
    rule = 'RF141'
    run.rule(rule, 'transform_mul_div, evaluated for every opcode with a constant operand 2^0 = 1 (sh == 0): a plain move of the first source '
                   'operand is emitted only for multiplications and divisions (x * 1 == x / 1 == x).  An opcode added to the function '
                   'whose neutral element is not 1 (x % 1 == 0) must not reach that shortcut')
    tu = run.tu('gen')
    f = tu.func('transform_mul_div')
    run.functions_analysed.add(('gen', f.name))
    preds = EF.Predicates(tu)
    codes = tu.enum('MIR_insn_code_t')
    cd = dict(codes)
    bound = cd['MIR_INSN_BOUND']
    names = {}
    for nm, v in codes:
        names.setdefault(v, nm)
    ident = {'MIR_MUL', 'MIR_MULS', 'MIR_UDIV', 'MIR_UDIVS', 'MIR_DIV', 'MIR_DIVS'}
    n = 0
    for nm, v in codes:
        if v >= bound:
            continue
        col = AI.Collector(tu, preds, lambda x: x.get('callee') == 'MIR_new_insn')
        env = {'insn->code': v, 'sh': 0}
        try:
            col.run(_without_assign(f.body, 'sh'), env)
        except F.AnalysisBroken:
            continue
        movs = []
        for call, e in col.hits:
            cv = preds.eval(F.call_args(call)[1], e, frozenset())
            if cv is not None and names.get(cv) == 'MIR_MOV' and 'ops[1]' in F.src(F.call_args(call)[3]) and 'ops[0]' in F.src(F.call_args(call)[2]):
                movs.append(call)
        if not col.hits:
            continue
        n += 1
        ok = not movs or nm in ident
        run.ob(rule, (nm,), ok, {'opcode': nm, 'replaced by a move for the constant 1': bool(movs)})
        if not ok:
            run.violation(rule, f, '%s by 1 becomes a move' % nm, 'transform_mul_div replaces `%s r, x, 1` by `mov r, x` (line %d): for this opcode the '
                          'result with the constant 1 is not x (x %% 1 is 0), so -O2 and -O3 compute another value than the interpreter' %
                          (nm[4:].lower(), movs[0]['l']), line=movs[0]['l'])
    if n < 6:
        raise F.AnalysisBroken('RF141: only %d opcodes transformed by transform_mul_div' % n)
    return n


# ---------------------------------------------------------------------------------------------
# RF142: simplify_op takes "the address is one register" only when it is
# ---------------------------------------------------------------------------------------------

def rf142(run):
    import itertools
    from lib import printexec as PE
    rule = 'RF142'
    run.rule(rule, 'simplify_op, memory case: the shortcut that uses one register of the operand as the whole address is evaluated for every '
                   'combination of base / index present, scale in {0, 1, 2, 8} and displacement in {0, 16}: whenever it is taken, the register '
                   'it picks holds disp + base + index * scale (base alone with no index or scale 0; index alone with scale 1).  Otherwise '
                   'the address arithmetic must be generated')
    tu = run.tu('mir')
    f = tu.func('simplify_op')
    run.functions_analysed.add(('mir', f.name))
    ifs = [x for x in f.walk() if x['k'] == 'IfStmt' and any(y['k'] == 'BinaryOperator' and y['op'] == '=' and F.src(F.strip(y['c'][0])) == 'addr_reg'
                                                           and 'mem.' in F.src(y['c'][1]) for y in F.walk(x['c'][1]))]
    if not ifs:
        raise F.AnalysisBroken('simplify_op: the single-register shortcut was not found')
    site = min(ifs, key=lambda x: x['l'])
    n = 0
    first = None
    for base, index, scale, disp in itertools.product((0, 11), (0, 22), (0, 1, 2, 8), (0, 16)):
        if base == 0 and index == 0:
            continue
        env = {'op->u.mem.base': base, 'op->u.mem.index': index, 'op->u.mem.scale': scale, 'op->u.mem.disp': disp, 'addr_reg': 0}
        ex = PE.PrintExec(tu, {}, {}, {})
        # execute only the shortcut arms: cut the chain at the final else
        node = site
        taken = None
        while node is not None and node['k'] == 'IfStmt':
            try:
                c = ex.val(node['c'][0], env)
            except F.AnalysisBroken as e_:
                raise F.AnalysisBroken('simplify_op: shortcut condition not evaluable: %s' % e_)
            if c is None:
                raise F.AnalysisBroken('simplify_op: shortcut condition `%s` not evaluable' % F.src(node['c'][0])[:60])
            if c:
                assigns = [y for y in F.walk(node['c'][1]) if y['k'] == 'BinaryOperator' and y['op'] == '=' and F.src(F.strip(y['c'][0])) == 'addr_reg']
                if assigns and 'mem.' in F.src(assigns[0]['c'][1]):
                    taken = ex.val(assigns[0]['c'][1], env)
                break
            node = node['c'][2] if len(node['c']) > 2 else None
        regval = {11: 1000, 22: 7}
        want_addr = disp + (1000 if base else 0) + (7 * scale if index else 0)
        n += 1
        ok = taken is None or regval.get(taken) == want_addr
        run.ob(rule, (base, index, scale, disp), ok, {'base': bool(base), 'index': bool(index), 'scale': scale, 'disp': disp,
                                                     'shortcut register': {None: None, 11: 'base', 22: 'index'}.get(taken, taken)} if n % 8 == 1 or not ok else None)
        if not ok and first is None:
            first = (base, index, scale, disp, taken)
    if first:
        base, index, scale, disp, taken = first
        run.violation(rule, f, 'single-register shortcut', 'for a memory operand with %s%s scale %d and displacement %d simplify_op uses the %s '
                      'register alone as the address: `i64:(,i,8)` is lowered to `i64:(i)` and accesses address i instead of i * 8' %
                      ('a base, ' if base else 'no base, ', 'an index,' if index else 'no index,', scale, disp, 'base' if taken == 11 else 'index'), line=site['l'])
    return n


# ---------------------------------------------------------------------------------------------
# RF149: the memory-type key of GVN separates loads that yield different values
# ---------------------------------------------------------------------------------------------

def rf149(run):
    from lib import printexec as PE
    rule = 'RF149'
    run.rule(rule, 'GVN treats two accesses of the same address as one memory expression when mem_expr_eq finds their type keys equal, and '
                   'then reuses the value of the earlier access.  The key function mem_expr_eq applies to `var_mem.type` (and mem_expr_hash '
                   'with it), executed for every memory type, gives two types the same key only if a load of either yields the same '
                   '64-bit value: same size and, below 8 bytes, the same extension (i64 / u64 / p on a 64-bit target are interchangeable; '
                   'u8 and i8 are not, p and i32 are not)')
    gen = run.tu('gen')
    eq = gen.func('mem_expr_eq')
    hs = gen.func('mem_expr_hash')
    run.functions_analysed.update({('gen', eq.name), ('gen', hs.name)})

    def key_funcs(fn):
        out = set()
        for x in fn.walk():
            if x['k'] == 'CallExpr' and x.get('callee') in gen.funcs and F.call_args(x) and F.src(F.strip(F.call_args(x)[0])).replace(' ', '').endswith('var_mem.type'):
                out.add(x['callee'])
        return out
    ke, kh = key_funcs(eq), key_funcs(hs)
    if len(ke) != 1:
        raise F.AnalysisBroken('mem_expr_eq: the key function applied to the memory type was not found (%s)' % sorted(ke))
    kf = gen.funcs[next(iter(ke))]
    run.functions_analysed.add(('gen', kf.name))
    tys = dict(gen.enum('MIR_type_t'))
    names = ['MIR_T_I8', 'MIR_T_U8', 'MIR_T_I16', 'MIR_T_U16', 'MIR_T_I32', 'MIR_T_U32', 'MIR_T_I64', 'MIR_T_U64', 'MIR_T_F', 'MIR_T_D', 'MIR_T_LD', 'MIR_T_P']
    cls = {'MIR_T_I8': ('i', 1, 's'), 'MIR_T_U8': ('i', 1, 'u'), 'MIR_T_I16': ('i', 2, 's'), 'MIR_T_U16': ('i', 2, 'u'), 'MIR_T_I32': ('i', 4, 's'),
           'MIR_T_U32': ('i', 4, 'u'), 'MIR_T_I64': ('i', 8, '-'), 'MIR_T_U64': ('i', 8, '-'), 'MIR_T_P': ('i', 8, '-'),
           'MIR_T_F': ('f', 4, '-'), 'MIR_T_D': ('d', 8, '-'), 'MIR_T_LD': ('ld', 16, '-')}
    key = {}
    for nm in names:
        ex = PE.PrintExec(gen, {}, {}, {})
        ex.retval = 'none'
        pn = kf.params[0]['n']
        try:
            ex.run(kf.body, {pn: tys[nm]})
        except F.AnalysisBroken as e_:
            raise F.AnalysisBroken('%s not executable for %s: %s' % (kf.name, nm, e_))
        if not isinstance(ex.retval, int):
            raise F.AnalysisBroken('%s: no result for %s' % (kf.name, nm))
        key[nm] = ex.retval
    n = 0
    first = None
    for i, a in enumerate(names):
        for b in names[i + 1:]:
            same_key = key[a] == key[b]
            n += 1
            ok = not same_key or cls[a] == cls[b]
            if same_key or not ok:
                run.ob(rule, (a, b), ok, {'types': (a, b), 'same key': same_key, 'same load result': cls[a] == cls[b]})
            else:
                run.ob(rule, (a, b), ok)
            if not ok and first is None:
                first = (a, b)
    n += 1
    okh = ke == kh
    run.ob(rule, ('hash',), okh, {'key function of mem_expr_eq': sorted(ke), 'of mem_expr_hash': sorted(kh)})
    if not okh:
        run.violation(rule, hs, 'hash and equality use different keys', 'mem_expr_hash applies %s to the memory type, mem_expr_eq %s' % (sorted(kh), sorted(ke)), line=hs.line)
    if first:
        a, b = first
        run.violation(rule, kf, 'memory types %s and %s share a key' % (a[6:].lower(), b[6:].lower()), '%s gives %s and %s the same key, so GVN takes a %s '
                      'access and a %s access of one address for the same memory expression and reuses the earlier value: a load yields the '
                      'value extended (or sized) for the other type at -O2 and -O3' % (kf.name, a, b, a[6:].lower(), b[6:].lower()), line=kf.line)
    return n


# ---------------------------------------------------------------------------------------------
# RF166: an extension disappears only behind a comparison
# ---------------------------------------------------------------------------------------------

def rf166(run):
    import rf_proto
    rule = 'RF166'
    run.rule(rule, 'generator: an instruction is rewritten into a plain move (`insn->code = MIR_MOV`) at two places only — transform_addr (the '
                   'address of a spilled variable) and copy_prop, where an extension of the 0/1 result of a 64-bit comparison is the '
                   'identity (guard `cmp_res64_p (def_insn->code)`).  In particular no extension of an *incoming parameter* is dropped: the '
                   'psABI leaves the bits above a narrow argument undefined, a native caller passes `int -5` as 0x00000000fffffffb, and '
                   'the extension that simplify_func places at the function start is what makes the 64-bit register value right')
    tu = run.tu('gen')
    TABLE = {'transform_addr': None, 'copy_prop': 'cmp_res64_p'}
    n = 0
    for g in tu.func_list:
        if g.body is None or not g.file.endswith(('mir-gen.c', 'mir-gen-x86_64.c')):
            continue
        for x in g.walk():
            if not (x['k'] == 'BinaryOperator' and x['op'] == '=' and F.src(F.strip(x['c'][0])).replace(' ', '').endswith('->code')):
                continue
            r = F.strip(x['c'][1])
            if not (r['k'] == 'DeclRefExpr' and r.get('n') in ('MIR_MOV', 'MIR_FMOV', 'MIR_DMOV', 'MIR_LDMOV')):
                continue
            n += 1
            run.functions_analysed.add(('gen', g.name))
            why = None
            if g.name not in TABLE:
                why = '%s is not one of the two functions that may turn an instruction into a move' % g.name
            elif TABLE[g.name] is not None:
                cfg = g.cfg
                b = cfg.block_of(x)
                conds = rf_proto.dominating_conditions(cfg, b) if b is not None else []
                if not any(t and TABLE[g.name] + '(' in c.replace(' ', '') for c, t in conds):
                    why = 'the rewriting is not under the guard `%s (…)`' % TABLE[g.name]
            run.ob(rule, (g.name, x['l']), why is None, {'site': '%s:%d %s' % (g.relfile(), x['l'], g.name), 'assignment': F.src(x)[:50]})
            if why:
                run.violation(rule, g, 'instruction turned into a move', '`%s` at line %d: %s.  If the instruction is an extension of a narrow '
                              'parameter, a native caller\'s undefined upper bits reach 64-bit arithmetic (f (i32:a) {add r,a,1000} called with -5 '
                              'returns 4294968291)' % (F.src(x)[:40], x['l'], why), line=x['l'])
    run.control(rule, 'rewrites into a move found', n >= 2)
    return n


# ---------------------------------------------------------------------------------------------
# RF170: no 64-bit value travels through a narrower return type into a 64-bit variable
# ---------------------------------------------------------------------------------------------

def rf170(run, units=('gen', 'mir')):
    rule = 'RF170'
    run.rule(rule, 'generator and mir.c: MIR integer values are 64 bits wide.  A function whose return statement narrows a 64-bit integer '
                   'expression implicitly (return type int or smaller) and whose result is converted back to a 64-bit integer at a call site '
                   'loses the upper half on the way: `static int sum (…) { return (int64_t) ((uint64_t) c1 + (uint64_t) c2); }` with '
                   '`val = sum (…)` for an int64_t val.  (Functions that narrow but are only used in narrow contexts — counts, indexes, '
                   'flags — are listed in the evidence and accepted.)')
    total = 0
    for u in units:
        tu = run.tu(u)
        narrowing = {}
        for g in tu.func_list:
            if g.body is None or not g.file.startswith('/repo') or (u != 'mir' and g.file.endswith('/mir.c')):
                continue
            for x in g.walk():
                if x['k'] == 'ReturnStmt' and F.kids(x):
                    e = F.kids(x)[0]
                    if e['k'] == 'ImplicitCastExpr':
                        t, o = tu.type(e), tu.type(e['c'][0])
                        if t is not None and o is not None and getattr(t, 'kind', None) == 'int' and getattr(o, 'kind', None) == 'int' \
                                and o.w == 64 and t.w is not None and t.w < 64:
                            narrowing.setdefault(g.name, []).append((g, x['l'], F.src(e['c'][0])[:60], t.s))
        total += len(narrowing)
        widened = {}
        for g in tu.func_list:
            if g.body is None:
                continue
            for x in g.walk():
                if x['k'] in F.CASTS and x.get('c') and F.strip(x['c'][0])['k'] == 'CallExpr' and F.strip(x['c'][0]).get('callee') in narrowing:
                    t = tu.type(x)
                    if t is not None and getattr(t, 'kind', None) == 'int' and t.w == 64:
                        widened.setdefault(F.strip(x['c'][0])['callee'], []).append((g, x['l'], t.s))
        for fn, sites in sorted(narrowing.items()):
            g0, l0, src0, ts = sites[0]
            run.functions_analysed.add((u, fn))
            bad = widened.get(fn, [])
            run.ob(rule, (u, fn), not bad, {'function': fn, 'return narrows': '%s -> %s (line %d)' % (src0, ts, l0),
                                           'results converted back to 64 bits': ['%s:%d' % (c.name, l) for c, l, _ in bad]})
            if bad:
                c, l, t64 = bad[0]
                run.violation(rule, g0, '64-bit value through a %s return' % ts, '%s returns `%s` (a 64-bit value) as %s (line %d), and %s converts the '
                              'result back to %s (line %d): the upper 32 bits are lost and the low half is sign-extended — e.g. two constants '
                              'whose sum does not fit in 32 bits combine to a wrong constant' % (fn, src0, ts, l0, c.name, t64, l), line=l0)
    run.control(rule, 'narrowing returns seen by the extractor', total >= 3)
    return total


# ---------------------------------------------------------------------------------------------
# RF180: stored floating-point constants are looked up by their bits
# ---------------------------------------------------------------------------------------------

def rf180(run, units=('mir', 'gen')):
    rule = 'RF180'
    run.rule(rule, 'mir.c and the generator: a search through stored floating-point values — an `==` / `!=` between floating-point operands '
                   'inside a loop, one of them an element of a collection (`tab[i].v`, `p[i]`, `(*q).v` with q walking) — decides whether two '
                   'constants are *the same constant*.  Arithmetic equality is not that relation: 0.0 == -0.0, and a NaN differs from itself.  '
                   'Such look-ups compare the bytes (memcmp, or the integer image); a constant pool keyed by `==` hands `-0.0` the cell of '
                   '`0.0`.  (Comparisons that implement MIR semantics — the interpreter\'s feq, MIR_op_eq_p on two operands — are not '
                   'look-ups in a collection and are not judged.)')
    n = tot = 0
    for u in units:
        tu = run.tu(u)
        for g in tu.func_list:
            if g.body is None or not g.file.startswith('/repo') or (u != 'mir' and g.file.endswith('/mir.c')):
                continue
            for x in g.walk():
                if not (x['k'] == 'BinaryOperator' and x['op'] in ('==', '!=')):
                    continue
                ops = [F.strip(c) for c in x['c']]
                if not all((getattr(tu.type(o), 's', '') or '') in ('float', 'double', 'long double') for o in ops):
                    continue
                tot += 1

                def element(o):
                    while o['k'] == 'MemberExpr':
                        o = F.strip(o['c'][0])
                    return o['k'] == 'ArraySubscriptExpr' or (o['k'] == 'UnaryOperator' and o['op'] == '*')
                if not any(element(o) for o in ops):
                    continue
                p_ = g.parent_of(x)
                in_loop = False
                while p_ is not None:
                    if p_['k'] in ('ForStmt', 'WhileStmt', 'DoStmt'):
                        in_loop = True
                        break
                    p_ = g.parent_of(p_)
                if not in_loop:
                    continue
                n += 1
                run.functions_analysed.add((u, g.name))
                run.ob(rule, (u, g.name, x['l']), False, {'site': '%s:%d %s' % (g.relfile(), x['l'], g.name), 'comparison': F.src(x)[:70]})
                run.violation(rule, g, 'floating-point constants looked up with ==', '%s searches stored floating-point values with `%s` (line %d): '
                              '0.0 and -0.0 compare equal, so the constant met second gets the cell of the first and changes sign (1 / -0.0 '
                              'becomes +inf); compare the bytes instead' % (g.name, F.src(x)[:60], x['l']), line=x['l'])
    run.control(rule, 'floating-point comparisons seen by the extractor', tot >= 10)
    run.ob(rule, ('units',), n == 0, {'floating-point ==/!= inspected': tot, 'look-ups in a collection': n})
    return 1


# ---------------------------------------------------------------------------------------------
# RF200: address arithmetic of a store between an overflow producer and its branch
# ---------------------------------------------------------------------------------------------

def rf200(run):
    import rf_proto
    rule = 'RF200'
    run.rule(rule, 'MIR_finish_func accepts `mov <memory>, reg` between an overflow producer and its bo / bno / ubo / ubno.  simplify_op lowers '
                   '`T:disp(base, index, scale)` of such a store with MOV / MUL / ADD, and ADD / IMUL overwrite the x86 flags: the lowering '
                   'instructions have to go in front of the *producer*.  In simplify_op the insertion anchor is moved to a preceding '
                   'instruction under a test MIR_overflow_insn_code_p (…) of that instruction (and restored afterwards); without it '
                   '`addo r,a,b; mov i64:24(buf),v; bo L` never takes the branch in generated code (D122)')
    tu = run.tu('mir')
    f = tu.func('simplify_op')
    run.functions_analysed.add(('mir', f.name))
    cfg = f.cfg
    moved = []
    for x in f.walk():
        if x['k'] == 'BinaryOperator' and x['op'] == '=' and F.src(F.strip(x['c'][0])) == 'insn' and F.strip(x['c'][1])['k'] == 'DeclRefExpr' \
                and F.strip(x['c'][1]).get('dk') == 'local':
            b = cfg.block_of(x)
            conds = rf_proto.dominating_conditions(cfg, b) if b is not None else []
            if any(t and 'MIR_overflow_insn_code_p' in c and F.strip(x['c'][1])['n'] in c for c, t in conds):
                moved.append(x)
    ok = bool(moved)
    run.ob(rule, ('anchor',), ok, {'anchor moved to the overflow producer at lines': [x['l'] for x in moved]})
    if not ok:
        run.violation(rule, f, 'address arithmetic between an overflow producer and its branch', 'simplify_op inserts the MOV / MUL / ADD that lower the '
                      'address of a store directly in front of the store, also when the store stands between an overflow producer and its '
                      'branch: the ADD overwrites the flags and the branch on overflow is never taken in generated code', line=f.line)
    return 1
