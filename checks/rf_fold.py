"""RF23 extension-pair folding table: the generator's decision which of two stacked extensions survives, checked over its
whole finite domain against the arithmetic definition of sign/zero extension."""
import itertools
from lib import facts as F
from lib import enumflow as EF
from lib import regions as R

WIDTHS = (8, 16, 32)
SAMPLES = [0, 1, 0x7f, 0x80, 0xff, 0x100, 0x7fff, 0x8000, 0xffff, 0x10000, 0x7fffffff, 0x80000000, 0xffffffff,
           0x100000000, 0x123456789abcdef0, 0xfedcba9876543210, 0x8000000000000000, 0xffffffffffffffff,
           0x00000000ffff8000, 0xffffffff00008080, 0x80808080, 0x7f7f7f7f7f7f7f7f]
M64 = (1 << 64) - 1


def ext(x, w, signed):
    x &= (1 << w) - 1
    if signed and x >> (w - 1):
        x |= M64 & ~((1 << w) - 1)
    return x


def truth(w, s, w2, s2):
    """which single extension equals ext(w,s) applied after ext(w2,s2)?"""
    both = [ext(ext(x, w2, s2), w, s) for x in SAMPLES]
    res = set()
    if both == [ext(x, w, s) for x in SAMPLES]:
        res.add('outer')
    if both == [ext(x, w2, s2) for x in SAMPLES]:
        res.add('inner')
    return res


def rf23(run):
    rule = 'RF23'
    run.rule(rule, 'generator: for every pair (outer ext of width w/sign s applied to inner ext of width w2/sign s2) over {8,16,32}² × '
                   '{signed,unsigned}², the branch the code takes (keep the outer opcode / take the inner opcode) is one that the '
                   'arithmetic of sign and zero extension allows; get_ext_params maps each ext opcode to its width and signedness')
    tu = run.tu('gen')
    preds = EF.Predicates(tu)
    codes = dict(tu.enum('MIR_insn_code_t'))
    # --- get_ext_params ---
    gp = tu.func('get_ext_params')
    want = {'MIR_EXT8': (8, 1), 'MIR_EXT16': (16, 1), 'MIR_EXT32': (32, 1), 'MIR_UEXT8': (8, 0), 'MIR_UEXT16': (16, 0), 'MIR_UEXT32': (32, 0)}
    sign_expr = None
    for n in gp.walk():
        if n['k'] == 'BinaryOperator' and n['op'] == '=' and F.strip(n['c'][0])['k'] == 'UnaryOperator':
            sign_expr = n['c'][1]
    widths = {}
    for sw in R.find_switches(gp):
        for r in R.switch_regions(gp, sw):
            rets = [x for x in R.region_nodes(r['stmts']) if x['k'] == 'ReturnStmt']
            if rets:
                v = F.const_value(F.strip(F.kids(rets[0])[0]))
                for (nm, lo, hi) in r['cases']:
                    if nm:
                        widths[nm] = v
    if sign_expr is None or not widths:
        raise F.AnalysisBroken('get_ext_params not recognised')
    pname = gp.params[0]['n']
    for c, (w, s) in sorted(want.items()):
        sv = preds.eval(sign_expr, {pname: codes[c]}, frozenset(codes.values()))
        ok = widths.get(c) == w and sv is not None and int(bool(sv)) == s
        run.ob(rule, ('params', c), ok, {'opcode': c, 'width': widths.get(c), 'signed': sv, 'expected': [w, s]})
        if not ok:
            run.violation(rule, gp, 'get_ext_params (%s)' % c, 'get_ext_params maps %s to width %s / signed %s, expected %d / %d'
                          % (c, widths.get(c), sv, w, s), line=gp.line)
    # --- folding sites ---
    nsites = 0
    for f in tu.func_list:
        calls = [n for n in f.walk() if n['k'] == 'CallExpr' and n.get('callee') == 'get_ext_params']
        if len(calls) < 2:
            continue
        run.functions_analysed.add(('gen', f.name))
        info = []
        for c in calls:
            par = f.parent_of(c)
            while par is not None and par['k'] in F.CASTS:
                par = f.parent_of(par)
            wvar = None
            if par is not None and par['k'] == 'BinaryOperator' and par['op'] == '=':
                wvar = F.src(F.strip(par['c'][0]))
            a = F.call_args(c)
            svar = F.src(F.strip(F.strip(a[1])['c'][0])) if F.strip(a[1])['k'] == 'UnaryOperator' else None
            info.append((wvar, svar, F.src(a[0])))
        if any(i[0] is None or i[1] is None for i in info):
            run.analysis_broken(rule, '%s: result variables of get_ext_params not recognised' % f.name)
            continue
        # the if chain: IfStmts whose condition mentions both width variables
        wnames = {i[0] for i in info}
        chains = []
        for n in f.walk():
            if n['k'] == 'IfStmt' and wnames <= {x['n'] for x in F.walk(n['c'][0]) if x['k'] == 'DeclRefExpr'}:
                p = f.parent_of(n)
                if p is not None and p['k'] == 'IfStmt' and p['c'][2] is n:
                    continue  # part of an else-if chain, handled from its head
                chains.append(n)
        for head in chains:
            branches = []
            n = head
            while n is not None and n['k'] == 'IfStmt':
                branches.append((n['c'][0], n['c'][1]))
                n = n['c'][2]
            # classify branch bodies and find outer/inner instruction variables
            kinds = []
            outer_insn = inner_insn = None
            for cond, body in branches:
                kind = None
                for x in F.walk(body):
                    if x['k'] == 'BinaryOperator' and x['op'] == '=':
                        l, r = F.src(F.strip(x['c'][0])), F.src(F.strip(x['c'][1]))
                        if l.endswith('->code') and r.endswith('->code'):
                            kind = 'inner'
                            outer_insn, inner_insn = l[:-6], r[:-6]
                for x in F.walk(body):
                    if kind is None and x['k'] == 'BinaryOperator' and x['op'] == '=':
                        l, r = F.src(F.strip(x['c'][0])), F.src(F.strip(x['c'][1]))
                        if '->ops[1]' in l and '->ops[1]' in r and l.split('->')[0] != r.split('->')[0]:
                            kind = 'outer'
                kinds.append(kind)
            if outer_insn is None:
                # no branch takes the inner opcode: find outer/inner from an operand rewiring
                for cond, body in branches:
                    for x in F.walk(body):
                        if x['k'] == 'BinaryOperator' and x['op'] == '=':
                            l, r = F.src(F.strip(x['c'][0])), F.src(F.strip(x['c'][1]))
                            if '->ops[1]' in l and '->ops[1]' in r:
                                outer_insn, inner_insn = l.split('->')[0], r.split('->')[0]
            if outer_insn is None or not any(kinds):
                continue
            inner = [i for i in info if i[2].startswith(inner_insn + '->')]
            outer = [i for i in info if i not in inner]
            if len(inner) != 1 or len(outer) != 1:
                run.analysis_broken(rule, '%s: cannot tell the outer from the inner extension' % f.name)
                continue
            (w_o, s_o, _), (w_i, s_i, _) = outer[0], inner[0]
            nsites += 1
            for w, s, w2, s2 in itertools.product(WIDTHS, (0, 1), WIDTHS, (0, 1)):
                env = {w_o: w, s_o: s, w_i: w2, s_i: s2}
                decision = None
                for (cond, body), kind in zip(branches, kinds):
                    v = preds.eval(cond, env, frozenset())
                    if v is None:
                        decision = 'unknown'
                        break
                    if v:
                        decision = kind or 'none'
                        break
                if decision == 'unknown':
                    run.analysis_broken(rule, '%s: folding condition %s not evaluable' % (f.name, F.src(cond)[:80]))
                    break
                allowed = truth(w, s, w2, s2)
                ok = decision in (None, 'none') or decision in allowed
                desc = '%sext%d(%sext%d(x))' % ('' if s else 'u', w, '' if s2 else 'u', w2)
                run.ob(rule, (f.name, head['l'], w, s, w2, s2), ok,
                       {'site': '%s:%d %s' % (f.relfile(), head['l'], f.name), 'pair': desc, 'code keeps': decision or 'both',
                        'arithmetic allows': sorted(allowed) or ['neither']})
                if not ok:
                    run.violation(rule, f, 'fold %s -> %s' % (desc, decision),
                                  '%s rewrites %s to the %s extension alone, but that is not the same function (e.g. on inputs with bit '
                                  '%d set); arithmetic allows: %s' % (f.name, desc, decision, min(w, w2) - 1, sorted(allowed) or 'neither'),
                                  line=head['l'])
    if nsites < 2:
        run.analysis_broken(rule, 'only %d extension-folding sites recognised (copy_prop and combine_exts expected)' % nsites)
    return nsites


def rf25(run, units=('gen', 'mir')):
    """a shift of a 32-bit integer *constant* by a run-time amount whose result flows into a 64-bit integer is computed in 32
    bits: for amounts >= 32 the value is wrong (the strength-reduction code computes masks and powers of two this way)"""
    rule = 'RF25'
    run.rule(rule, 'no expression shifts a 32-bit integer constant by a non-constant amount and then widens the result to 64 bits '
                   '(e.g. (1 << sh) - 1 assigned to an int64_t): masks and powers of two for 64-bit MIR values must be computed in '
                   '64-bit arithmetic')
    n = 0
    for u in units:
        tu = run.tu(u)
        for f in tu.func_list:
            hits = 0
            for s in f.walk():
                if s['k'] != 'BinaryOperator' or s['op'] != '<<':
                    continue
                t = tu.type(s)
                if t is None or t.kind != 'int' or t.w != 32:
                    continue
                l, r = F.strip(s['c'][0]), F.strip(s['c'][1])
                if F.const_value(l) is None or F.const_value(r) is not None:
                    continue
                n += 1
                # follow the value through 32-bit arithmetic up to a widening conversion
                x, p = s, f.parent_of(s)
                widened = None
                while p is not None:
                    if p['k'] in F.CASTS:
                        pt = tu.type(p)
                        if pt is not None and pt.kind == 'int' and pt.w == 64:
                            widened = p
                            break
                        if pt is not None and pt.kind == 'int' and pt.w == 32:
                            x, p = p, f.parent_of(p)
                            continue
                        break
                    if p['k'] == 'BinaryOperator' and p['op'] in ('+', '-', '|', '&', '^', '*') and tu.type(p).w == 32:
                        x, p = p, f.parent_of(p)
                        continue
                    if p['k'] == 'UnaryOperator' and p['op'] in ('-', '~') and tu.type(p).w == 32:
                        x, p = p, f.parent_of(p)
                        continue
                    break
                # a dominating bound on the amount (sh < 32) would make it safe: look for a comparison of the amount with a
                # constant <= 32 in an enclosing if condition
                safe = False
                if widened is not None:
                    amt = F.src(r)
                    for a in f.ancestors(s):
                        if a['k'] == 'IfStmt':
                            for c in F.walk(a['c'][0]):
                                if c['k'] == 'BinaryOperator' and c['op'] in ('<', '<=') and F.src(F.strip(c['c'][0])) == amt:
                                    k = F.const_value(F.strip(c['c'][1]))
                                    if k is not None and k <= (32 if c['op'] == '<' else 31):
                                        safe = True
                ok = widened is None or safe
                run.ob(rule, (u, f.name, s['l']), ok, {'site': '%s:%d %s' % (f.relfile(), s['l'], f.name), 'shift': F.src(s),
                                                      'widened to 64 bits': widened is not None, 'amount bounded below 32': safe})
                if not ok:
                    run.violation(rule, f, 'shift %s' % F.src(s),
                                  '%s is evaluated in 32-bit int and then widened to %s: for a shift amount >= 32 the value is wrong '
                                  '(use a 64-bit constant)' % (F.src(x), tu.type(widened).s), line=s['l'])
    return n


def rf26(run):
    """width preservation in strength reduction: the instructions that replace a 32-bit (S-suffixed) multiply/divide are all
    32-bit opcodes, those replacing a 64-bit one are all 64-bit opcodes"""
    import os, sys
    sys.path.insert(0, os.path.join(F.VERIF, 'spec'))
    import opcodes as SPEC
    from lib import absint as AI
    rule = 'RF26'
    run.rule(rule, 'transform_mul_div: for each of MUL/MULS/UDIV/UDIVS/DIV/DIVS every arithmetic instruction of the replacement sequence '
                   'has the operand width of the replaced instruction (a 64-bit shift applied to a 32-bit operand reads the undefined '
                   'upper half)')
    tu = run.tu('gen')
    f = tu.func('transform_mul_div')
    run.functions_analysed.add(('gen', f.name))
    preds = EF.Predicates(tu)
    codes = dict(tu.enum('MIR_insn_code_t'))
    names = {}
    for nm, v in tu.enum('MIR_insn_code_t'):
        names.setdefault(v, nm)
    n = 0
    for src in ('MIR_MUL', 'MIR_MULS', 'MIR_UDIV', 'MIR_UDIVS', 'MIR_DIV', 'MIR_DIVS'):
        want_w = SPEC.parse(src[4:]).width
        for sh in (0, 5):
            col = AI.Collector(tu, preds, lambda x: x.get('callee') == 'MIR_new_insn')
            env = {'insn->code': codes[src], 'sh': sh}
            # `sh` is assigned from a call: keep our assumed value by evaluating statements that do not reassign it
            col.run(_without_assign(f.body, 'sh'), env)
            for call, e in col.hits:
                cv = preds.eval(F.call_args(call)[1], e, frozenset())
                if cv is None:
                    run.analysis_broken(rule, 'transform_mul_div: opcode of %s not evaluable for %s' % (F.src(call)[:50], src))
                    continue
                nm = names.get(cv, str(cv))
                sp = SPEC.parse(nm[4:]) if nm.startswith('MIR_') else None
                if sp is None or sp.kind not in ('arith', 'cmp', 'unary', 'ext'):
                    continue
                n += 1
                ok = sp.width == want_w
                run.ob(rule, (src, sh, call['l']), ok, {'replaced': src, 'shift count': 'zero' if sh == 0 else 'non-zero', 'emits': nm,
                                                       'line': call['l'], 'width': sp.width, 'required': want_w})
                if not ok:
                    run.violation(rule, f, '%s in the lowering of %s' % (nm, src),
                                  'the strength-reduced sequence for %s contains the %d-bit instruction %s: %s' %
                                  (src, sp.width, nm, 'a 64-bit operation on a 32-bit operand depends on its undefined upper half'
                                   if want_w == 32 else 'a 32-bit operation truncates the 64-bit operand'), line=call['l'])
    return n


def _without_assign(body, var):
    """a shallow copy of a compound statement without the top-level statements that assign var (so that an assumed value
    survives the call that would compute it)"""
    def assigns(s):
        for x in F.walk(s):
            if x['k'] == 'BinaryOperator' and x['op'] == '=' and F.src(F.strip(x['c'][0])) == var:
                return True
        return False
    if body['k'] != 'CompoundStmt':
        return body
    nb = dict(body)
    nb['c'] = [s for s in F.kids(body) if not (s['k'] in ('BinaryOperator', 'IfStmt') and assigns(s) and s['k'] == 'BinaryOperator')]
    # an if whose condition assigns var (sh < 0 && (sh = …) >= 0): drop the whole statement, it only swaps operands
    nb['c'] = [s for s in nb['c'] if not (s['k'] == 'IfStmt' and assigns(s['c'][0]))]
    return nb
