"""Run context shared by all rule families: obligations, findings, known findings, evidence."""
import json, os, sys, time, tempfile, shutil, traceback
from lib import facts as F

VERIF = F.VERIF
KNOWN = os.path.join(VERIF, 'known_findings.json')
EXC = os.path.join(VERIF, 'spec', 'exceptions.json')


class Finding:
    def __init__(self, rule, file, func, construct, msg, line=None, slots=None, path=None):
        self.rule, self.file, self.func, self.construct = rule, file, func, construct
        self.msg, self.line, self.slots, self.path = msg, line, slots or {}, path

    def key(self):
        return (self.rule, self.file, self.func, self.construct)

    def as_dict(self, prop):
        return {'property': prop, 'rule': self.rule, 'file': self.file, 'line': self.line, 'function': self.func,
                'construct': self.construct, 'message': self.msg, 'slots': self.slots, 'path': self.path}


class Run:
    def __init__(self, prop, tier, seed=0):
        self.prop, self.tier, self.seed = prop, tier, seed
        self.t0 = time.time()
        self.scratch = tempfile.mkdtemp(prefix='mirverif-', dir=os.environ.get('MIR_SCRATCH', '/var/tmp'))
        self.tus = {}
        self.findings = []
        self.infos = []
        self.broken = []
        self.obligations = 0
        self.discharged = 0
        self.nontrivial = set()
        self.samples = {}
        self.rules = {}  # rule -> {'instances': n, 'desc': str}
        self.controls = []
        self.assumptions = [
            'configuration analysed: x86-64 SysV, flags of the production build (-DMIR_PARALLEL_GEN -DNDEBUG -std=gnu11 '
            '-fsigned-char); other targets, Windows, MIR_NO_* configurations are not parsed',
            'assertions are compiled out under NDEBUG and are never counted as guards',
            'the clang 14 front end, its CFG builder and constant evaluator are trusted',
        ]
        self.functions_analysed = set()
        try:
            with open(EXC) as f:
                self.exceptions = json.load(f)
        except Exception:
            self.exceptions = {}

    # ---- facts -------------------------------------------------------------------------------
    def tu(self, unit, extra_flags=()):
        if isinstance(unit, F.TU):
            return unit
        k = (unit, tuple(extra_flags))
        if k not in self.tus:
            self.tus[k] = F.extract(unit, self.scratch, extra_flags)
        return self.tus[k]

    def control_tu(self, name, flags=('-std=gnu11',)):
        """extract a positive-control file from /verif/controls (flags include -I/repo)"""
        path = os.path.join(VERIF, 'controls', name)
        k = ('control', name)
        if k not in self.tus:
            self.tus[k] = F.extract_file(path, self.scratch, list(flags) + ['-I' + F.REPO])
        return self.tus[k]

    def shadow(self):
        """a Run that records into nothing — used to evaluate rules on positive controls"""
        r = Run.__new__(Run)
        r.__dict__.update(self.__dict__)
        r.findings, r.infos, r.broken = [], [], []
        r.obligations = r.discharged = 0
        r.nontrivial, r.samples, r.rules, r.controls = set(), {}, {}, []
        r.functions_analysed = set()
        return r

    def cleanup(self):
        shutil.rmtree(self.scratch, ignore_errors=True)

    # ---- bookkeeping -------------------------------------------------------------------------
    def rule(self, rule, desc):
        self.rules.setdefault(rule, {'instances': 0, 'desc': desc, 'violations': 0})

    def ob(self, rule, ident, ok, sample=None):
        """record one evaluated obligation; ident identifies the distinct instance"""
        self.obligations += 1
        r = self.rules.setdefault(rule, {'instances': 0, 'desc': '', 'violations': 0})
        r['instances'] += 1
        self.nontrivial.add((rule, ident))
        if ok:
            self.discharged += 1
        lst = self.samples.setdefault(rule, [])
        if sample is not None and len(lst) < 3:
            lst.append(sample)

    def violation(self, rule, func, construct, msg, file=None, line=None, slots=None, path=None):
        if hasattr(func, 'name'):
            file = file or func.relfile()
            fname = func.name
        else:
            fname = func
        self.rules.setdefault(rule, {'instances': 0, 'desc': '', 'violations': 0})['violations'] += 1
        self.findings.append(Finding(rule, file, fname, construct, msg, line, slots, path))

    def info(self, rule, msg):
        self.infos.append('%s: %s' % (rule, msg))

    def analysis_broken(self, rule, reason):
        self.broken.append((rule, reason))

    def min_instances(self, rule, n):
        got = self.rules.get(rule, {}).get('instances', 0)
        if got < n:
            self.analysis_broken(rule, 'only %d instances evaluated, at least %d confirmed by hand on the reference '
                                       'tree — the rule no longer finds its sites' % (got, n))

    def control(self, rule, name, fired):
        self.controls.append({'rule': rule, 'control': name, 'fired': bool(fired)})
        if not fired:
            self.analysis_broken(rule, 'positive control %s did not fire' % name)

    def exception(self, rule, symbol):
        """reason string if (rule, symbol) is in the exceptions table"""
        return self.exceptions.get(rule, {}).get(symbol)

    # ---- finish ------------------------------------------------------------------------------
    def finish(self, replay_filter=None):
        prop = self.prop
        try:
            with open(KNOWN) as f:
                known = json.load(f)
        except FileNotFoundError:
            known = {'findings': []}
        kidx = {}
        for e in known.get('findings', []):
            if e.get('status') != 'known':
                continue
            props = e['property'] if isinstance(e['property'], list) else [e['property']]
            if prop in props:
                kidx[(e['rule'], e['file'], e['function'], e['construct'])] = e
        new, knownhits = [], []
        seen = set()
        for fd in self.findings:
            if fd.key() in seen:
                continue
            seen.add(fd.key())
            if fd.key() in kidx:
                knownhits.append((fd, kidx[fd.key()]))
            else:
                new.append(fd)
        stale = [e for k, e in kidx.items() if k not in seen]
        if replay_filter is not None:
            new = [fd for fd in new if list(fd.key()) == replay_filter]
        rc = 0
        os.makedirs(os.path.join(VERIF, 'reports'), exist_ok=True)
        for fd, e in knownhits:
            print('KNOWN-FINDING: property=%s %s %s:%s %s — %s' % (prop, fd.rule, fd.file, fd.func, fd.construct,
                                                                    e.get('what', fd.msg)))
        for i, fd in enumerate(new):
            rp = os.path.join(VERIF, 'reports', '%s-%d.json' % (prop, i + 1))
            d = fd.as_dict(prop)
            d['replay_cmd'] = 'python3 checks/run.py %s --replay %s' % (prop, rp)
            with open(rp, 'w') as f:
                json.dump(d, f, indent=1)
            print('%s:%s: %s: in %s: %s [%s]' % (fd.file, fd.line, fd.rule, fd.func, fd.msg, fd.construct))
            print('VIOLATION property=%s replay=%s' % (prop, rp))
            rc = 1
        for rule, reason in self.broken:
            print('ANALYSIS-BROKEN property=%s rule=%s reason=%s' % (prop, rule, reason))
            if rc == 0:
                rc = 2
        for e in stale:
            print('INFO: known finding no longer matches a live site (stale entry): %s %s:%s %s' % (
                e['rule'], e['file'], e['function'], e['construct']))
        if self.tier == 'thorough' or os.environ.get('VERIF_VERBOSE'):
            for m in self.infos:
                print('INFO: ' + m)
        self.write_evidence(len(new), knownhits)
        print('%s %s: %d obligations over %d rule families, %d discharged, %d new violations, %d known findings, '
              '%d analysis-broken (%.1fs)' % (prop, self.tier, self.obligations, len(self.rules), self.discharged,
                                              len(new), len(knownhits), len(self.broken), time.time() - self.t0))
        self.cleanup()
        return rc

    def write_evidence(self, nviol, knownhits):
        rules_txt = '; '.join('%s (%d instances): %s' % (r, v['instances'], v['desc']) for r, v in sorted(self.rules.items()))
        samples = []
        for r, lst in sorted(self.samples.items()):
            for s in lst:
                samples.append({'rule': r, 'obligation': s})
        if not samples:
            samples = [{'note': 'no obligation evaluated'}]
        units = sorted({u for (u, fl) in self.tus if u != 'control'})
        ev = {
            'property_id': self.prop,
            'tier': self.tier,
            'seed': self.seed,
            'level': 'other',
            'coverage': {
                'explanation': 'Static analysis of /repo\'s current source (clang AST + CFG facts extracted by '
                               'engine/mirsa.cc, rules in checks/rf_*.py). Rules applied: ' + rules_txt +
                               '. The rules decide the named structural clauses (necessary conditions), not the '
                               'run-time behaviour.',
                'evaluations': self.obligations,
                'distinct_nontrivial': len(self.nontrivial),
                'rule': 'one evaluation = one rule instance (a site, table row, pair of sibling implementations or '
                        'CFG path obligation) found in the current source; distinct = distinct (rule, site) pairs; '
                        'every counted instance has at least one slot filled from the source',
                'obligations': self.obligations,
                'discharged': self.discharged,
                'samples': samples[:40],
                'units': units,
                'functions_analysed': len(self.functions_analysed),
                'functions_list': sorted(':'.join(map(str, t)) if isinstance(t, tuple) else str(t) for t in self.functions_analysed),
                'rule_instances': {r: v['instances'] for r, v in sorted(self.rules.items())},
                'controls_fired': self.controls,
                'known_findings_matched': [{'rule': fd.rule, 'site': '%s:%s' % (fd.file, fd.func), 'construct': fd.construct}
                                           for fd, e in knownhits],
                'analysis_broken': [{'rule': r, 'reason': m} for r, m in self.broken],
                'flags': {u: self.tus[(u, fl)].flags for (u, fl) in self.tus if u != 'control'},
                'exhaustive': True,
            },
            'assumptions': self.assumptions,
            'wall_s': round(time.time() - self.t0, 2),
            'violations': nviol,
        }
        os.makedirs(os.path.join(VERIF, 'evidence'), exist_ok=True)
        with open(os.path.join(VERIF, 'evidence', self.prop + '.json'), 'w') as f:
            json.dump(ev, f, indent=1)
