#!/usr/bin/env python3
"""Entry point: python3 checks/run.py <Cxx> [--tier quick|thorough] [--replay file]

exit 0: every evaluated obligation of the property's rule families holds on /repo's current tree
        (known findings are printed as KNOWN-FINDING lines)
exit 1: at least one new violation (VIOLATION property=… replay=… lines)
exit 2: ANALYSIS-BROKEN: an anchor vanished or a construct is in a shape the extractor cannot
        classify — neither a pass nor a violation
"""
import sys, os, json, argparse, traceback, signal
signal.signal(signal.SIGPIPE, signal.SIG_DFL)
sys.path.insert(0, os.path.dirname(os.path.abspath(__file__)))
from lib import facts as F
import core


def plan():
    import props
    return props.PLAN


def main():
    ap = argparse.ArgumentParser()
    ap.add_argument('prop')
    ap.add_argument('--tier', default=os.environ.get('VERIF_TIER', 'quick'), choices=['quick', 'thorough'])
    ap.add_argument('--replay')
    a = ap.parse_args()
    PLAN = plan()
    if a.prop not in PLAN:
        print('unknown or unclaimed property %s (claimed: %s)' % (a.prop, ' '.join(sorted(PLAN))))
        return 2
    try:
        seed = int(os.environ.get('VERIF_SEED', '0'))
    except ValueError:
        seed = 0
    run = core.Run(a.prop, a.tier, seed)
    filt = None
    if a.replay:
        with open(a.replay) as f:
            r = json.load(f)
        filt = [r['rule'], r['file'], r['function'], r['construct']]
    try:
        import props as _props
        fns = list(PLAN[a.prop]) + (list(_props.THOROUGH.get(a.prop, [])) if a.tier == 'thorough' else [])
        for rulefn in fns:
            try:
                rulefn(run)
            except F.AnalysisBroken as ex:
                run.analysis_broken(getattr(rulefn, '__name__', 'rule'), str(ex))
            except Exception as ex:
                tb = traceback.format_exc().strip().splitlines()
                run.analysis_broken(getattr(rulefn, '__name__', 'rule'),
                                    'internal error %s: %s @ %s' % (type(ex).__name__, ex, tb[-3].strip() if len(tb) >= 3 else ''))
                if os.environ.get('VERIF_DEBUG'):
                    traceback.print_exc()
        rc = run.finish(filt)
    finally:
        run.cleanup()
    return rc


if __name__ == '__main__':
    sys.exit(main())
