"""RF21 mir2c register typing: the C object that stands for an integer MIR register is int64_t."""
from lib import facts as F
from lib import enumflow as EF
from lib import regions as R

SIGNED64_OR_FP = {'int64_t', 'float', 'double', 'long double'}


def true_set_over(tu, preds, cond, key, universe):
    ts = set()
    for v in universe:
        r = preds.eval(cond, {key: v}, universe)
        if r is None:
            return None
        if r:
            ts.add(v)
    return frozenset(ts)


def out_type_map(tu):
    f = tu.func('out_type')
    m = {}
    for sw in R.find_switches(f):
        for r in R.switch_regions(f, sw):
            lits = [x['s'] for x in R.region_nodes(r['stmts']) if x['k'] == 'StringLiteral']
            for (nm, lo, hi) in r['cases']:
                if nm and lits:
                    m[nm] = lits[0].strip()
    if len(m) < 8:
        raise F.AnalysisBroken('mir2c out_type switch not recognised')
    return m


def rf21(run):
    rule = 'RF21'
    run.rule(rule, 'mir2c: a parameter is used directly as the C object of its MIR register only for types whose C type is '
                   'int64_t or the matching floating type; every other parameter is copied into an int64_t local; the '
                   'declaration site and the prologue site agree on that type set (cast-free templates such as I2D rely on it)')
    tu = run.tu('mir2c')
    preds = EF.Predicates(tu)
    types = dict(tu.enum('MIR_type_t'))
    byval = {}
    for n, v in tu.enum('MIR_type_t'):
        byval.setdefault(v, n)
    uni = frozenset(v for n, v in tu.enum('MIR_type_t') if n != 'MIR_T_BOUND')
    ctype = out_type_map(tu)
    # site A: out_func_decl — fprintf (f, cond ? " %s" : " _%s", var.name)
    fa = tu.func('out_func_decl')
    SA = None
    for n in fa.walk():
        if n['k'] == 'CallExpr' and n.get('callee') == 'fprintf':
            args = F.call_args(n)
            if len(args) >= 2:
                a = F.strip(args[1])
                if a['k'] == 'ConditionalOperator':
                    t, e = F.strip(a['c'][1]), F.strip(a['c'][2])
                    if t['k'] == 'StringLiteral' and e['k'] == 'StringLiteral' and '_%s' in e['s'] and '_%s' not in t['s']:
                        keys = [F.src(x) for x in F.walk(a['c'][0]) if x['k'] == 'MemberExpr' and x['n'] == 'type']
                        if keys:
                            SA = (true_set_over(tu, preds, a['c'][0], keys[0], uni), n['l'])
    if SA is None or SA[0] is None:
        raise F.AnalysisBroken('out_func_decl: parameter naming decision (" %s" / " _%s") not recognised')
    # site B: out_item — if (cond) continue; fprintf ("  int64_t %s = _%s;\n" …)
    fb = tu.func('out_item')
    SB = None
    for loop in fb.walk():
        if loop['k'] != 'ForStmt' or loop['c'][3] is None:
            continue
        body = loop['c'][3]
        copies = [x for x in F.walk(body) if x['k'] == 'StringLiteral' and '%s = _%s' in x['s']]
        if not copies:
            continue
        for st in F.walk(body):
            if st['k'] == 'IfStmt' and st['c'][1] is not None and any(x['k'] == 'ContinueStmt' for x in F.walk(st['c'][1])):
                keys = [F.src(x) for x in F.walk(st['c'][0]) if x['k'] == 'MemberExpr' and x['n'] == 'type']
                if keys:
                    SB = (true_set_over(tu, preds, st['c'][0], keys[0], uni), st['l'], copies[0]['s'])
    if SB is None or SB[0] is None:
        raise F.AnalysisBroken('out_item: parameter widening-copy loop not recognised')
    names = lambda S: sorted(byval[v] for v in S)
    ok = SA[0] == SB[0]
    run.ob(rule, ('sites-agree',), ok, {'declared under own name for': names(SA[0]), 'no widening copy for': names(SB[0])})
    if not ok:
        run.violation(rule, fb, 'direct-parameter type sets', 'out_func_decl names parameters directly for {%s} but out_item skips the '
                      'widening copy for {%s}' % (', '.join(names(SA[0])), ', '.join(names(SB[0]))), line=SB[1])
    if 'int64_t %s' not in SB[2]:
        run.violation(rule, fb, 'widening copy type', 'the widening copy does not declare an int64_t local: %r' % SB[2], line=SB[1])
    for v in sorted(SA[0] | SB[0]):
        t = byval[v]
        c = ctype.get(t)
        if c is None:
            c = 'void *' if 'BLK' in t else None
        ok = c in SIGNED64_OR_FP
        run.ob(rule, ('direct', t), ok, {'parameter type': t, 'C type': c, 'used directly as the register': True})
        if not ok:
            run.violation(rule, fa, 'direct parameter of type %s' % t,
                          'a %s parameter is declared as `%s` and used directly as the C object of its MIR register; integer '
                          'registers must be int64_t objects because cast-free templates (i2f/i2d/i2ld, moves, call arguments) '
                          'take the operand\'s C type' % (t, c), line=SA[1])
    # locals: declared through out_type of the register type; MIR only allows I64/F/D/LD registers — all in the allowed set
    for t in ('MIR_T_I64', 'MIR_T_F', 'MIR_T_D', 'MIR_T_LD'):
        ok = ctype.get(t) in SIGNED64_OR_FP
        run.ob(rule, ('local', t), ok)
        if not ok:
            run.violation(rule, tu.func('out_type'), 'C type of %s' % t, 'out_type maps register type %s to `%s`' % (t, ctype.get(t)),
                          line=tu.func('out_type').line)


# ---------------------------------------------------------------------------------------------
# RF57: signed and unsigned overflow flags of the C translation
# ---------------------------------------------------------------------------------------------

def rf57(run):
    import re
    import rf_sig
    rule = 'RF57'
    run.rule(rule, 'mir2c: ADDO/SUBO[S] set a signed flag (builtin over the signed type of the opcode\'s width) and an unsigned flag '
                   '(builtin over the unsigned type), MULO[S] set the signed flag, UMULO[S] the unsigned one; BO/BNO test the signed '
                   'flag, UBO/UBNO the unsigned flag, with the polarity of the opcode; the two flags are different C objects; the '
                   'statement that writes the result is the last one (the result may be a source)')
    tu = run.tu('mir2c')
    f, regs, out, handled = rf_sig.mir2c_sigs(tu)
    run.functions_analysed.add(('mir2c', 'out_insn'))
    n = 0
    signed_flags, unsigned_flags = set(), set()
    prod = {}
    for nm, want_s, want_u, w in (('MIR_ADDO', True, True, 64), ('MIR_SUBO', True, True, 64), ('MIR_ADDOS', True, True, 32),
                                  ('MIR_SUBOS', True, True, 32), ('MIR_MULO', True, False, 64), ('MIR_MULOS', True, False, 32),
                                  ('MIR_UMULO', False, True, 64), ('MIR_UMULOS', False, True, 32)):
        sg = out.get(nm)
        if sg is None:
            raise F.AnalysisBroken('mir2c out_insn: no case for %s' % nm)
        fl = getattr(sg, 'flags', None)
        if fl is None:
            raise F.AnalysisBroken('mir2c out_insn: %s template not recognised (%s)' % (nm, sg.note))
        s_ = sorted(k for k, t in fl.items() if t == ('i', w, True))
        u_ = sorted(k for k, t in fl.items() if t == ('i', w, False))
        other = sorted(k for k, t in fl.items() if t not in (('i', w, True), ('i', w, False)))
        n += 1
        ok = bool(s_) == want_s and bool(u_) == want_u and not other
        run.ob(rule, (nm,), ok, {'opcode': nm, 'signed flag': s_, 'unsigned flag': u_, 'template': sg.note})
        if not ok:
            run.violation(rule, f, '%s overflow flags' % nm, 'the C template of %s sets signed flag(s) %s and unsigned flag(s) %s%s; '
                          'the opcode defines %s: a branch on the missing flag tests a stale or wrong value'
                          % (nm, s_, u_, (' and flags of another width %s' % other) if other else '',
                             ' and '.join(x for x, y in (('signed overflow', want_s), ('unsigned overflow', want_u)) if y)),
                          line=sg.node['l'] if sg.node else None)
        signed_flags.update(s_)
        unsigned_flags.update(u_)
        prod[nm] = fl
    n += 1
    ok = len(signed_flags) == 1 and len(unsigned_flags) == 1 and not (signed_flags & unsigned_flags)
    run.ob(rule, ('flags',), ok, {'signed': sorted(signed_flags), 'unsigned': sorted(unsigned_flags)})
    if not ok:
        run.violation(rule, f, 'flag objects', 'the producers use signed flag(s) %s and unsigned flag(s) %s: one signed and one '
                      'distinct unsigned C object are required' % (sorted(signed_flags), sorted(unsigned_flags)))
        return n
    sf, uf = next(iter(signed_flags)), next(iter(unsigned_flags))
    BR = re.compile(r'if \((?P<neg>!)?(?P<flag>\w+)\) goto \$0;')
    for nm, flag, neg in (('MIR_BO', sf, False), ('MIR_BNO', sf, True), ('MIR_UBO', uf, False), ('MIR_UBNO', uf, True)):
        sg = out.get(nm)
        if sg is None:
            raise F.AnalysisBroken('mir2c out_insn: no case for %s' % nm)
        m = BR.fullmatch(getattr(sg, 'text', sg.note))
        if m is None:
            raise F.AnalysisBroken('mir2c out_insn: %s template not recognised (%s)' % (nm, sg.note))
        n += 1
        ok = m.group('flag') == flag and bool(m.group('neg')) == neg
        run.ob(rule, (nm,), ok, {'opcode': nm, 'template': sg.note, 'expected flag': flag, 'negated': neg})
        if not ok:
            run.violation(rule, f, '%s tested flag' % nm, '%s is translated to `%s`; the opcode branches when the %s overflow flag (%s) is %s'
                          % (nm, sg.note, 'signed' if flag == sf else 'unsigned', flag, 'clear' if neg else 'set'),
                          line=sg.node['l'] if sg.node else None)
    return n


# ---------------------------------------------------------------------------------------------
# RF58: a reference operand is translated to the address of the item
# ---------------------------------------------------------------------------------------------

def rf58(run):
    rule = 'RF58'
    run.rule(rule, 'mir2c: the C objects standing for MIR items have different shapes (scalar for a one-element data item, array, struct '
                   'for a section, function, `extern char []` for an import); the text printed for a MIR_OP_REF operand takes the '
                   'address of the named object (`&name`), the only form that denotes the item\'s address for every shape')
    tu = run.tu('mir2c')
    f = tu.func('out_op')
    run.functions_analysed.add(('mir2c', 'out_op'))
    sws = R.find_switches(f, lambda c: c.endswith('.mode') or c.endswith('mode'))
    if not sws:
        raise F.AnalysisBroken('out_op: switch on the operand mode not found')
    n = 0
    for r in R.switch_regions(f, sws[0]):
        if 'MIR_OP_REF' not in [c[0] for c in r['cases']]:
            continue
        lits = [x['s'] for x in R.region_nodes(r['stmts']) if x['k'] == 'StringLiteral' and '%s' in x['s']]
        if len(lits) != 1:
            raise F.AnalysisBroken('out_op: MIR_OP_REF case does not print one name')
        n += 1
        import re
        ok = re.search(r'&\s*%s', lits[0]) is not None
        run.ob(rule, ('MIR_OP_REF',), ok, {'format': lits[0]})
        if not ok:
            run.violation(rule, f, 'MIR_OP_REF text', 'a reference operand is printed as `%s`: for a one-element data item this is the '
                          'value of the C object and for a section a struct, not the item address MIR defines' % lits[0],
                          line=r['stmts'][0]['l'])
    if n == 0:
        raise F.AnalysisBroken('out_op: no MIR_OP_REF case')
    return n


# ---------------------------------------------------------------------------------------------
# RF59 / RF60: declarations printed by out_item, by abstract execution over model modules
# ---------------------------------------------------------------------------------------------

class _Stop(Exception):
    pass


def _item_exec(tu, items, stop_at_decl=False):
    """items: list of dicts (fields by member path, plus 'name': 0/1); ids are 1..n in module order"""
    from lib import printexec as PE
    heap = {}
    for i, it in enumerate(items, 1):
        d = dict(it)
        d.setdefault('->addr', 0)
        d.setdefault('->export_p', 0)
        heap[i] = d

    def arg_id(a, env, ex):
        v = ex.val(a, env)
        if not isinstance(v, int):
            raise F.AnalysisBroken('item argument `%s` not evaluable' % F.src(a)[:40])
        return v

    def item_name(args, env, ex):
        i = arg_id(args[1], env, ex)
        if i not in heap:
            raise F.AnalysisBroken('MIR_item_name of a non-item')
        return heap[i]['name']

    def dnext(args, env, ex):
        i = arg_id(args[0], env, ex)
        return i + 1 if i + 1 in heap else 0

    def els(args, env, ex):
        i = arg_id(args[2], env, ex)
        nel = heap[i]['->u.data->nel']
        return ', '.join(['9'] * nel)

    def decl(args, env, ex):
        if stop_at_decl:
            ex.out.append('D')
            raise _Stop()
        return 'D'

    def dprev(args, env, ex):
        i = arg_id(args[0], env, ex)
        return i - 1 if i - 1 in heap else 0

    ex = PE.PrintExec(tu, heap, {'MIR_item_name': item_name, 'DLIST_MIR_item_t_next': dnext, 'DLIST_MIR_item_t_prev': dprev},
                      {'out_type': lambda a, e, x: 'T', '_MIR_output_data_item_els': els, 'out_func_decl': decl})
    ex.concrete_ints = True
    return ex, heap


def _parse_decl(t):
    """-> (static count, struct attr or None, members, initialisers or None) for one printed declaration; None if not well formed"""
    import re
    t = t.strip()
    if not t.endswith(';'):
        return None
    t = t[:-1].strip()
    ns = 0
    while t.startswith('static '):
        ns += 1
        t = t[7:].lstrip()
    decl, eq, init = t.partition('=')
    decl, init = decl.strip(), init.strip()
    attr, members = None, None
    m = re.fullmatch(r'struct\s*(?P<attr>__attribute__\s*\(\(.*?\)\)\s*)?\{(?P<body>[^{}]*)\}\s*(?P<name>\w+)', decl)
    if m:
        attr = m.group('attr') or ''
        body = m.group('body').strip()
        if not body.endswith(';'):
            return None
        members = [x.strip() for x in body[:-1].split(';')]
        if not all(re.fullmatch(r'[\w ]+?\*?\s*\w+(\[\w+\])?', x) for x in members):
            return None
    else:
        if not re.fullmatch(r'[\w ]+?\*?\s*\w+(\[\w+\])?', decl):
            return None
        members = None
    inits = None
    if eq:
        # split the initialiser at top-level commas
        def top_split(s):
            out, depth, cur = [], 0, ''
            for ch in s:
                if ch in '{(':
                    depth += 1
                elif ch in '})':
                    depth -= 1
                    if depth < 0:
                        return None
                if ch == ',' and depth == 0:
                    out.append(cur.strip())
                    cur = ''
                else:
                    cur += ch
            if depth != 0:
                return None
            out.append(cur.strip())
            return out

        def well(s):
            s = s.strip()
            if s.startswith('{'):
                if not s.endswith('}'):
                    return False
                parts = top_split(s[1:-1])
                if parts is None:
                    return False
                if parts and parts[-1] == '':
                    parts = parts[:-1]          # trailing comma
                return all(well(p) for p in parts)   # `{}` initialises an empty (zero-length) member
            return bool(s) and '{' not in s and '}' not in s and top_split(s) is not None and len(top_split(s)) == 1
        if members is not None:
            if not (init.startswith('{') and init.endswith('}')):
                return None
            parts = top_split(init[1:-1])
            if parts is None or not all(well(p) for p in parts):
                return None
            inits = parts
        else:
            if not well(init):
                return None
            inits = [init]
    return ns, attr, members, inits


def rf59(run, exhaustive=False):
    import re
    rule = 'RF59'
    run.rule(rule, 'mir2c out_item, executed abstractly over model modules (single scalar / array / bss items and sections of named + '
                   'anonymous data, bss and ref items): every named item or section prints exactly one well-formed C declaration with at '
                   'most one `static`, a section prints one struct whose initialiser has one well-formed element per member, anonymous '
                   'items print nothing on their own, and a section whose members differ in size is declared packed (MIR sections '
                   'have no gaps)')
    tu = run.tu('mir2c')
    f = tu.func('out_item')
    run.functions_analysed.add(('mir2c', 'out_item'))
    it = dict(tu.enum('MIR_item_type_t'))
    ty = dict(tu.enum('MIR_type_t'))
    data = lambda name, nel, t='MIR_T_I64': {'->item_type': it['MIR_data_item'], 'name': name, '->u.data->nel': nel, '->u.data->el_type': ty[t]}
    bss = lambda name, ln: {'->item_type': it['MIR_bss_item'], 'name': name, '->u.bss->len': ln}
    ref = lambda name: {'->item_type': it['MIR_ref_data_item'], 'name': name, '->u.ref_data->disp': 8, '->u.ref_data->ref_item': 1}
    func = lambda: {'->item_type': it['MIR_func_item'], 'name': 1}
    scenarios = [
        ('one scalar', [data(1, 1), func()], False),
        ('one array', [data(1, 3), func()], False),
        ('one bss', [bss(1, 8), func()], False),
        ('two scalars in a section', [data(1, 1), data(0, 1), func()], False),
        ('three scalars at the module end', [data(1, 1), data(0, 1), data(0, 1)], False),
        ('scalar, bss, array, ref', [data(1, 1), bss(0, 3), data(0, 2, 'MIR_T_U8'), ref(0), func()], True),
        ('bss section', [bss(1, 8), bss(0, 8), func()], False),
        ('array then scalar then named scalar', [data(1, 2), data(0, 1), data(1, 1)], False),
        ('bss first then data', [bss(1, 2), data(0, 1), func()], True),
        ('scalar, empty bss, scalar', [data(1, 1), bss(0, 0), data(0, 1), func()], False),
    ]
    if exhaustive:
        # every section of 1..4 items over {i64 scalar, u8[2], bss 3, ref}, followed by a function, a named scalar or the module end
        import itertools
        kinds = {'s': (lambda nm: data(nm, 1), 8, 8), 'a': (lambda nm: data(nm, 2, 'MIR_T_U8'), 2, 1), 'b': (lambda nm: bss(nm, 3), 3, 1),
                 'r': (lambda nm: ref(nm), 8, 8)}
        scenarios = []
        for ln in range(1, 5):
            for seq in itertools.product('sabr', repeat=ln):
                off, mix = 0, False
                for k_ in seq:
                    if off % kinds[k_][2] != 0:
                        mix = True
                    off += kinds[k_][1]
                for end_name, end in (('func', [func()]), ('named', [data(1, 1)]), ('end', [])):
                    items_ = [kinds[k_][0](1 if j == 0 else 0) for j, k_ in enumerate(seq)] + end
                    scenarios.append(('%s+%s' % (''.join(seq), end_name), items_, mix))
    n = 0
    for title, items, mixed in scenarios:
        # sections of the scenario
        sections, cur = [], None
        for i, d in enumerate(items, 1):
            if d['->item_type'] == it['MIR_func_item']:
                cur = None
                continue
            if d['name']:
                cur = [i]
                sections.append(cur)
            elif cur is not None:
                cur.append(i)
        for i, d in enumerate(items, 1):
            if d['->item_type'] == it['MIR_func_item']:
                continue
            ex, heap = _item_exec(tu, items)
            env = {'item': i}
            try:
                ex.run(f.body, env)
            except _Stop:
                pass
            txt = ex.text()
            n += 1
            sec = next((s for s in sections if s[0] == i), None)
            why = None
            if sec is None:
                if txt.strip():
                    why = 'the anonymous item %d of `%s` prints `%s` on its own' % (i, title, txt.strip()[:60])
            else:
                p = _parse_decl(txt)
                if p is None:
                    why = 'the declaration printed for `%s` is not well formed: `%s`' % (title, ' '.join(txt.split())[:160])
                else:
                    ns, attr, members, inits = p
                    has_data = any(items[j - 1]['->item_type'] != it['MIR_bss_item'] for j in sec)
                    if ns > 1:
                        why = '`static` printed %d times for `%s`' % (ns, title)
                    elif len(sec) > 1 and (members is None or len(members) != len(sec)):
                        why = 'section `%s` of %d items declares %s members' % (title, len(sec), 'no' if members is None else len(members))
                    elif len(sec) == 1 and members is not None:
                        why = 'single item `%s` declared as a struct' % title
                    elif has_data and inits is None:
                        why = '`%s` has initialised items but no initialiser is printed' % title
                    elif inits is not None and members is not None and len(inits) != len(members):
                        why = 'section `%s`: %d members but %d initialiser elements (`%s`)' % (title, len(members), len(inits),
                                                                                             ' '.join(txt.split())[:120])
                    elif members is not None and any(items[j - 1]['->item_type'] == it['MIR_bss_item'] and
                                                    not re.search(r'\[%d\]$' % items[j - 1]['->u.bss->len'], members[k_])
                                                    for k_, j in enumerate(sec)):
                        why = ('section `%s`: a bss member is not declared as an array of its length (%s): an empty bss item must take no '
                               'place, MIR gives it none' % (title, members))
                    elif mixed and len(sec) > 1 and 'packed' not in (attr or ''):
                        why = ('section `%s` has members of different sizes and its struct is not packed: the C compiler inserts padding, '
                               'MIR places the items without gaps, so offsets from the section start differ' % title)
            run.ob(rule, (title, i), why is None, {'scenario': title, 'item': i, 'printed': ' '.join(txt.split())[:200]})
            if why:
                run.violation(rule, f, 'declaration of %s' % title, why)
    return n


def rf60(run):
    rule = 'RF60'
    run.rule(rule, 'mir2c out_item: the declaration printed for a forward of a function and the definition printed for that function '
                   'carry the same linkage (`static` exactly when the function is not exported)')
    tu = run.tu('mir2c')
    f = tu.func('out_item')
    it = dict(tu.enum('MIR_item_type_t'))
    n = 0
    for exported in (0, 1):
        items = [{'->item_type': it['MIR_forward_item'], 'name': 1, '->ref_def': 2, '->ref_def->item_type': it['MIR_func_item'],
                  '->ref_def->export_p': exported, '->ref_def->u.func': 7},
                 {'->item_type': it['MIR_func_item'], 'name': 1, '->export_p': exported, '->u.func': 7}]
        texts = []
        for i in (1, 2):
            ex, heap = _item_exec(tu, items, stop_at_decl=True)
            try:
                ex.run(f.body, {'item': i})
            except _Stop:
                pass
            t = ex.text()
            if not t.endswith('D'):
                raise F.AnalysisBroken('out_item: function declaration not reached for the %s' % ('forward', 'definition')[i - 1])
            texts.append(' '.join(t[:-1].split()))
        n += 1
        ok = texts[0] == texts[1] and (('static' in texts[1].split()) == (not exported))
        run.ob(rule, ('exported' if exported else 'local',), ok, {'forward prefix': texts[0], 'definition prefix': texts[1]})
        if not ok:
            run.violation(rule, f, 'forward linkage (%s function)' % ('exported' if exported else 'non-exported'),
                          'a forward of %s function is declared with `%s` and the function is defined with `%s`: %s'
                          % ('an exported' if exported else 'a non-exported', texts[0], texts[1],
                             'the C compiler rejects a static definition after a non-static declaration' if not exported
                             else 'the exported function loses external linkage'))
    # a forward that reaches the function through an export of the same name still declares it
    items = [{'->item_type': it['MIR_forward_item'], 'name': 1, '->ref_def': 2},
             {'->item_type': it['MIR_export_item'], 'name': 1, '->ref_def': 3},
             {'->item_type': it['MIR_func_item'], 'name': 1, '->export_p': 1, '->u.func': 7}]
    ex, heap = _item_exec(tu, items, stop_at_decl=True)
    try:
        ex.run(f.body, {'item': 1})
    except _Stop:
        pass
    n += 1
    ok = ex.text().endswith('D')
    run.ob(rule, ('forward through export',), ok, {'printed for `forward g; export g`': ex.text()[:40]})
    if not ok:
        run.violation(rule, f, 'forward through an export', 'for `forward g` followed by `export g` the forward item refers to the export item, not '
                      'to the function: out_item prints no declaration of g and a call of g in front of its definition is rejected by the C '
                      'compiler (`g` undeclared)')
    # an export placed in front of the data it exports (c2mir: `extern int y[3]; … use of y …; int y[3] = {…};`) declares the name
    ty = dict(tu.enum('MIR_type_t'))
    items = [{'->item_type': it['MIR_export_item'], 'name': 1, '->ref_def': 2},
             {'->item_type': it['MIR_data_item'], 'name': 1, '->export_p': 1, '->u.data->nel': 1, '->u.data->el_type': ty['MIR_T_I32'],
              '->u.data->name': 1}]
    ex, heap = _item_exec(tu, items, stop_at_decl=False)
    ex.exec_unit_calls = True
    try:
        ex.run(f.body, {'item': 1})
    except _Stop:
        pass
    except F.AnalysisBroken as e_:
        raise F.AnalysisBroken('out_item (export in front of data): %s' % e_)
    n += 1
    txt = ' '.join(ex.text().split())
    ok = 'T' in txt.split() or txt.startswith('T ')
    run.ob(rule, ('export in front of its data',), ok, {'printed for `export y` placed before `y: i32 …`': txt[:60]})
    if not ok:
        run.violation(rule, f, 'export in front of the data', 'for `export y` placed before the data item `y` out_item prints `%s`: nothing '
                      'declares y for the functions between the export and the definition, and the C compiler rejects them (`y` '
                      'undeclared) — the shape c2mir emits for `extern int y[3]; … int y[3] = {…};`' % txt[:40])
    return n


# ---------------------------------------------------------------------------------------------
# RF61: the text of a call argument depends only on its own parameter
# ---------------------------------------------------------------------------------------------

def rf61(run):
    from lib import printexec as PE
    import itertools
    rule = 'RF61'
    run.rule(rule, 'mir2c call translation, executed abstractly for prototypes with 0 or 1 result and two parameters of types drawn from '
                   '{i64, d, p, blk}: the text printed for argument k (casts and operand) is a function of the type of parameter k alone '
                   '(not of another parameter, not of the presence of a result), the arguments are separated by commas in operand order, '
                   'and a result is assigned from the call')
    tu = run.tu('mir2c')
    f = tu.func('out_insn')
    run.functions_analysed.add(('mir2c', 'out_insn'))
    sws = R.find_switches(f, lambda c: c.endswith('->code') or c == 'code')
    if not sws:
        raise F.AnalysisBroken('switch on insn->code not found in mir2c out_insn')
    sw = max(sws, key=lambda s: len(R.switch_regions(f, s)))
    reg = [r for r in R.switch_regions(f, sw) if 'MIR_CALL' in [c[0] for c in r['cases']]]
    if not reg:
        raise F.AnalysisBroken('mir2c out_insn: no MIR_CALL case')
    stmts = reg[0]['stmts']
    ty = dict(tu.enum('MIR_type_t'))
    modes = dict(tu.enum('MIR_op_mode_t'))
    codes = dict(tu.enum('MIR_insn_code_t'))
    tset = ['MIR_T_I64', 'MIR_T_D', 'MIR_T_P', 'MIR_T_BLK']
    table = {}
    n = 0
    for nres in (0, 1):
        for types in itertools.product(tset, repeat=2):
            start = 2 + nres
            env = {'insn->code': codes['MIR_CALL'], 'code': codes['MIR_CALL'], 'insn->nops': start + 2, 'nops': start + 2,
                   'ops[0].mode': modes['MIR_OP_REF'], 'ops[0].u.ref': 1, 'proto': 2, 'ops[1].mode': modes['MIR_OP_REG']}
            for i in range(2, start + 2):
                env['ops[%d].mode' % i] = modes['MIR_OP_REG']
            heap = {1: {'->item_type': dict(tu.enum('MIR_item_type_t'))['MIR_proto_item'], '->u.proto': 2},
                    2: {'->nres': nres, '->res_types[0]': ty['MIR_T_I64'], '->args': 3, '->vararg_p': 0}}
            argn = [0]

            def vget(args, env_, ex, types=types):
                i = ex.val(args[1], env_)
                if not isinstance(i, int) or not (0 <= i < 2):
                    raise F.AnalysisBroken('prototype parameter index `%s` outside the model' % F.src(args[1])[:40])
                return {'type': ty[types[i]], 'size': 16, 'name': 1}

            def outop(args, env_, ex):
                argn[0] += 1
                return '$'
            ex = PE.PrintExec(tu, heap, {'VARR_MIR_var_tget': vget, 'VARR_MIR_var_tlength': lambda a, e, x: 2,
                                         'MIR_all_blk_type_p': lambda a, e, x: int(ty['MIR_T_BLK'] <= x.val(a[0], e) <= ty['MIR_T_RBLK']),
                                         'MIR_blk_type_p': lambda a, e, x: int(ty['MIR_T_BLK'] <= x.val(a[0], e) < ty['MIR_T_RBLK'])},
                              {'out_op': outop})
            env['ops[0].u.ref->u.proto'] = 2
            for st in stmts:
                r = ex.run(st, env)
                if r in ('break', 'return'):
                    break
            txt = ' '.join(ex.text().split())
            import re
            m = re.fullmatch(r'(?P<res>\$ = (?P<rc>(?:\([\w *]+\) ?)*))?\(\(X\) \$\) \((?P<args>.*)\);', txt)
            n += 1
            ok = m is not None and bool(m.group('res')) == bool(nres)
            parts = None
            if ok:
                parts = [a.strip() for a in m.group('args').split(',')]
                ok = len(parts) == 2 and all(a.endswith('$') for a in parts)
            run.ob(rule, ('shape', nres, types), ok, {'results': nres, 'parameters': types, 'text': txt} if (nres, types) in ((0, (tset[0], tset[0])), (1, (tset[1], tset[2]))) or not ok else None)
            if not ok:
                run.violation(rule, f, 'call text', 'the call of a prototype with %d result(s) and parameters %s is printed as `%s`: expected '
                              '`[$ = ] ((proto) $) (arg, arg);`' % (nres, types, txt), line=stmts[0]['l'])
                continue
            for k in (0, 1):
                table.setdefault((k, types[k]), {}).setdefault(parts[k], []).append((nres, types))
    # an integer immediate as argument: C passes an unsuffixed constant in a variadic position as a 32-bit int
    for mode_nm, want in (('MIR_OP_INT', 'int64_t'), ('MIR_OP_UINT', 'uint64_t'), ('MIR_OP_MEM', 'int64_t')):
        env = {'insn->code': codes['MIR_CALL'], 'code': codes['MIR_CALL'], 'insn->nops': 4, 'nops': 4,
               'ops[0].mode': modes['MIR_OP_REF'], 'ops[0].u.ref': 1, 'proto': 2, 'ops[1].mode': modes['MIR_OP_REG'],
               'ops[2].mode': modes['MIR_OP_REG'], 'ops[3].mode': modes[mode_nm], 'ops[0].u.ref->u.proto': 2,
               'ops[3].u.mem.type': ty['MIR_T_I32']}
        heap = {1: {'->item_type': dict(tu.enum('MIR_item_type_t'))['MIR_proto_item'], '->u.proto': 2},
                2: {'->nres': 0, '->res_types[0]': ty['MIR_T_I64'], '->args': 3, '->vararg_p': 1}}
        ex = PE.PrintExec(tu, heap, {'VARR_MIR_var_tget': lambda a, e, x: {'type': ty['MIR_T_P'], 'size': 0, 'name': 1},
                                     'VARR_MIR_var_tlength': lambda a, e, x: 1,
                                     'MIR_all_blk_type_p': lambda a, e, x: 0, 'MIR_blk_type_p': lambda a, e, x: 0},
                          {'out_op': lambda a, e, x: '$'})
        for st in stmts:
            r = ex.run(st, env)
            if r in ('break', 'return'):
                break
        txt = ' '.join(ex.text().split())
        args_txt = txt[txt.rfind('(', 0, txt.rfind('$')) if False else txt.find(') (') + 3:] if ') (' in txt else txt
        last = args_txt.split(',')[-1]
        n += 1
        ok = want in last
        run.ob(rule, ('immediate', mode_nm), ok, {'argument mode': mode_nm, 'text': txt})
        if not ok:
            run.violation(rule, f, 'integer immediate argument (%s)' % mode_nm, ('an i32 memory operand' if mode_nm == 'MIR_OP_MEM' else 'an integer immediate') + ' passed in the variadic part of a call is '
                          'printed as `%s` without a (%s) cast: C passes it as a 32-bit int, MIR as a 64-bit value (printf ("%%ld", -1) '
                          'prints 4294967295 in the translation)' % (last.strip().rstrip(');'), want), line=stmts[0]['l'])
    for (k, t), forms in sorted(table.items()):
        n += 1
        ok = len(forms) == 1
        run.ob(rule, ('argument', k, t), ok, {'argument': k, 'parameter type': t, 'text': sorted(forms)})
        if not ok:
            ex_ = {a: b[0] for a, b in forms.items()}
            run.violation(rule, f, 'argument %d of type %s' % (k, t), 'argument %d whose parameter has type %s is printed differently depending '
                          'on the rest of the prototype: %s — the decoration is taken from another parameter (operand index and parameter '
                          'index differ by 2 + number of results)' % (k, t, '; '.join('`%s` for %d result(s), parameters %s' % (a, b[0], b[1])
                                                                                   for a, b in sorted(ex_.items()))), line=stmts[0]['l'])
    return n


# ---------------------------------------------------------------------------------------------
# RF92: immediates that have no plain C literal are special-cased by out_op
# ---------------------------------------------------------------------------------------------

def rf92(run):
    from lib import printexec as PE
    rule = 'RF92'
    run.rule(rule, 'mir2c out_op, executed abstractly per operand mode: the text chosen for the immediate -2^63 differs from the plain decimal '
                   'conversion used for other integers (its decimal form is not an int64_t constant in C), and the texts chosen for NaN, '
                   '+inf and -inf float / double / long double immediates differ from the %g conversion used for finite values (%g prints '
                   '`nan` / `inf`, which the C compiler rejects)')
    tu = run.tu('mir2c')
    f = tu.func('out_op')
    run.functions_analysed.add(('mir2c', 'out_op'))
    modes = dict(tu.enum('MIR_op_mode_t'))

    def text(mode, key, val):
        ex = PE.PrintExec(tu, {}, {}, {})
        env = {'op.mode': modes[mode], key: val}
        ex.run(f.body, env)
        return ex.text()
    n = 0
    plain = text('MIR_OP_INT', 'op.u.i', 5)
    mn = text('MIR_OP_INT', 'op.u.i', -(1 << 63))
    n += 1
    ok = plain != mn and bool(mn)
    run.ob(rule, ('int min',), ok, {'text for 5': plain, 'text for -2^63': mn})
    if not ok:
        run.violation(rule, f, 'immediate -2^63', 'out_op prints the immediate -9223372036854775808 with the plain decimal conversion (`%s`): in C that '
                      'token sequence is the negation of a constant that does not fit int64_t (gcc: __int128), so a variadic call passes two '
                      'words and an overload-free context silently changes type' % plain, line=f.line)
    for mode, key in (('MIR_OP_FLOAT', 'op.u.f'), ('MIR_OP_DOUBLE', 'op.u.d'), ('MIR_OP_LDOUBLE', 'op.u.ld')):
        try:
            fin = text(mode, key, 1.5)
            special = {nm: text(mode, key, v) for nm, v in (('nan', float('nan')), ('+inf', float('inf')), ('-inf', float('-inf')))}
        except F.AnalysisBroken as ex_:
            raise F.AnalysisBroken('out_op %s: %s' % (mode, ex_))
        for nm, t in special.items():
            n += 1
            ok = t != fin and bool(t)
            run.ob(rule, (mode, nm), ok, {'mode': mode, 'value': nm, 'text': t, 'text for a finite value': fin})
            if not ok:
                run.violation(rule, f, '%s immediate %s' % (mode[7:].lower(), nm), 'out_op prints a %s immediate of mode %s with the conversion used for '
                              'finite values (`%s`): printf writes `nan` / `inf`, which is not a C constant, so the translation unit is '
                              'rejected' % (nm, mode, fin), line=f.line)
    return n


# ---------------------------------------------------------------------------------------------
# RF93: data bytes never end up inside a C comment they can close
# ---------------------------------------------------------------------------------------------

def rf93(run):
    from lib import printexec as PE
    rule = 'RF93'
    run.rule(rule, '_MIR_output_data_item_els in C mode (used by mir2c), executed abstractly over u8 data models: MIR_output_str leaves `*` and '
                   '`/` unescaped and prints all nel bytes, so whenever the bytes contain `*/` — also behind an embedded zero byte — no '
                   '`/* … */` comment with the string form is opened; otherwise the comment ends early and the rest is compiled.  The '
                   'test may be written with strstr/memmem (modelled with their libc meaning: strstr stops at the first zero byte) or as a loop')
    tu = run.tu('mir')
    f = tu.func('_MIR_output_data_item_els')
    run.functions_analysed.add(('mir', f.name))
    ty = dict(tu.enum('MIR_type_t'))
    models = [('"a*/b"', [97, 42, 47, 98, 0], True), ('"*/"', [42, 47, 0], True), ('"a\\0*/"', [97, 0, 42, 47, 0], True),
              ('"ab"', [97, 98, 0], False), ('"/*"', [47, 42, 0], False)]
    n = 0
    for label, bs, has in models:
        heap = {1: {'->u.data': 2, '->item_type': dict(tu.enum('MIR_item_type_t'))['MIR_data_item']},
                2: {'->nel': len(bs), '->el_type': ty['MIR_T_U8']}}
        for k, b in enumerate(bs):
            heap[2]['->u.els[%d]' % k] = b

        def c_strstr(a, e, x, bs=bs):
            lit = F.strip(a[1])
            needle = lit['s'] if lit['k'] == 'StringLiteral' else None
            if needle is None:
                raise F.AnalysisBroken('strstr with a non-literal needle')
            hay = bytes(bs[:bs.index(0)]) if 0 in bs else bytes(bs)
            return 1 if needle.encode() in hay else 0

        def c_memmem(a, e, x, bs=bs):
            lit = F.strip(a[2])
            needle = lit['s'] if lit['k'] == 'StringLiteral' else None
            if needle is None:
                raise F.AnalysisBroken('memmem with a non-literal needle')
            return 1 if needle.encode() in bytes(bs) else 0
        ex = PE.PrintExec(tu, heap, {'strstr': c_strstr, 'memmem': c_memmem}, {'MIR_output_str': lambda a, e, x: 'S'}, max_iter=16)
        env = {'item': 1, 'c_p': 1}
        try:
            ex.run(f.body, env)
        except F.AnalysisBroken as exn:
            raise F.AnalysisBroken('_MIR_output_data_item_els (u8 %s): %s' % (label, exn))
        txt = ex.text()
        opened = '/*' in txt
        ok = not (has and opened)
        n += 1
        run.ob(rule, (label,), ok, {'bytes': label, 'contain */': has, 'comment opened': opened, 'printed': txt[:60]})
        if not ok:
            run.violation(rule, f, 'string bytes inside a C comment', 'for u8 data %s the string form is printed inside `/* … */` although the bytes '
                          'contain `*/`%s: the comment ends early and the C compiler rejects (or worse, compiles) the remainder' %
                          (label, ' (behind a zero byte, where a strstr test does not look)' if 0 in bs[:-1] else ''), line=f.line)
    return n


# ---------------------------------------------------------------------------------------------
# RF95: the element printer gives one scalar initialiser per element
# ---------------------------------------------------------------------------------------------

def rf95(run):
    import re
    from lib import printexec as PE
    rule = 'RF95'
    run.rule(rule, '_MIR_output_data_item_els in C mode, executed abstractly for i64 and u8 data of 1, 2 and 3 elements (the u8 ones ending in a '
                   'zero byte): it prints exactly nel scalar initialisers separated by commas, optionally followed by a comment.  mir2c '
                   'declares a one-element item as a scalar `T x = …` and a longer one as `T x[n] = {…}` around this text; any other form '
                   '(e.g. a string literal) initialises a scalar with a pointer')
    tu = run.tu('mir')
    f = tu.func('_MIR_output_data_item_els')
    run.functions_analysed.add(('mir', f.name))
    ty = dict(tu.enum('MIR_type_t'))
    n = 0
    for tname in ('MIR_T_I64', 'MIR_T_U8'):
        for nel in (1, 2, 3):
            heap = {1: {'->u.data': 2, '->item_type': dict(tu.enum('MIR_item_type_t'))['MIR_data_item']},
                    2: {'->nel': nel, '->el_type': ty[tname]}}
            for i in range(nel):
                heap[2]['->u.els[%d]' % i] = 0 if i == nel - 1 else 65
            env = {'item': 1, 'c_p': 1}
            ex = PE.PrintExec(tu, heap, {'strstr': lambda a, e, x: 0}, {'MIR_output_str': lambda a, e, x: 'S'})
            try:
                ex.run(f.body, env)
            except F.AnalysisBroken as exn:
                raise F.AnalysisBroken('_MIR_output_data_item_els (%s x %d): %s' % (tname, nel, exn))
            txt = ex.text()
            body = re.sub(r'/\*.*?\*/', '', txt).strip()
            parts = [p_.strip() for p_ in body.split(',')] if body else []
            n += 1
            ok = len(parts) == nel and all(re.fullmatch(r'(0x)?9[a-zA-Z]*', p_) for p_ in parts)
            # `uint8_t x[n] = {"…"}` is valid C for an array of a character type; a scalar cannot take a string literal
            if not ok and nel >= 2 and tname == 'MIR_T_U8' and body == 'S':
                ok = True
            run.ob(rule, (tname, nel), ok, {'element type': tname, 'elements': nel, 'printed': txt[:80]})
            if not ok:
                run.violation(rule, f, '%s data of %d element(s)' % (tname[6:].lower(), nel), 'for %s data of %d element(s) the C form printed is `%s` '
                              'instead of %d comma-separated scalar initialisers: mir2c wraps it as `T x%s = %s…%s;`, which the C compiler '
                              'rejects or initialises wrongly (a one-element u8 item holding 0 becomes `uint8_t x = "";`)'
                              % (tname, nel, txt[:60], nel, '' if nel == 1 else '[%d]' % nel, '' if nel == 1 else '{', '' if nel == 1 else '}'), line=f.line)
    return n


# ---------------------------------------------------------------------------------------------
# RF112: a long double immediate is not narrowed on its way to the printer
# ---------------------------------------------------------------------------------------------

def rf112(run, units=None):
    rule = 'RF112'
    run.rule(rule, 'printers and writers (all of mir2c; the text and binary writers of mir.c): no value of type long double is converted to '
                   'double or float (clang FloatingCast, implicit at a call of a helper with a `double` parameter or explicit).  A long '
                   'double immediate beyond the double range would become infinity — mir2c prints `(1.0L / 0.0L)` for 1.0e+400L — or lose '
                   'mantissa bits')
    n = 0
    if units is None:
        tu2 = run.tu('mir2c')
        tu1 = run.tu('mir')
        writers = tu1.reachable(['MIR_output_op', 'MIR_output_item', 'MIR_output_insn', 'write_op', 'write_item', 'write_insn', 'MIR_write_module_with_func'])
        sel = [(tu2, g) for g in tu2.func_list if g.file.startswith('/repo/mir2c')] + [(tu1, tu1.funcs[nm]) for nm in sorted(writers)]
    else:
        sel = [(tu, g) for tu in units for g in tu.func_list if g.body is not None]
    for tu, g in sel:
        if g.body is None:
            continue
        run.functions_analysed.add((tu.unit, g.name))
        n += 1
        hits = []
        for x in g.walk():
            if x['k'] in F.CASTS and x.get('ck') == 'FloatingCast' and x.get('c'):
                t, s = tu.type(x).s, tu.type(x['c'][0]).s
                if 'long double' in s and t in ('double', 'float', 'const double', 'const float'):
                    hits.append((x, t))
        run.ob(rule, (tu.unit, g.name), not hits)
        for x, t in hits:
            run.violation(rule, g, 'long double narrowed to %s' % t, '`%s` (long double) is converted to %s in %s: an immediate outside the %s range is '
                          'printed as infinity or with fewer digits, so the translation computes with another constant than the module' %
                          (F.src(x)[:50], t, g.name, t), line=x['l'])
    if n < 3:
        raise F.AnalysisBroken('RF112: only %d printer functions found' % n)
    return n


# ---------------------------------------------------------------------------------------------
# RF139: integer-to-floating conversions name the signedness of their source
# ---------------------------------------------------------------------------------------------

def rf139(run):
    import re
    from lib import printexec as PE
    from lib import regions as R
    rule = 'RF139'
    run.rule(rule, 'mir2c out_insn: an integer source operand can be a memory operand of any type, so its C type may be unsigned.  The '
                   'text printed for I2F / I2D / I2LD casts the source to (int64_t) and the text for UI2F / UI2D / UI2LD to (uint64_t) '
                   'before the floating-point cast (case regions executed abstractly with the operand printer as a placeholder); '
                   '`i2d x, u64:(p)` of -2 otherwise converts 1.8e19')
    tu = run.tu('mir2c')
    f = tu.func('out_insn')
    run.functions_analysed.add(('mir2c', f.name))
    sws = R.find_switches(f, lambda c: c.replace(' ', '').endswith('code'))
    if not sws:
        raise F.AnalysisBroken('out_insn: switch on the opcode not found')
    regs = R.switch_regions(f, max(sws, key=lambda s_: sum(1 for _ in F.walk(s_))))
    codes = dict(tu.enum('MIR_insn_code_t'))
    n = 0
    for nm, want in (('MIR_I2F', 'int64_t'), ('MIR_I2D', 'int64_t'), ('MIR_I2LD', 'int64_t'),
                     ('MIR_UI2F', 'uint64_t'), ('MIR_UI2D', 'uint64_t'), ('MIR_UI2LD', 'uint64_t')):
        idx = [i for i, r in enumerate(regs) if nm in [c[0] for c in r['cases']]]
        if not idx:
            raise F.AnalysisBroken('out_insn: no case for %s' % nm)
        stmts = []
        j = idx[0]
        while True:
            stmts += regs[j]['stmts']
            if regs[j]['falls_into'] is None:
                break
            j = regs[j]['falls_into']
        ex = PE.PrintExec(tu, {}, {}, {'out_op': lambda a, e, x: '$'})
        ex.exec_unit_calls = True
        ex.concrete_ints = True
        env = {'insn->code': codes[nm], 'code': codes[nm]}
        try:
            for st in stmts:
                r_ = ex.run(st, env)
                if r_ in ('break', 'return'):
                    break
        except F.AnalysisBroken as e_:
            raise F.AnalysisBroken('out_insn (%s): %s' % (nm, e_))
        txt = ' '.join(ex.text().split())
        ok = re.search(r'\(%s\)\s*\$\s*;' % want, txt) is not None
        n += 1
        run.ob(rule, (nm,), ok, {'opcode': nm, 'text': txt, 'source cast': want})
        if not ok:
            run.violation(rule, f, 'source of %s' % nm, 'the C text for %s is `%s`: the source is not cast to (%s), so a memory operand of the '
                          'other signedness (`i2d x, u64:(p)`) is converted with the signedness of its C type instead of the one the opcode '
                          'names' % (nm, txt, want), line=stmts[0]['l'] if stmts else f.line)
    return n


# ---------------------------------------------------------------------------------------------
# RF156: C text of the overflow instructions, executed with helpers inlined
# ---------------------------------------------------------------------------------------------

def rf156(run):
    import re
    from lib import printexec as PE
    from lib import regions as R
    rule = 'RF156'
    run.rule(rule, 'mir2c out_insn, overflow instructions: the case region is executed abstractly (helpers of the unit included, strings and '
                   'flags passed to them bound concretely) and the text is parsed into its __builtin_*_overflow calls.  ADDO / SUBO (and '
                   'the S forms) compute __overflow with the signed type into the destination and __uoverflow with the unsigned type into a '
                   'temporary; MULO(S) only __overflow, UMULO(S) only __uoverflow; widths follow the opcode.  The destination is written by '
                   'one assignment of the result temporary (never through a pointer cast of the destination: it may be a narrower memory, '
                   'D111) and that assignment is the *last* statement: the destination may be a source operand (`addo a, a, b`), and a '
                   'flag computed after the store reads the new value')
    tu = run.tu('mir2c')
    f = tu.func('out_insn')
    run.functions_analysed.add(('mir2c', f.name))
    sws = R.find_switches(f, lambda c: c.replace(' ', '').endswith('code'))
    if not sws:
        raise F.AnalysisBroken('out_insn: switch on the opcode not found')
    regs = R.switch_regions(f, max(sws, key=lambda s_: sum(1 for _ in F.walk(s_))))
    codes = dict(tu.enum('MIR_insn_code_t'))
    SPEC = {'MIR_ADDO': ('add', 64, ('s', 'u')), 'MIR_SUBO': ('sub', 64, ('s', 'u')), 'MIR_MULO': ('mul', 64, ('s',)), 'MIR_UMULO': ('mul', 64, ('u',)),
            'MIR_ADDOS': ('add', 32, ('s', 'u')), 'MIR_SUBOS': ('sub', 32, ('s', 'u')), 'MIR_MULOS': ('mul', 32, ('s',)), 'MIR_UMULOS': ('mul', 32, ('u',))}
    call_re = re.compile(r'(\w+)\s*=\s*__builtin_(add|sub|mul)_overflow\s*\(\s*\((u?int(?:32|64)_t)\)\s*\$1\s*,\s*\((u?int(?:32|64)_t)\)\s*\$2\s*,\s*(&\s*(__\w+)|\((u?int(?:32|64)_t)\s*\*\)\s*&\s*\$0)\s*\)')
    decl_re = re.compile(r'\{\s*(u?int(?:32|64)_t)\s+(__\w+)\s*;')
    asg_re = re.compile(r'\$0\s*=\s*(__\w+)\s*;')
    def region_text(nm):
        idx = [i for i, r in enumerate(regs) if nm in [c[0] for c in r['cases']]]
        if not idx:
            raise F.AnalysisBroken('out_insn: no case for %s' % nm)
        ex_ = PE.PrintExec(tu, {}, {}, {'out_op': lambda a_, e_, x_: '$0', 'out_jmp': lambda a_, e_, x_: 'goto $0;'})
        ex_.exec_unit_calls = True
        ex_.concrete_ints = True
        for st in regs[idx[0]]['stmts']:
            if ex_.run(st, {'insn->code': codes[nm], 'code': codes[nm]}) in ('break', 'return'):
                break
        return ' '.join(ex_.text().split())
    # the names of the two flags are those the branch instructions test
    fl = {}
    for nm, sg in (('MIR_BO', 's'), ('MIR_UBO', 'u')):
        m_ = re.search(r'if \((\w+)\)', region_text(nm))
        if not m_:
            raise F.AnalysisBroken('out_insn: the flag tested by %s is not recognised' % nm)
        fl[m_.group(1)] = sg
    if len(fl) != 2:
        raise F.AnalysisBroken('out_insn: BO and UBO test the same flag (RF57 reports that)')
    n = 0
    for nm, (op, w, flags) in SPEC.items():
        idx = [i for i, r in enumerate(regs) if nm in [c[0] for c in r['cases']]]
        if not idx:
            raise F.AnalysisBroken('out_insn: no case for %s' % nm)
        stmts = []
        j = idx[0]
        while True:
            stmts += regs[j]['stmts']
            if regs[j]['falls_into'] is None:
                break
            j = regs[j]['falls_into']

        def opr(a, e, x):
            t = F.src(F.strip(a[2])).replace(' ', '')
            m = re.search(r'ops\[(\d)\]', t)
            return '$%s' % (m.group(1) if m else '?')
        ex = PE.PrintExec(tu, {}, {}, {'out_op': opr})
        ex.exec_unit_calls = True
        ex.concrete_ints = True
        env = {'insn->code': codes[nm], 'code': codes[nm]}
        try:
            for st in stmts:
                r_ = ex.run(st, env)
                if r_ in ('break', 'return'):
                    break
        except F.AnalysisBroken as e_:
            raise F.AnalysisBroken('out_insn (%s): %s' % (nm, e_))
        txt = ' '.join(ex.text().split())
        found = list(call_re.finditer(txt))
        temps = {m_.group(2): m_.group(1) for m_ in decl_re.finditer(txt)}
        asg = list(asg_re.finditer(txt))
        why = None
        if not found or len(found) != len(flags):
            why = 'expected %d __builtin_%s_overflow call(s), text is `%s`' % (len(flags), op, txt[:140])
        elif len(asg) != 1:
            why = 'the destination is not written by one assignment of a temporary (`$0 = __r;`): a result stored through a pointer of ' \
                  'the computation type (`(int64_t *)&$0`) overruns a narrower memory destination (`addo i32:(p), a, b` clobbers the next ' \
                  'element) and leaves the upper half of the variable stale for the 32-bit forms; text is `%s`' % txt[:160]
        else:
            seen = set()
            res_tmp = asg[0].group(1)
            for k, m_ in enumerate(found):
                flag, name, t1, t2, tmp, t3 = m_.group(1), m_.group(2), m_.group(3), m_.group(4), m_.group(6), m_.group(7)
                if flag not in fl:
                    why = '`%s` is neither of the flags the branch instructions test (%s)' % (flag, ', '.join(sorted(fl)))
                    break
                sg = fl[flag]
                want_t = ('u' if sg == 'u' else '') + 'int%d_t' % w
                seen.add(sg)
                dt = t3 if t3 else temps.get(tmp)
                if name != op or t1 != want_t or t2 != want_t or dt != want_t:
                    why = '%s is computed by __builtin_%s_overflow on (%s, %s) into %s: expected %s on %s' % (flag, name, t1, t2, dt, op, want_t)
                if t3:
                    why = 'the result of %s is stored through `(%s *)&$0`: a narrower memory destination is overrun' % (flag, t3)
                stores = tmp == res_tmp
                # exactly one computation provides the destination: the signed one when both flags are computed
                if len(flags) == 2 and stores != (sg == 's'):
                    why = 'the destination is taken from the %s computation' % ('unsigned' if sg == 'u' else 'wrong')
            if why is None and res_tmp not in [m_.group(6) for m_ in found]:
                why = 'the destination is assigned `%s`, which no overflow computation writes' % res_tmp
            if why is None and asg[0].start() < found[-1].end():
                why = 'the assignment of the destination ($0) comes before the computation of %s, which reads $1 / $2 again: with ' \
                      '`%s a, a, b` the second flag is computed from the result' % (found[-1].group(1), nm[4:].lower())
            if why is None and seen != set(flags):
                why = 'flags computed: %s, expected %s' % (sorted(seen), sorted(flags))
        n += 1
        run.ob(rule, (nm,), why is None, {'opcode': nm, 'text': txt[:200]})
        if why:
            run.violation(rule, f, 'C text of %s' % nm, 'mir2c translates %s wrongly: %s' % (nm, why), line=stmts[0]['l'] if stmts else f.line)
    return n


# ---------------------------------------------------------------------------------------------
# RF167: the address expression of a memory operand
# ---------------------------------------------------------------------------------------------

def rf167(run):
    import re
    from lib import printexec as PE
    from lib import regions as R
    rule = 'RF167'
    run.rule(rule, 'mir2c out_op, memory operands: the MIR_OP_MEM case is executed abstractly for every shape — displacement in {0, 16, -4}, base '
                   'and index register present or absent, scale in {1, 4, 8} — and the printed C text is parsed: `*(T*) (E)` (no dereference '
                   'for block memory), where E is evaluated with numbers in place of the register names and equals disp + base + index * '
                   'scale.  A separator lost between two parts (`i * 416` for index * 4 + 16) gives valid C with another address')
    tu = run.tu('mir2c')
    f = tu.func('out_op')
    run.functions_analysed.add(('mir2c', f.name))
    sws = R.find_switches(f, lambda c: c.replace(' ', '').endswith('mode'))
    if not sws:
        raise F.AnalysisBroken('out_op: switch on the operand mode not found')
    regs = R.switch_regions(f, max(sws, key=lambda s_: sum(1 for _ in F.walk(s_))))
    idx = [i for i, r in enumerate(regs) if 'MIR_OP_MEM' in [c[0] for c in r['cases']]]
    if not idx:
        raise F.AnalysisBroken('out_op: no case for MIR_OP_MEM')
    stmts = regs[idx[0]]['stmts']
    ty = dict(tu.enum('MIR_type_t'))
    BASE, INDEX = 1000003, 1009
    n = 0
    for blk in (False, True):
        for disp in (0, 16, -4):
            for base in (0, 7):
                for index in (0, 9):
                    for scale in ((1, 4, 8) if index else (1,)):
                        def regname(a, e, x):
                            v = x.val(a[1], e)
                            return 'BASEREG' if v == 7 else 'INDEXREG' if v == 9 else 'NOREG'
                        ex = PE.PrintExec(tu, {}, {'MIR_reg_name': regname,
                                                   'MIR_blk_type_p': lambda a, e, x: int(blk), 'MIR_all_blk_type_p': lambda a, e, x: int(blk)},
                                          {'out_type': lambda a, e, x: 'T'})
                        ex.concrete_ints = True
                        env = {'op.u.mem.type': ty['MIR_T_BLK'] if blk else ty['MIR_T_I32'], 'op.u.mem.disp': 0 if blk and False else disp,
                               'op.u.mem.base': base, 'op.u.mem.index': index, 'op.u.mem.scale': scale, 'op.mode': 0}
                        try:
                            for st in stmts:
                                r_ = ex.run(st, env)
                                if r_ in ('break', 'return'):
                                    break
                        except F.AnalysisBroken as e_:
                            raise F.AnalysisBroken('out_op (memory operand): %s' % e_)
                        txt = ' '.join(ex.text().split())
                        m = re.fullmatch(r'(\*\(T ?\*\) ?)?\((.*)\)', txt)
                        why = None
                        if not m:
                            why = 'text `%s` is not of the form `*(T*) (E)`' % txt
                        elif bool(m.group(1)) == blk:
                            why = ('a block memory operand is dereferenced' if blk else 'the operand is not dereferenced') + ' (`%s`)' % txt
                        else:
                            e = m.group(2).replace('BASEREG', str(BASE)).replace('INDEXREG', str(INDEX))
                            if 'NOREG' in e or not re.fullmatch(r'[-+*() 0-9]+', e):
                                why = 'address expression `%s` has an unexpected part' % m.group(2)
                            else:
                                try:
                                    v = eval(e, {'__builtins__': {}}, {})
                                except Exception:
                                    v = None
                                # the size of a block is kept in the displacement field: the printed displacement of block memory is 0
                                want = (0 if blk else disp) + (BASE if base else 0) + (INDEX * scale if index else 0)
                                if v != want:
                                    why = 'address expression `%s` is not %s' % (m.group(2), ' + '.join(
                                        ([str(disp)] if disp and not blk else []) + (['base'] if base else []) + (['index * %d' % scale] if index else [])) or '0')
                        n += 1
                        if why or (disp, base, index, scale) in ((16, 7, 9, 4), (16, 0, 9, 4), (0, 0, 0, 1)):
                            run.ob(rule, (blk, disp, base, index, scale), why is None, {'block memory': blk, 'disp': disp, 'base': bool(base), 'index': bool(index),
                                                                                      'scale': scale, 'text': txt})
                        else:
                            run.ob(rule, (blk, disp, base, index, scale), True)
                        if why:
                            run.violation(rule, f, 'address of a memory operand', 'mir2c prints the memory operand (disp %d, %s, %s, scale %d) wrongly: %s' %
                                          (disp, 'base' if base else 'no base', 'index' if index else 'no index', scale, why), line=stmts[0]['l'] if stmts else f.line)
    return n


# ---------------------------------------------------------------------------------------------
# RF175: the translator does not write into the module
# ---------------------------------------------------------------------------------------------

def rf175(run):
    rule = 'RF175'
    run.rule(rule, 'mir2c.c: MIR_module2c reads the module and prints C.  No statement of the translator assigns, increments or otherwise '
                   'writes a field reached through a pointer to a MIR object (item, instruction, function, prototype, data, module): a mark '
                   'left in `item->addr` (D114) made a second translation lose the definition, made MIR_load_module after a translation '
                   'copy data to address 1, and made a loaded module translate to nothing')
    tu = run.tu('mir2c')
    n = w = 0

    def root_type(e):
        """type string of the object a member chain is rooted in, and whether the chain goes through a pointer"""
        through_ptr = False
        e = F.strip(e)
        while e['k'] in ('MemberExpr', 'ArraySubscriptExpr'):
            base = F.strip(e['c'][0])
            bt = tu.type(base)
            if bt is not None and (getattr(bt, 'kind', None) == 'ptr' or '*' in (bt.s or '')):
                through_ptr = True
                return (bt.s or ''), through_ptr
            e = base
        return (getattr(tu.type(e), 's', '') or ''), through_ptr
    for g in tu.func_list:
        if g.body is None or not g.file.endswith('mir2c/mir2c.c'):
            continue
        run.functions_analysed.add(('mir2c', g.name))
        for x in g.walk():
            lhs = None
            if x['k'] in ('BinaryOperator', 'CompoundAssignOperator') and x['op'].endswith('=') and x['op'] not in ('==', '!=', '<=', '>='):
                lhs = x['c'][0]
            elif x['k'] == 'UnaryOperator' and x['op'] in ('++', '--'):
                lhs = x['c'][0]
            if lhs is None:
                continue
            n += 1
            l0 = F.strip(lhs)
            if l0['k'] not in ('MemberExpr', 'ArraySubscriptExpr'):
                continue
            ts, ptr = root_type(l0)
            if ptr and 'MIR_' in ts:
                w += 1
                run.ob(rule, (g.name, x['l']), False, {'site': '%s:%d %s' % (g.relfile(), x['l'], g.name), 'write': F.src(x)[:60], 'through': ts})
                run.violation(rule, g, 'translator writes into the module', '%s writes `%s` (line %d) through a %s: the module is changed by its own '
                              'translation — translating it again, or loading it afterwards, sees the change' % (g.name, F.src(lhs)[:40], x['l'], ts),
                              line=x['l'])
    run.control(rule, 'assignments of mir2c.c seen', n >= 20)
    run.ob(rule, ('unit',), w == 0, {'assignments inspected': n, 'through a pointer to a MIR object': w})
    return 1
