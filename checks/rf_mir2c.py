"""RF21 mir2c register typing: the C object that stands for an integer MIR register is int64_t."""
from lib import facts as F
from lib import enumflow as EF
from lib import regions as R

SIGNED64_OR_FP = {'int64_t', 'float', 'double', 'long double'}


def true_set_over(tu, preds, cond, key, universe):
    ts = set()
    for v in universe:
        r = preds.eval(cond, {key: v}, universe)
        if r is None:
            return None
        if r:
            ts.add(v)
    return frozenset(ts)


def out_type_map(tu):
    f = tu.func('out_type')
    m = {}
    for sw in R.find_switches(f):
        for r in R.switch_regions(f, sw):
            lits = [x['s'] for x in R.region_nodes(r['stmts']) if x['k'] == 'StringLiteral']
            for (nm, lo, hi) in r['cases']:
                if nm and lits:
                    m[nm] = lits[0].strip()
    if len(m) < 8:
        raise F.AnalysisBroken('mir2c out_type switch not recognised')
    return m


def rf21(run):
    rule = 'RF21'
    run.rule(rule, 'mir2c: a parameter is used directly as the C object of its MIR register only for types whose C type is '
                   'int64_t or the matching floating type; every other parameter is copied into an int64_t local; the '
                   'declaration site and the prologue site agree on that type set (cast-free templates such as I2D rely on it)')
    tu = run.tu('mir2c')
    preds = EF.Predicates(tu)
    types = dict(tu.enum('MIR_type_t'))
    byval = {}
    for n, v in tu.enum('MIR_type_t'):
        byval.setdefault(v, n)
    uni = frozenset(v for n, v in tu.enum('MIR_type_t') if n != 'MIR_T_BOUND')
    ctype = out_type_map(tu)
    # site A: out_func_decl — fprintf (f, cond ? " %s" : " _%s", var.name)
    fa = tu.func('out_func_decl')
    SA = None
    for n in fa.walk():
        if n['k'] == 'CallExpr' and n.get('callee') == 'fprintf':
            args = F.call_args(n)
            if len(args) >= 2:
                a = F.strip(args[1])
                if a['k'] == 'ConditionalOperator':
                    t, e = F.strip(a['c'][1]), F.strip(a['c'][2])
                    if t['k'] == 'StringLiteral' and e['k'] == 'StringLiteral' and '_%s' in e['s'] and '_%s' not in t['s']:
                        keys = [F.src(x) for x in F.walk(a['c'][0]) if x['k'] == 'MemberExpr' and x['n'] == 'type']
                        if keys:
                            SA = (true_set_over(tu, preds, a['c'][0], keys[0], uni), n['l'])
    if SA is None or SA[0] is None:
        raise F.AnalysisBroken('out_func_decl: parameter naming decision (" %s" / " _%s") not recognised')
    # site B: out_item — if (cond) continue; fprintf ("  int64_t %s = _%s;\n" …)
    fb = tu.func('out_item')
    SB = None
    for loop in fb.walk():
        if loop['k'] != 'ForStmt' or loop['c'][3] is None:
            continue
        body = loop['c'][3]
        copies = [x for x in F.walk(body) if x['k'] == 'StringLiteral' and '%s = _%s' in x['s']]
        if not copies:
            continue
        for st in F.walk(body):
            if st['k'] == 'IfStmt' and st['c'][1] is not None and any(x['k'] == 'ContinueStmt' for x in F.walk(st['c'][1])):
                keys = [F.src(x) for x in F.walk(st['c'][0]) if x['k'] == 'MemberExpr' and x['n'] == 'type']
                if keys:
                    SB = (true_set_over(tu, preds, st['c'][0], keys[0], uni), st['l'], copies[0]['s'])
    if SB is None or SB[0] is None:
        raise F.AnalysisBroken('out_item: parameter widening-copy loop not recognised')
    names = lambda S: sorted(byval[v] for v in S)
    ok = SA[0] == SB[0]
    run.ob(rule, ('sites-agree',), ok, {'declared under own name for': names(SA[0]), 'no widening copy for': names(SB[0])})
    if not ok:
        run.violation(rule, fb, 'direct-parameter type sets', 'out_func_decl names parameters directly for {%s} but out_item skips the '
                      'widening copy for {%s}' % (', '.join(names(SA[0])), ', '.join(names(SB[0]))), line=SB[1])
    if 'int64_t %s' not in SB[2]:
        run.violation(rule, fb, 'widening copy type', 'the widening copy does not declare an int64_t local: %r' % SB[2], line=SB[1])
    for v in sorted(SA[0] | SB[0]):
        t = byval[v]
        c = ctype.get(t)
        if c is None:
            c = 'void *' if 'BLK' in t else None
        ok = c in SIGNED64_OR_FP
        run.ob(rule, ('direct', t), ok, {'parameter type': t, 'C type': c, 'used directly as the register': True})
        if not ok:
            run.violation(rule, fa, 'direct parameter of type %s' % t,
                          'a %s parameter is declared as `%s` and used directly as the C object of its MIR register; integer '
                          'registers must be int64_t objects because cast-free templates (i2f/i2d/i2ld, moves, call arguments) '
                          'take the operand\'s C type' % (t, c), line=SA[1])
    # locals: declared through out_type of the register type; MIR only allows I64/F/D/LD registers — all in the allowed set
    for t in ('MIR_T_I64', 'MIR_T_F', 'MIR_T_D', 'MIR_T_LD'):
        ok = ctype.get(t) in SIGNED64_OR_FP
        run.ob(rule, ('local', t), ok)
        if not ok:
            run.violation(rule, tu.func('out_type'), 'C type of %s' % t, 'out_type maps register type %s to `%s`' % (t, ctype.get(t)),
                          line=tu.func('out_type').line)
