"""RF16 must-pass-through protocol rules: code generation entry/exit (C16), load/link binding (C13), data sections (C14)."""
from lib import facts as F
import rf_flow


def calls_in(cfg, name):
    return rf_flow.blocks_with(cfg, lambda x: x['k'] == 'CallExpr' and x.get('callee') == name)


def stores_to(cfg, suffix):
    """blocks that assign an lvalue whose rendered text ends with suffix"""
    return rf_flow.blocks_with(cfg, lambda x: x['k'] == 'BinaryOperator' and x['op'] == '=' and F.src(F.strip(x['c'][0])).endswith(suffix))


def dominating_conditions(cfg, bid, selective=False):
    """[(cond text, truth)] of the branch edges that dominate block bid"""
    idom = cfg.dominators()
    out = []
    for B in cfg.blocks.values():
        if B.cond is None or len(B.succs) != 2 or B.tk == 'SwitchStmt':
            continue
        t, f = B.succs
        for succ, truth in ((t, True), (f, False)):
            other = f if truth else t
            if succ is None:
                continue
            if (succ == bid or cfg.dominates(succ, bid, idom)) and not (other is not None and (other == bid or bid in cfg.reachable_from(other, avoid=lambda x: x == B.id))):
                # the branch itself must lie on every path to bid (a join block after a short-circuit test is dominated by the
                # successor of the last operand without that operand having been evaluated)
                if not (B.id == bid or cfg.dominates(B.id, bid, idom)):
                    continue
                if selective and any(cfg.dominates(B.id, q, idom) for q in (B.preds or []) if q != B.id):
                    continue  # a loop header (target of a back edge): neither entering nor leaving the loop selects anything
                out.append((F.src(F.strip(B.cond)), truth))
    return out


# ---------------------------------------------------------------------------------------------
# C16
# ---------------------------------------------------------------------------------------------

def rf16a(run):
    rule = 'RF16a'
    run.rule(rule, 'generate_func_code: the function\'s insns are duplicated only after the already-generated early exit; every path '
                   'from the duplication to a return passes _MIR_restore_func_insns except the !machine_code_p exit; machine_code is '
                   'set only after the restore; the early and the normal return yield the same expression')
    tu = run.tu('gen')
    f = tu.func('generate_func_code')
    run.functions_analysed.add(('gen', f.name))
    cfg = f.cfg
    D, Rb = calls_in(cfg, '_MIR_duplicate_func_insns'), calls_in(cfg, '_MIR_restore_func_insns')
    if len(D) != 1 or len(Rb) != 1:
        raise F.AnalysisBroken('generate_func_code: expected exactly one duplicate and one restore call (found %d, %d)' % (len(D), len(Rb)))
    d, r = next(iter(D)), next(iter(Rb))
    rets = rf_flow.return_blocks(f)
    # 1. returns reachable from the duplication without passing the restore
    fwd = cfg.reachable_from(d, avoid=lambda b: b == r)
    for bid, ret in rets.items():
        if bid not in fwd or bid == d:
            continue
        conds = dominating_conditions(cfg, bid)
        lazy = any(c in ('machine_code_p',) and not t or c == '!machine_code_p' and t for c, t in conds)
        run.ob(rule, ('unrestored-return', ret['l']), lazy, {'return': F.src(ret), 'line': ret['l'],
                                                            'reached without restore': True, 'guarded by !machine_code_p': lazy})
        if not lazy:
            run.violation(rule, f, 'return without restore', 'generate_func_code returns (%s) after duplicating the function\'s insns '
                          'without restoring them; only the !machine_code_p (lazy basic-block) exit may do so' % F.src(ret), line=ret['l'])
    # 2. restored returns exist
    restored = [ret for bid, ret in rets.items() if bid == r or bid in cfg.reachable_from(r)]
    run.ob(rule, ('restored-return',), bool(restored), {'returns after restore': [F.src(x) for x in restored]})
    if not restored:
        run.violation(rule, f, 'no restored return', 'no return of generate_func_code follows _MIR_restore_func_insns', line=f.line)
    # 3. machine_code is published (stored) only after the restore
    for b in stores_to(cfg, '->machine_code'):
        ok = b == r or cfg.dominates(r, b)
        if b == r:
            B = cfg.blocks[b]
            st = [i for i, e in enumerate(B.elems) if e['k'] == 'BinaryOperator' and e['op'] == '=' and F.src(F.strip(e['c'][0])).endswith('->machine_code')]
            rc = [i for i, e in enumerate(B.elems) if any(x['k'] == 'CallExpr' and x.get('callee') == '_MIR_restore_func_insns' for x in F.walk(e))]
            ok = bool(st) and bool(rc) and min(rc) < min(st)
        run.ob(rule, ('marker-after-restore', b), ok, {'store': 'func->machine_code = …', 'after restore': ok})
        if not ok:
            run.violation(rule, f, 'machine_code store', 'func->machine_code is set before the original insns are restored: a concurrent or '
                          'repeated request would see the function as generated while its MIR is still the lowered copy', line=f.line)
    # 4. the duplication is dominated by the "already generated" early exit
    conds = dominating_conditions(cfg, d)
    ok = any('->machine_code' in c and '!=' in c and not t for c, t in conds) or any('->machine_code' in c and '==' in c and t for c, t in conds)
    run.ob(rule, ('early-exit-dominates',), ok, {'conditions dominating the duplication': ['%s is %s' % c for c in conds]})
    if not ok:
        run.violation(rule, f, 'duplication guard', '_MIR_duplicate_func_insns is not guarded by the machine_code != NULL early exit: '
                      'asking again for the code of a generated function would lower its insns a second time', line=f.line)
    # 5. early return and final return yield the same expression
    early = [ret for bid, ret in rets.items() if any('->machine_code' in c and t for c, t in dominating_conditions(cfg, bid))]
    final = restored
    vals = {F.src(F.kids(x)[0]) for x in early + final if F.kids(x)}
    ok = len(vals) == 1 and bool(early) and bool(final)
    run.ob(rule, ('same-result',), ok, {'early returns': [F.src(x) for x in early], 'final returns': [F.src(x) for x in final]})
    if not ok:
        run.violation(rule, f, 'return values', 'the already-generated exit and the normal exit of generate_func_code return different '
                      'expressions: %s' % sorted(vals), line=f.line)


def rf16b(run):
    rule = 'RF16b'
    run.rule(rule, '_MIR_duplicate_func_insns / _MIR_restore_func_insns are inverse: every original_*/orig_* field saved by the first is '
                   'read back by the second and cleared')
    tu = run.tu('mir')
    du, re_ = tu.func('_MIR_duplicate_func_insns'), tu.func('_MIR_restore_func_insns')
    saved = {}
    for n in du.walk():
        if n['k'] == 'BinaryOperator' and n['op'] == '=':
            l = F.strip(n['c'][0])
            if l['k'] == 'MemberExpr' and l['n'].startswith('orig'):
                saved[l['n']] = F.src(F.strip(n['c'][1]))
    if len(saved) < 3:
        raise F.AnalysisBroken('_MIR_duplicate_func_insns: saved fields not recognised')
    reads = {n['n'] for n in re_.walk() if n['k'] == 'MemberExpr' and n['n'].startswith('orig')
             and not (lambda p: p is not None and p['k'] == 'BinaryOperator' and p['op'] == '=' and p['c'][0] is n)(re_.parent_of(n))}
    for fld, src_ in sorted(saved.items()):
        ok = fld in reads
        # the value restored goes back where it came from
        back = [n for n in re_.walk() if n['k'] == 'BinaryOperator' and n['op'] == '=' and fld in F.src(n['c'][1])
                and F.src(F.strip(n['c'][0])).split('->')[-1] == src_.split('->')[-1].split('.')[0]]
        run.ob(rule, ('saved-field', fld), ok, {'field': fld, 'saved from': src_, 'read in restore': ok,
                                               'assigned back': [F.src(b) for b in back][:2]})
        if not ok:
            run.violation(rule, re_, 'field %s' % fld, '_MIR_duplicate_func_insns saves %s (from %s) but _MIR_restore_func_insns never '
                          'reads it back' % (fld, src_), line=re_.line)
    # the registers added by the generator are removed through the variables popped from func->vars: the popped element must be
    # what locates the descriptor that is deleted from the register tables
    pops = [n for n in re_.walk() if n['k'] == 'CallExpr' and (n.get('callee') or '').startswith('VARR_') and n['callee'].endswith('pop')
            and F.src(F.call_args(n)[0]).endswith('->vars')]
    if len(pops) != 1:
        run.analysis_broken(rule, '_MIR_restore_func_insns: pop of func->vars not recognised')
    else:
        par = re_.parent_of(pops[0])
        while par is not None and par['k'] in F.CASTS:
            par = re_.parent_of(par)
        popped = None
        if par is not None and par['k'] == 'DeclStmt':
            for d in par['decls']:
                if d.get('init') is not None and any(x is pops[0] for x in F.walk(d['init'])):
                    popped = d['n']
        elif par is not None and par['k'] == 'BinaryOperator' and par['op'] == '=':
            popped = F.src(F.strip(par['c'][0]))
        lookups = [n for n in re_.walk() if n['k'] == 'CallExpr' and (n.get('callee') or '').startswith('find_rd_by_')]
        uses = popped is not None and any(any(x['k'] == 'DeclRefExpr' and x['n'] == popped for a in F.call_args(l) for x in F.walk(a)) for l in lookups)
        dels = [n for n in re_.walk() if n['k'] == 'CallExpr' and (n.get('callee') or '').startswith('HTAB_') and
                any(F.strip(a)['k'] == 'DeclRefExpr' and F.strip(a)['n'] == 'HTAB_DELETE' for a in F.call_args(n))]
        ok = uses and len(dels) >= 2
        run.ob(rule, ('popped-var-locates-descriptor',), ok, {'popped into': popped, 'look-ups': [F.src(l)[:60] for l in lookups],
                                                              'table deletions': len(dels)})
        if not ok:
            run.violation(rule, re_, 'descriptor of the popped var', 'the variable popped from func->vars (%s) is not what locates the '
                          'register descriptor removed from the tables: a function with global vars would lose the wrong registers'
                          % (popped or 'discarded'), line=pops[0]['l'])
    # the lowered copy is released and the list heads swapped back
    ok = any(n['k'] == 'CallExpr' and n.get('callee') == 'MIR_remove_insn' for n in re_.walk())
    run.ob(rule, ('copy-released',), ok)
    if not ok:
        run.violation(rule, re_, 'lowered insns', '_MIR_restore_func_insns does not remove the lowered copy of the insns', line=re_.line)


def rf16i(run):
    rule = 'RF16i'
    run.rule(rule, 'finish_func_interpretation clears insn->data of every insn and MIR_link calls it before set_interface for every function')
    tu = run.tu('mir')
    f = tu.func('finish_func_interpretation')
    loops = [n for n in f.walk() if n['k'] == 'ForStmt']
    ok = any(any(x['k'] == 'BinaryOperator' and x['op'] == '=' and F.src(F.strip(x['c'][0])).endswith('->data') for x in F.walk(l)) for l in loops)
    run.ob(rule, ('reset-loop',), ok)
    if not ok:
        run.violation(rule, f, 'insn->data reset', 'finish_func_interpretation no longer resets insn->data for every insn', line=f.line)
    ml = tu.func('MIR_link')
    cfg = ml.cfg
    fin = calls_in(cfg, 'finish_func_interpretation')
    seti = rf_flow.blocks_with(cfg, lambda x: x['k'] == 'CallExpr' and F.src(x['c'][0]) == 'set_interface' and
                               F.src(F.call_args(x)[1]) == 'item')
    ok = bool(fin) and bool(seti)
    if ok:
        for b in seti:
            B = cfg.blocks[b]
            # same block, finish first — or dominated by a finish block
            if b in fin:
                i1 = min(i for i, e in enumerate(B.elems) if any(x['k'] == 'CallExpr' and x.get('callee') == 'finish_func_interpretation' for x in F.walk(e)))
                i2 = min(i for i, e in enumerate(B.elems) if any(x['k'] == 'CallExpr' and F.src(x['c'][0]) == 'set_interface' for x in F.walk(e)))
                ok = ok and i1 < i2
            else:
                ok = ok and any(cfg.dominates(fb, b) for fb in fin)
    run.ob(rule, ('finish-before-set-interface',), ok)
    if not ok:
        run.violation(rule, ml, 'interface set-up order', 'MIR_link does not call finish_func_interpretation before set_interface (ctx, item)', line=ml.line)


# ---------------------------------------------------------------------------------------------
# C13
# ---------------------------------------------------------------------------------------------

def must_pass_between(cfg, start, targets, end_blocks):
    """every path from block start to any block in end_blocks passes a block of targets (start itself counts)"""
    if start in targets:
        return True
    seen = cfg.reachable_from(start, avoid=lambda b: b in targets)
    return not (seen & set(end_blocks))


def rf16c(run):
    rule = 'RF16c'
    run.rule(rule, 'setup_global: every path to the return overwrites the environment entry\'s addr and ref_def (the most recent load wins)')
    tu = run.tu('mir')
    f = tu.func('setup_global')
    cfg = f.cfg
    run.functions_analysed.add(('mir', f.name))
    for fld in ('addr', 'ref_def'):
        st = rf_flow.blocks_with(cfg, lambda x, fld=fld: x['k'] == 'BinaryOperator' and x['op'] == '=' and
                                 F.strip(x['c'][0])['k'] == 'MemberExpr' and F.strip(x['c'][0])['n'] == fld)
        ok = bool(st) and must_pass_between(cfg, cfg.entry, st, [cfg.exit])
        # and the stored value is the parameter
        vals = [F.src(F.strip(x['c'][1])) for B in cfg.blocks.values() for e in B.elems for x in cfg.local_walk(e)
                if x['k'] == 'BinaryOperator' and x['op'] == '=' and F.strip(x['c'][0])['k'] == 'MemberExpr' and F.strip(x['c'][0])['n'] == fld]
        pn = {p['n'] for p in f.params}
        okv = bool(vals) and all(v in pn for v in vals)
        run.ob(rule, ('overwrite', fld), ok and okv, {'field': fld, 'on every path': ok, 'value stored': vals})
        if not (ok and okv):
            run.violation(rule, f, 'entry->%s' % fld, 'setup_global does not store the new %s into the environment entry on every path: '
                          'an import linked later could bind to an older definition' % fld, line=f.line)


def rf16d(run):
    rule = 'RF16d'
    run.rule(rule, 'MIR_link: in each of the import/export/forward branches every path that does not end in the error callback assigns '
                   'item->addr and item->ref_def from the table entry; an unresolved import reaches the resolver and then the error or '
                   'MIR_load_external')
    tu = run.tu('mir')
    f = tu.func('MIR_link')
    cfg = f.cfg
    run.functions_analysed.add(('mir', f.name))
    addr_st = rf_flow.blocks_with(cfg, lambda x: x['k'] == 'BinaryOperator' and x['op'] == '=' and F.src(F.strip(x['c'][0])) == 'item->addr')
    ref_st = rf_flow.blocks_with(cfg, lambda x: x['k'] == 'BinaryOperator' and x['op'] == '=' and F.src(F.strip(x['c'][0])) == 'item->ref_def')
    kinds = 0
    for B in cfg.blocks.values():
        if B.cond is None:
            continue
        c = F.src(F.strip(B.cond))
        for kind in ('MIR_import_item', 'MIR_export_item', 'MIR_forward_item'):
            if c == '(item->item_type == %s)' % kind and B.succs[0] is not None:
                kinds += 1
                t = B.succs[0]
                me = B.id
                noret = {b for b in cfg.blocks if cfg.blocks[b].noreturn}
                # the end of the branch is the step of the enclosing item loop:  item = DLIST_NEXT (…, item)
                steps = rf_flow.blocks_with(cfg, lambda x: x['k'] == 'BinaryOperator' and x['op'] == '=' and F.src(F.strip(x['c'][0])) == 'item'
                                            and 'next' in F.src(F.strip(x['c'][1])))
                kind_tests = {b.id for b in cfg.blocks.values() if b.cond is not None and 'item->item_type ==' in F.src(F.strip(b.cond))}
                for nm, st in (('addr', addr_st), ('ref_def', ref_st)):
                    seen = cfg.reachable_from(t, avoid=lambda b: b in st or b in noret or (b in kind_tests and b != t) or b in steps and False)
                    reached_step = bool(seen & steps)
                    has = bool(st & cfg.reachable_from(t, avoid=lambda b: b in steps))
                    ok = has and not reached_step
                    run.ob(rule, (kind, nm), ok, {'branch': kind, 'field': 'item->' + nm, 'assigned on every non-error path': ok})
                    if not ok:
                        run.violation(rule, f, '%s branch item->%s' % (kind, nm),
                                      'MIR_link: the %s branch can complete without assigning item->%s (the item stays unbound or '
                                      'bound to a previous definition)' % (kind, nm), line=B.cond['l'])
    if kinds != 3:
        run.analysis_broken(rule, 'MIR_link: %d of the 3 item-kind branches recognised' % kinds)
    # the entry an item is bound to comes from a look-up in the item table on every path (not from a field that an earlier,
    # possibly not yet linked, declaration left behind)
    lookups = rf_flow.blocks_with(cfg, lambda x: x['k'] == 'BinaryOperator' and x['op'] == '=' and F.src(F.strip(x['c'][0])) == 'tab_item'
                                  and F.strip(x['c'][1])['k'] == 'CallExpr' and F.strip(x['c'][1]).get('callee') == 'item_tab_find')
    others = rf_flow.blocks_with(cfg, lambda x: x['k'] == 'BinaryOperator' and x['op'] == '=' and F.src(F.strip(x['c'][0])) == 'tab_item'
                                 and not (F.strip(x['c'][1])['k'] == 'CallExpr' and F.strip(x['c'][1]).get('callee') == 'item_tab_find'))
    ok = bool(lookups) and not others
    run.ob(rule, ('lookup-provenance',), ok, {'tab_item assigned from item_tab_find in blocks': sorted(lookups), 'from something else in': sorted(others)})
    if not ok:
        run.violation(rule, f, 'provenance of tab_item', 'MIR_link binds an import/export/forward to an entry that does not come from '
                      'item_tab_find on every path (tab_item is also assigned from another source): the entry may be a declaration that '
                      'has not been linked yet, whose addr is still NULL', line=f.line)
    # unresolved import: error reachable, and MIR_load_external before re-lookup
    le = calls_in(cfg, 'MIR_load_external')
    run.ob(rule, ('resolver-load',), bool(le), {'MIR_load_external called on resolver success': bool(le)})
    if not le:
        run.violation(rule, f, 'resolver path', 'MIR_link no longer registers the address returned by the import resolver', line=f.line)
    # each of the three kinds can end in the error callback (undefined item)
    noret = {b for b in cfg.blocks if cfg.blocks[b].noreturn}
    kind_tests = {b.id for b in cfg.blocks.values() if b.cond is not None and 'item->item_type ==' in F.src(F.strip(b.cond))}
    for B in cfg.blocks.values():
        if B.cond is None:
            continue
        c = F.src(F.strip(B.cond))
        for kind in ('MIR_import_item', 'MIR_export_item', 'MIR_forward_item'):
            if c == '(item->item_type == %s)' % kind and B.succs[0] is not None:
                t = B.succs[0]
                ok = bool(noret & cfg.reachable_from(t, avoid=lambda b: b in kind_tests and b != t))
                run.ob(rule, (kind, 'error-exit'), ok)
                if not ok:
                    run.violation(rule, f, '%s undefined-item error' % kind, 'MIR_link: the %s branch cannot reach the error callback: an '
                                  'undefined item is no longer reported' % kind, line=B.cond['l'])


def rf16e(run):
    rule = 'RF16e'
    run.rule(rule, 'MIR_load_module: the redefinition error is raised exactly under "the name is already in the environment" (the result of '
                   'setup_global or a probe of the environment table), the item being a function, and redefinition not being permitted; '
                   'and it is raised before setup_global records the new definition (a rejected definition is not bound by later links)')
    tu = run.tu('mir')
    f = tu.func('MIR_load_module')
    cfg = f.cfg
    run.functions_analysed.add(('mir', f.name))
    errs = [b for b in cfg.blocks if cfg.blocks[b].noreturn]
    if len(errs) != 1:
        run.ob(rule, ('error-site',), False)
        run.violation(rule, f, 'redefinition error', 'MIR_load_module has %d error call sites, expected the single redefinition error' % len(errs),
                      line=f.line)
        return
    conds = dominating_conditions(cfg, errs[0])

    def defined_test(c):
        cc = c.replace(' ', '')
        return cc.startswith('setup_global(') or ('item_tab_find(' in cc and 'environment_module' in cc and ('!=0' in cc or '!=NULL' in cc))
    have = {'name already defined (setup_global result, or a probe of the environment table)': any(defined_test(c) and t for c, t in conds),
            'function item': any('item_type == MIR_func_item' in c and t for c, t in conds),
            'not permitted': any(('func_redef_permission_p' in c) and ((c.startswith('!') and t) or (not c.startswith('!') and not t)) for c, t in conds),
            'exported': any('export_p' in c and t for c, t in conds)}
    for k, v in have.items():
        run.ob(rule, ('guard', k), v, {'guard': k, 'dominates the error': v, 'all guards': ['%s=%s' % c for c in conds]})
        if not v:
            run.violation(rule, f, 'redefinition guard: %s' % k,
                          'the "prohibited for redefinition" error of MIR_load_module is no longer conditional on [%s]' % k, line=f.line)
    # no additional guard may weaken the rejection
    extra = [c for c, t in conds if t and not (defined_test(c) or 'item_type == MIR_func_item' in c or
                                                 'func_redef_permission_p' in c or 'export_p' in c or c in ('(item != 0)', 'item') or
                                                 '__darwin' in c or 'strncmp' in c)]
    extra += [c for c, t in conds if (not t) and 'func_redef_permission_p' not in c]
    run.ob(rule, ('no-extra-guard',), not extra, {'additional conditions on the error': extra})
    if extra:
        run.violation(rule, f, 'additional guard on the redefinition error',
                      'the "prohibited for redefinition" error is additionally conditional on [%s]: a second exported function of the '
                      'same name is accepted whenever that condition is false' % '; '.join(x[:60] for x in extra), line=f.line)
    # rejected means not recorded: the error function may return (longjmp); no path reaches the error after setup_global has
    # overwritten the environment entry
    sgb = calls_in(cfg, 'setup_global')
    before = set()
    # within one iteration of the loop over the items: the step of the enclosing loop ends the path
    steps = set()
    for lp in f.walk():
        if lp['k'] == 'ForStmt' and lp['c'][2] is not None and any(y['k'] == 'CallExpr' and y.get('callee') == 'setup_global' for y in F.walk(lp)):
            bstep = cfg.block_of(lp['c'][2])
            if bstep is not None:
                steps.add(bstep)
    for b0 in sgb:
        before |= cfg.reachable_from(b0, avoid=lambda b: b in steps)
    # a setup_global call inside the condition that guards the error is the old form (its result is the test): it ran before
    in_guard = any(c.replace(' ', '').startswith('setup_global(') for c, t in conds)
    ok = not in_guard and errs[0] not in before
    run.ob(rule, ('reject-before-record',), ok, {'error reachable after setup_global': not ok})
    if not ok:
        run.violation(rule, f, 'rejected definition recorded', 'the redefinition error is raised after setup_global has replaced the entry of the '
                      'environment table: when the error function returns (longjmp), the next MIR_link binds imports to the rejected '
                      'definition, whose thunk has no interface (crash)', line=f.line)
    # the global table is updated for every exported item: setup_global is called under export_p only
    sg = calls_in(cfg, 'setup_global')
    run.ob(rule, ('setup-global-called',), bool(sg))


# ---------------------------------------------------------------------------------------------
# C14
# ---------------------------------------------------------------------------------------------

def _chain(n):
    out = []
    while n is not None and n['k'] == 'IfStmt':
        out.append((n['c'][0], n['c'][1]))
        n = n['c'][2]
    return out, n


def _expand_locals(e, body):
    """render e with branch-local single assignments (len = …; expr_item = …) substituted"""
    defs = {}
    if body is not None:
        for x in F.walk(body):
            if x['k'] == 'BinaryOperator' and x['op'] == '=' and F.strip(x['c'][0])['k'] == 'DeclRefExpr' and \
                    F.strip(x['c'][0]).get('dk') == 'local':
                defs[F.strip(x['c'][0])['n']] = F.src(F.strip(x['c'][1]))
    s = F.src(F.strip(e))
    for _ in range(3):
        for k, v in defs.items():
            import re
            s = re.sub(r'(?<![A-Za-z0-9_>.])%s(?![A-Za-z0-9_])' % re.escape(k), v, s)
    return s


def rf16f(run):
    rule = 'RF16f'
    run.rule(rule, 'load_bss_data_section: the size pass and the placement pass dispatch on identical item-kind conditions, and for each '
                   'kind the amount added to the section size equals the amount the placement address advances; each placement branch '
                   'records curr_item->addr before advancing; the copy length equals the advance')
    tu = run.tu('mir')
    f = tu.func('load_bss_data_section')
    run.functions_analysed.add(('mir', f.name))
    loops = [n for n in f.walk() if n['k'] == 'ForStmt']
    if len(loops) != 2:
        raise F.AnalysisBroken('load_bss_data_section: expected the size loop and the placement loop, found %d loops' % len(loops))
    c1, e1 = _chain(loops[0]['c'][3] if loops[0]['c'][3]['k'] == 'IfStmt' else F.kids(loops[0]['c'][3])[0])
    c2, e2 = _chain(loops[1]['c'][3] if loops[1]['c'][3]['k'] == 'IfStmt' else F.kids(loops[1]['c'][3])[0])
    ok = len(c1) == len(c2) and len(c1) >= 5
    run.ob(rule, ('branch-count',), ok, {'size pass kinds': len(c1), 'placement pass kinds': len(c2)})
    if not ok:
        run.violation(rule, f, 'item kinds', 'the size pass handles %d item kinds, the placement pass %d' % (len(c1), len(c2)), line=f.line)
        return
    for i, ((k1, b1), (k2, b2)) in enumerate(zip(c1, c2)):
        t1, t2 = F.src(F.strip(k1)), F.src(F.strip(k2))
        same = t1 == t2
        run.ob(rule, ('cond', i), same, {'kind test (size pass)': t1[:90], 'same in placement pass': same})
        if not same:
            run.violation(rule, f, 'kind test %d' % i, 'branch %d of the size pass tests [%s] but the placement pass tests [%s]' % (i, t1, t2),
                          line=k2['l'])
            continue
        inc1 = [x for x in F.walk(b1) if x['k'] == 'CompoundAssignOperator' and x['op'] == '+=' and F.src(F.strip(x['c'][0])) == 'section_size']
        inc2 = [x for x in F.walk(b2) if x['k'] == 'CompoundAssignOperator' and x['op'] == '+=' and F.src(F.strip(x['c'][0])) == 'addr']
        # contiguity: inside the passes the running size / address only grows by the size of the item (X += E or X = X + E)
        moved = False
        for var, body in (('section_size', b1), ('addr', b2)):
            for x in F.walk(body):
                if x['k'] == 'BinaryOperator' and x['op'] == '=' and F.src(F.strip(x['c'][0])) == var:
                    r = F.strip(x['c'][1])
                    if r['k'] == 'BinaryOperator' and r['op'] == '+' and F.src(F.strip(r['c'][0])) == var:
                        continue
                    moved = True
                    run.ob(rule, ('contiguous', i, var), False)
                    run.violation(rule, f, 'placement of kind %d' % i, 'for items with [%s] %s is set to `%s` instead of being advanced by the '
                                  'size of the item: the item is no longer placed at the sum of the sizes of its predecessors (a gap inside '
                                  'the section)' % (t1[:60], var, F.src(r)[:80]), line=x['l'])
        if moved:
            continue
        run.ob(rule, ('contiguous', i), True)
        # X = X + E counts as the increment E
        class _Inc(dict):
            pass
        for var, body, lst in (('section_size', b1, inc1), ('addr', b2, inc2)):
            for x in F.walk(body):
                if x['k'] == 'BinaryOperator' and x['op'] == '=' and F.src(F.strip(x['c'][0])) == var:
                    r = F.strip(x['c'][1])
                    if r['k'] == 'BinaryOperator' and r['op'] == '+' and F.src(F.strip(r['c'][0])) == var:
                        y = _Inc(x)
                        y['c'] = [x['c'][0], r['c'][1]]
                        lst.append(y)
        if len(inc1) != 1 or len(inc2) != 1:
            run.ob(rule, ('size', i), False)
            run.analysis_broken(rule, 'branch %d: size increment / address advance not recognised' % i)
            continue
        s1, s2 = _expand_locals(inc1[0]['c'][1], b1), _expand_locals(inc2[0]['c'][1], b2)
        same = s1 == s2
        run.ob(rule, ('size', i), same, {'kind': t1[:60], 'counted size': s1, 'address advance': s2})
        if not same:
            run.violation(rule, f, 'size of kind %d' % i, 'for items with [%s] the size pass counts %s bytes but the placement pass advances '
                          'by %s: later items of the section overlap or leave a gap' % (t1[:60], s1, s2), line=inc2[0]['l'])
        # curr_item->addr = addr before the advance
        st = F.kids(b2) if b2['k'] == 'CompoundStmt' else [b2]
        order = [F.src(x) for x in st]
        ia = [j for j, x in enumerate(st) if x['k'] == 'BinaryOperator' and x['op'] == '=' and F.src(F.strip(x['c'][0])) == 'curr_item->addr'
              and F.src(F.strip(x['c'][1])) == 'addr']
        ii = [j for j, x in enumerate(st) if x is inc2[0]]
        okk = bool(ia) and bool(ii) and ia[0] < ii[0]
        run.ob(rule, ('addr-recorded', i), okk)
        if not okk:
            run.violation(rule, f, 'curr_item->addr of kind %d' % i, 'the placement branch for [%s] does not record curr_item->addr = addr before '
                          'advancing' % t1[:60], line=b2['l'])
        # the bytes of the item are initialised here (a copy/fill of exactly the advance) or their address is recorded for
        # initialisation at link time (load_addr = addr)
        fills = [x for x in F.walk(b2) if x['k'] == 'CallExpr' and x.get('callee') in ('memset', 'memmove', 'memcpy')]
        deferred = [x for x in F.walk(b2) if x['k'] == 'BinaryOperator' and x['op'] == '=' and F.src(F.strip(x['c'][0])).endswith('->load_addr')
                    and F.src(F.strip(x['c'][1])) == 'addr']
        # an lref cell is written when its function is prepared for execution (gen_setup_lrefs / generate_icode), which does not
        # happen again when the module is loaded a second time and the function already has code: the placement pass must leave it
        if 'MIR_lref_data_item' in t1:
            writes = fills + [x for x in F.walk(b2) if x['k'] == 'BinaryOperator' and x['op'] == '=' and F.strip(x['c'][0])['k'] == 'UnaryOperator'
                              and F.strip(x['c'][0])['op'] == '*']
            run.ob(rule, ('lref-kept', i), not writes, {'kind': t1[:60], 'writes into the cell': [F.src(w)[:50] for w in writes]})
            if writes:
                run.violation(rule, f, 'lref cell overwritten at load', 'the placement branch for lref items executes `%s`: the cell holds the label '
                              'address / difference set when the function was prepared; after a second MIR_load_module of the module nothing '
                              'sets it again for a function that already has machine code, so every label reference reads 0'
                              % F.src(writes[0])[:60], line=writes[0]['l'])
        okinit = bool(fills) or bool(deferred)
        run.ob(rule, ('initialised', i), okinit, {'kind': t1[:60], 'filled by': [F.src(x)[:50] for x in fills],
                                                 'deferred via load_addr': bool(deferred)})
        if not okinit:
            run.violation(rule, f, 'initialisation of kind %d' % i,
                          'the placement branch for [%s] neither fills the item\'s bytes nor records load_addr: when the section memory is '
                          'reused (module loaded again) the item keeps stale contents' % t1[:60], line=b2['l'])
        # copy length equals the advance
        for x in F.walk(b2):
            if x['k'] == 'CallExpr' and x.get('callee') in ('memset', 'memmove', 'memcpy'):
                ln = _expand_locals(F.call_args(x)[2], b2)
                okc = ln == s2 and F.src(F.strip(F.call_args(x)[0])) == 'addr'
                run.ob(rule, ('copy', i), okc, {'copy': F.src(x)[:70], 'length': ln, 'advance': s2})
                if not okc:
                    run.violation(rule, f, 'copy length of kind %d' % i, '%s writes %s bytes at addr but the section advances by %s' %
                                  (x['callee'], ln, s2), line=x['l'])
    # the allocation uses the computed size
    mall = [x for x in f.walk() if x['k'] == 'CallExpr' and x.get('callee') in ('MIR_malloc', 'MIR_calloc')]
    ok = len(mall) == 1 and any(F.src(F.strip(a)) == 'section_size' for a in F.call_args(mall[0])[1:])
    run.ob(rule, ('alloc-size',), ok)
    if not ok:
        run.violation(rule, f, 'section allocation', 'the section is not allocated with the computed section_size', line=f.line)


# ---------------------------------------------------------------------------------------------
# RF24 interned-key discipline of the item table
# ---------------------------------------------------------------------------------------------
INTERNING_CALLS = {'get_ctx_str', '_MIR_uniq_string', 'MIR_item_name', 'read_name'}
# fields that hold context-interned strings (set only from get_ctx_str / an interned argument at item creation)
INTERNED_FIELDS = {'import_id', 'export_id', 'forward_id', 'name', 's'}


def _interned_expr(tu, f, e, depth=0, seen=None):
    """is the expression provably a context-interned string?  returns (bool, reason)"""
    e = F.strip(e)
    k = e['k']
    if k == 'CallExpr' and e.get('callee') in INTERNING_CALLS:
        return True, 'result of %s' % e['callee']
    if k == 'MemberExpr' and e['n'] in INTERNED_FIELDS:
        base = F.strip(e['c'][0])
        if e['n'] == 's':
            # to_str (…).s / get_ctx_string (…).str.s
            if base['k'] == 'CallExpr' and base.get('callee') in ('to_str',):
                return True, 'string table entry'
            if base['k'] == 'MemberExpr' and F.strip(base['c'][0])['k'] == 'CallExpr' and F.strip(base['c'][0]).get('callee') == 'get_ctx_string':
                return True, 'interned string'
            return False, 'field .s of %s' % F.src(base)
        return True, 'item field %s' % e['n']
    if F.const_value(e) == 0 or k == 'GNUNullExpr':
        return True, 'NULL'
    if k == 'CallExpr' and (e.get('callee') or '').startswith('VARR_') and (e['callee'].endswith('get') or e['callee'].endswith('last')
                                                                          or e['callee'].endswith('pop')):
        cont = F.src(F.call_args(e)[0])
        pushes = []
        for g in tu.func_list:
            for c in g.walk():
                if c['k'] == 'CallExpr' and (c.get('callee') or '').startswith('VARR_') and c['callee'].endswith('push') \
                        and F.src(F.call_args(c)[0]) == cont:
                    pushes.append((g, F.call_args(c)[1]))
        if not pushes:
            return False, 'container %s is never filled' % cont
        for g, a in pushes:
            r = _interned_expr(tu, g, a, depth + 1, seen)
            if not r[0]:
                return False, 'container %s receives %s in %s (%s)' % (cont, F.src(a)[:30], g.name, r[1])
        return True, 'element of %s, which only receives interned strings' % cont
    if k == 'ConditionalOperator':
        a, b = _interned_expr(tu, f, e['c'][1], depth, seen), _interned_expr(tu, f, e['c'][2], depth, seen)
        return (a[0] and b[0]), '%s / %s' % (a[1], b[1])
    if k == 'DeclRefExpr' and e.get('dk') in ('local', 'param'):
        seen = seen or set()
        key = (f.name, e['n'])
        if key in seen or depth > 3:
            return True, 'cyclic'
        seen = seen | {key}
        defs = []
        for n in f.walk():
            if n['k'] == 'BinaryOperator' and n['op'] == '=' and F.src(F.strip(n['c'][0])) == e['n']:
                defs.append(n['c'][1])
            if n['k'] == 'DeclStmt':
                for d in n['decls']:
                    if d['n'] == e['n'] and d.get('init') is not None:
                        defs.append(d['init'])
        reasons = []
        ok = True
        if e.get('dk') == 'param':
            # a parameter that is re-assigned from an interning call before use counts through its definitions;
            # otherwise every caller must pass an interned string
            idx = [i for i, p in enumerate(f.params) if p['n'] == e['n']]
            if not defs and idx:
                if not f.static:
                    return False, 'parameter %s of the public function %s is a caller-owned string' % (e['n'], f.name)
                callers = 0
                for g in tu.func_list:
                    for c in g.walk():
                        if c['k'] == 'CallExpr' and c.get('callee') == f.name:
                            callers += 1
                            a = F.call_args(c)
                            if idx[0] < len(a):
                                r = _interned_expr(tu, g, a[idx[0]], depth + 1, seen)
                                if not r[0]:
                                    return False, 'caller %s passes %s (%s)' % (g.name, F.src(a[idx[0]])[:40], r[1])
                if callers == 0:
                    return False, 'parameter %s of an entry point (caller-owned string)' % e['n']
                return True, 'every caller passes an interned string'
        if not defs:
            return False, 'no definition of %s found' % e['n']
        for d in defs:
            r = _interned_expr(tu, f, d, depth + 1, seen)
            if not r[0]:
                return False, '%s = %s (%s)' % (e['n'], F.src(d)[:50], r[1])
            reasons.append(r[1])
        return True, '; '.join(sorted(set(reasons)))
    return False, 'expression %s' % F.src(e)[:50]


def rf24(run):
    rule = 'RF24'
    run.rule(rule, 'the item table is keyed on the identity of context-interned name strings: every name passed to item_tab_find is an '
                   'interned string (result of get_ctx_str/_MIR_uniq_string/MIR_item_name/read_name, a string-table entry, or a name '
                   'field of an item), through local copies and — for parameters — at every caller')
    tu = run.tu('mir')
    n = 0
    for f in tu.func_list:
        for c in f.walk():
            if c['k'] == 'CallExpr' and c.get('callee') == 'item_tab_find':
                n += 1
                arg = F.call_args(c)[1]
                ok, why = _interned_expr(tu, f, arg)
                run.ob(rule, (f.name, c['l']), ok, {'site': '%s:%d %s' % (f.relfile(), c['l'], f.name), 'key': F.src(arg)[:60],
                                                    'interned because' if ok else 'NOT INTERNED': why})
                if not ok:
                    run.violation(rule, f, 'item_tab_find key %s' % F.src(arg)[:40],
                                  '%s looks an item up by %s, which is not a context-interned string (%s); the table compares name '
                                  'pointers, so the look-up misses an existing entry and a second entry shadows or loses the definition'
                                  % (f.name, F.src(arg)[:40], why), line=c['l'])
    return n


# ---------------------------------------------------------------------------------------------
# RF16j: label forwarding pointers (insn->data) used during duplication are scrubbed
# ---------------------------------------------------------------------------------------------

def _is_insn_data_store(tu, x):
    """`<MIR_insn_t expr>->data = v` -> (base text, value node) or None"""
    if x['k'] != 'BinaryOperator' or x['op'] != '=':
        return None
    l = F.strip(x['c'][0])
    if l['k'] != 'MemberExpr' or l['n'] != 'data' or not l.get('arrow'):
        return None
    b = F.strip(l['c'][0])
    bt = tu.type(b['t']).s if 't' in b else ''
    if 'MIR_insn' not in bt and 'MIR_label_t' not in bt:
        return None
    return F.src(b), x['c'][1]


def rf16j(run):
    rule = 'RF16j'
    run.rule(rule, 'mir.c and mir-interp.c use MIR_insn_t.data of the *original* instructions as scratch (label forwarding while copying, code offsets while preparing interpretation). Every '
                   'function that stores a non-null value there either scrubs it itself (a later loop over the same list storing NULL '
                   'under the same test) or records the label, in the same basic block, in a VARR parameter; every caller passes a '
                   'non-null VARR there and, on every path from that call to its exit, hands the same VARR to a drain function whose '
                   'scrub loop (pop; ->data = NULL until empty) lies on every entry-exit path')
    tu = run.tu('mir')
    stores = []  # (func, node, base, value)
    for f in tu.funcs.values():
        if not (f.relfile().endswith('mir.c') or f.relfile().endswith('mir-interp.c')) or f.body is None:
            continue
        for x in f.walk():
            r = _is_insn_data_store(tu, x)
            if r:
                stores.append((f, x, r[0], r[1]))
    setters = [(f, x, b, v) for f, x, b, v in stores if F.const_value(v) != 0]
    scrubs = [(f, x, b) for f, x, b, v in stores if F.const_value(v) == 0]
    if len(setters) < 2:
        raise F.AnalysisBroken('only %d forwarding stores into MIR_insn_t.data found in mir.c (2 confirmed by hand)' % len(setters))
    # drain functions: scrub store whose base was popped from a VARR parameter in the same block, loop on length != 0
    drains = {}
    for f, x, b in scrubs:
        cfg = f.cfg
        blk = cfg.block_of(x)
        if blk is None:
            continue
        B = cfg.blocks[blk]
        pops = [y for e in B.elems for y in cfg.local_walk(e) if y['k'] == 'CallExpr' and (y.get('callee') or '').startswith('VARR_') and (y.get('callee') or '').endswith('pop')]
        arr = None
        for p in pops:
            par = f.parent_of(p)
            while par is not None and par['k'] in ('ImplicitCastExpr', 'ParenExpr', 'CStyleCastExpr'):
                par = f.parent_of(par)
            if par is not None and par['k'] == 'BinaryOperator' and par['op'] == '=' and F.src(F.strip(par['c'][0])) == b:
                a0 = F.strip(F.call_args(p)[0])
                if a0['k'] == 'DeclRefExpr' and a0['n'] in [q['n'] for q in f.params]:
                    arr = a0['n']
        if arr is None:
            continue
        # loop header: a predecessor-dominating block whose condition is length(arr) != 0 with the scrub block on its true edge
        hdr = None
        for H in cfg.blocks.values():
            if H.cond is not None and len(H.succs) == 2 and H.succs[0] == blk:
                c = F.src(F.strip(H.cond))
                if 'length' in c and arr in c and '!= 0' in c:
                    hdr = H
        if hdr is None:
            continue
        # the header lies on every entry-exit path, and the body always returns to the header
        all_paths = cfg.exit not in cfg.reachable_from(cfg.entry, avoid=lambda q: q == hdr.id)
        body_back = cfg.exit not in cfg.reachable_from(blk, avoid=lambda q: q == hdr.id) if blk != hdr.id else True
        ok = all_paths and body_back
        idx = [q['n'] for q in f.params].index(arr)
        run.ob(rule, ('drain', f.name), ok, {'function': f.name, 'array parameter': arr, 'scrub loop on every path': all_paths,
                                             'loop body always returns to the emptiness test': body_back})
        if ok:
            drains[f.name] = idx
        else:
            run.violation(rule, f, 'scrub loop of %s' % arr, '%s can return without emptying %s: the labels recorded there keep a dangling '
                          'forwarding pointer in ->data (later copies of the label inherit it)' % (f.name, arr), line=x['l'])
    run.functions_analysed.update(('mir', n) for n in drains)
    for f, x, b, v in setters:
        run.functions_analysed.add(('mir', f.name))
        cfg = f.cfg
        blk = cfg.block_of(x)
        if blk is None:
            raise F.AnalysisBroken('%s: forwarding store not in the CFG' % f.name)
        B = cfg.blocks[blk]
        # (a) self-scrubbing: a NULL store in the same function under the same dominating conditions, not reachable back to the setter
        own = [s for s in scrubs if s[0] is f]
        if own:
            def guards(b_):
                # the tests inside the loops that enclose b_ (what selects the instructions touched in one walk of the list);
                # tests before the outermost enclosing loop (error exits, earlier walks) select nothing per instruction
                hs = _loop_headers_of(cfg, b_)
                idom_ = cfg.dominators()
                out_ = set()
                for B_ in cfg.blocks.values():
                    if B_.cond is None or len(B_.succs) != 2 or B_.tk == 'SwitchStmt' or B_.id in hs:
                        continue
                    if not any(cfg.dominates(h_, B_.id, idom_) for h_ in hs):
                        continue
                    if not (B_.id == b_ or cfg.dominates(B_.id, b_, idom_)):
                        continue
                    t_, f_ = B_.succs
                    for succ_, truth_ in ((t_, True), (f_, False)):
                        other_ = f_ if truth_ else t_
                        if succ_ is None:
                            continue
                        if (succ_ == b_ or cfg.dominates(succ_, b_, idom_)) and not (other_ is not None and (other_ == b_ or b_ in cfg.reachable_from(other_, avoid=lambda q_: q_ == B_.id or q_ in hs))):
                            out_.add((F.src(F.strip(B_.cond)), truth_))
                return sorted(out_)
            conds = guards(blk)
            ok = False
            for _, sx, sb in own:
                sblk = cfg.block_of(sx)
                sconds = guards(sblk)
                # same guards, scrub loop after the setter loop: exit is reachable from the setter only through the scrub loop's header
                if sconds == conds and sblk != blk and blk not in cfg.reachable_from(sblk):
                    hdrs = _loop_headers_of(cfg, sblk)
                    shdrs = _loop_headers_of(cfg, blk)
                    same_iter = _loop_signature(cfg, hdrs) == _loop_signature(cfg, shdrs)
                    outer = [h for h in hdrs if h not in shdrs]
                    noret = {q for q in cfg.blocks if cfg.blocks[q].noreturn}  # error exits abandon the load
                    through = bool(outer) and cfg.exit not in cfg.reachable_from(blk, avoid=lambda q: q in outer or q in noret)
                    if same_iter and through:
                        ok = True
            run.ob(rule, ('self-scrub', f.name, x['l']), ok, {'function': f.name, 'store': F.src(x), 'scrubbed by a later loop over the same list': ok})
            if not ok:
                run.violation(rule, f, 'forwarding store %s' % F.src(x), '%s stores a forwarding value into %s->data but no later loop over the same '
                              'list under the same test resets it on every path' % (f.name, b), line=x['l'])
            continue
        # (b) recorded in a VARR parameter in the same block
        rec = None
        for e in B.elems:
            for y in cfg.local_walk(e):
                if y['k'] == 'CallExpr' and (y.get('callee') or '').startswith('VARR_') and (y.get('callee') or '').endswith('push'):
                    a = [F.strip(z) for z in F.call_args(y)]
                    if len(a) == 2 and F.src(a[1]) == b and a[0]['k'] == 'DeclRefExpr' and a[0]['n'] in [q['n'] for q in f.params]:
                        rec = a[0]['n']
        run.ob(rule, ('recorded', f.name, x['l']), rec is not None, {'function': f.name, 'store': F.src(x), 'recorded in': rec})
        if rec is None:
            run.violation(rule, f, 'forwarding store %s' % F.src(x), '%s stores a forwarding value into %s->data without unconditionally recording '
                          '%s in a VARR parameter: nothing can reset it afterwards' % (f.name, b, b), line=x['l'])
            continue
        pidx = [q['n'] for q in f.params].index(rec)
        ncall = 0
        for g in tu.funcs.values():
            if g.body is None:
                continue
            for y in g.walk():
                if y['k'] == 'CallExpr' and y.get('callee') == f.name:
                    ncall += 1
                    run.functions_analysed.add(('mir', g.name))
                    arg = F.strip(F.call_args(y)[pidx])
                    atxt = F.src(arg)
                    gcfg = g.cfg
                    cb = gcfg.block_of(y)
                    nonnull = F.const_value(arg) != 0
                    dblocks = set()
                    for dn, di in drains.items():
                        dblocks |= rf_flow.blocks_with(gcfg, lambda z: z['k'] == 'CallExpr' and z.get('callee') == dn
                                                       and F.src(F.strip(F.call_args(z)[di])) == atxt)
                    ok = nonnull and cb is not None and bool(dblocks) and cb not in dblocks and must_pass_between(gcfg, cb, dblocks, [gcfg.exit])
                    run.ob(rule, ('caller', g.name, y['l']), ok, {'caller': g.name, 'line': y['l'], 'array': atxt, 'non-null': nonnull,
                                                                  'drained on every path to the exit': ok})
                    if not ok:
                        run.violation(rule, g, 'call of %s at line %d' % (f.name, y['l']),
                                      '%s passes %s to %s but %s' % (g.name, atxt, f.name,
                                                                    'that is a null array: the labels are not recorded' if not nonnull else
                                                                    'some path to its exit does not hand that array to %s: original labels keep '
                                                                    'pointing at their copies' % '/'.join(sorted(drains) or ['a drain function'])), line=y['l'])
        if ncall < 2:
            raise F.AnalysisBroken('only %d callers of %s found (3 confirmed by hand)' % (ncall, f.name))
    run.min_instances(rule, 6)


def _loop_headers_of(cfg, blk):
    """ids of condition blocks that blk can reach and that can reach blk (loop headers around blk)"""
    out = []
    idom = cfg.dominators()
    for H in cfg.blocks.values():
        if H.cond is not None and len(H.succs) == 2 and H.id != blk:
            # a real loop header: the target of a back edge
            if not any(cfg.dominates(H.id, q, idom) for q in (H.preds or []) if q != H.id):
                continue
            if cfg.dominates(H.id, blk, idom) and H.id in cfg.reachable_from(blk):
                out.append(H.id)
    return out


def _loop_signature(cfg, hdrs):
    return sorted(F.src(F.strip(cfg.blocks[h].cond)) for h in hdrs)


# ---------------------------------------------------------------------------------------------
# RF16k: nothing writes the function's instructions before the generator has taken its working copy
# ---------------------------------------------------------------------------------------------

def _insn_stores(tu, f):
    """stores whose destination is reached through an expression of type MIR_insn_t / MIR_op_t* of an instruction"""
    out = []
    for x in f.walk():
        if x['k'] in ('BinaryOperator', 'CompoundAssignOperator') and x.get('op') in ('=', '+=', '-=', '|=', '&=') or \
                x['k'] == 'UnaryOperator' and x.get('op') in ('++', '--'):
            l = F.strip(x['c'][0])
            node = l
            hit = False
            while node is not None and node['k'] in ('MemberExpr', 'ArraySubscriptExpr', 'UnaryOperator', 'ImplicitCastExpr', 'CStyleCastExpr', 'ParenExpr'):
                kids_ = F.kids(node)
                if not kids_:
                    break
                base = F.strip(kids_[0])
                bt = tu.type(base)
                if node['k'] == 'MemberExpr' and bt is not None and ('MIR_insn_t' in bt.s or 'struct MIR_insn' in bt.s):
                    hit = True
                    break
                node = base
            if hit:
                out.append(x)
    return out


def rf16k(run):
    rule = 'RF16k'
    run.rule(rule, 'generate_func_code: on every path from its entry to _MIR_duplicate_func_insns no field of an instruction '
                   '(MIR_insn_t: code, ops, data, nops) is written, neither in the function itself nor in a function of mir-gen.c it calls '
                   'on the way (two call levels): everything the generator changes must change the working copy, which is discarded at '
                   'the restore')
    tu = run.tu('gen')
    f = tu.func('generate_func_code')
    run.functions_analysed.add(('gen', f.name))
    cfg = f.cfg
    D = calls_in(cfg, '_MIR_duplicate_func_insns')
    if len(D) != 1:
        raise F.AnalysisBroken('generate_func_code: expected one call of _MIR_duplicate_func_insns')
    d = next(iter(D))
    before = cfg.reachable_from(cfg.entry, avoid=lambda b: b == d) | {d}
    own = _insn_stores(tu, f)
    bad = []
    nchecked = 0
    for x in own:
        b = cfg.block_of(x)
        if b is None or b not in before:
            continue
        if b == d:
            B = cfg.blocks[d]
            pos_call = min(i for i, e in enumerate(B.elems) if any(y['k'] == 'CallExpr' and y.get('callee') == '_MIR_duplicate_func_insns' for y in F.walk(e)))
            pos_store = min((i for i, e in enumerate(B.elems) if any(y is x for y in F.walk(e))), default=pos_call + 1)
            if pos_store > pos_call:
                continue
        bad.append((f, x))
    # callees on the way
    seen = set()

    def callee_stores(g, depth):
        res = []
        if g.name in seen or depth > 2:
            return res
        seen.add(g.name)
        for x in _insn_stores(tu, g):
            res.append((g, x))
        for y in g.walk():
            if y['k'] == 'CallExpr' and y.get('callee') in tu.funcs and tu.funcs[y['callee']].body is not None:
                res += callee_stores(tu.funcs[y['callee']], depth + 1)
        return res
    for b in before:
        B = cfg.blocks[b]
        for i, e in enumerate(B.elems):
            for y in cfg.local_walk(e):
                if y['k'] == 'CallExpr' and y.get('callee') in tu.funcs and y['callee'] != '_MIR_duplicate_func_insns' \
                        and tu.funcs[y['callee']].body is not None and tu.funcs[y['callee']].relfile().startswith('mir-gen'):
                    if b == d:
                        pos_call = min(j for j, e2 in enumerate(B.elems) if any(z['k'] == 'CallExpr' and z.get('callee') == '_MIR_duplicate_func_insns' for z in F.walk(e2)))
                        if i > pos_call:
                            continue
                    nchecked += 1
                    bad += callee_stores(tu.funcs[y['callee']], 1)
    ok = not bad
    run.ob(rule, ('pre-duplication',), ok, {'blocks before the duplication': len(before), 'generator functions called on the way': nchecked,
                                           'instruction stores found': [('%s:%d' % (g.name, x['l'])) for g, x in bad][:5]})
    for g, x in bad[:3]:
        run.violation(rule, g, 'store %s before the working copy exists' % F.src(x)[:60],
                      '%s writes %s while generate_func_code has not yet duplicated the function\'s instructions: the change lands in the '
                      'original MIR, which printing, interpretation, inlining and a later generation see' % (g.name, F.src(F.strip(x['c'][0]))[:60]),
                      line=x['l'])
    run.min_instances(rule, 1)


# ---------------------------------------------------------------------------------------------
# RF16l: add_item — a name declared `export` ends up with an exported definition whatever the declaration order
# ---------------------------------------------------------------------------------------------

def rf16l(run):
    import itertools
    import rf_callmode as CM
    from lib import regions as R
    rule = 'RF16l'
    run.rule(rule, 'add_item as a transition system over the kinds {export, forward, definition}: its switch is evaluated for every '
                   '(kind in the module table, kind of the new item) pair into (which item represents the name afterwards, whether the '
                   'definition gets export_p); composing the transitions over every order of export / forward / definition of one name, '
                   'the definition is marked exported whenever the name was declared export (MIR_load_module publishes only items '
                   'with export_p)')
    tu = run.tu('mir')
    f = tu.func('add_item')
    run.functions_analysed.add(('mir', f.name))
    sws = R.find_switches(f, lambda c: 'tab_item->item_type' in c)
    if not sws:
        raise F.AnalysisBroken('add_item: switch on tab_item->item_type not found')
    regs = R.switch_regions(f, sws[0])
    kinds = dict(tu.enum('MIR_item_type_t'))
    EXP, FWD, DEF = kinds['MIR_export_item'], kinds['MIR_forward_item'], kinds['MIR_func_item']

    class Ev(CM.RetEval):
        def __init__(self, ev):
            super().__init__(ev)
            self.calls = []

        def run(self, stmt, env):
            if stmt is not None and stmt['k'] == 'BinaryOperator' and stmt['op'] == '=' and F.src(F.strip(stmt['c'][0])) == 'item' \
                    and F.src(F.strip(stmt['c'][1])) == 'tab_item':
                env['__item_is_tab__'] = 1
                env['item->item_type'] = env.get('tab_item->item_type')
                return True
            if stmt is not None and stmt['k'] == 'BinaryOperator' and stmt['op'] == '=' and F.strip(stmt['c'][1])['k'] == 'CallExpr' \
                    and F.strip(stmt['c'][1]).get('callee') == 'item_tab_insert':
                self.calls.append('item_tab_insert')
                return True
            if stmt is not None and stmt['k'] == 'CallExpr':
                self.calls.append(stmt.get('callee'))
                from lib import absint as AI
                if AI.is_error_call(stmt) is not None:
                    env['__error__'] = 1
                    return False
                return True
            if stmt is not None and stmt['k'] == 'BreakStmt':
                return False
            return super().run(stmt, env)

    def transition(T, N, tab_exported):
        reg = None
        for r in regs:
            if any(lo is not None and lo <= T <= (hi if hi is not None else lo) for nm, lo, hi in r['cases']):
                reg = r
        if reg is None:
            raise F.AnalysisBroken('add_item: no case for table kind %d' % T)
        ev = CM.TextEnv(tu)
        env = {'tab_item->item_type': T, 'item->item_type': N, 'tab_item->export_p': tab_exported, 'item->export_p': 0}
        e = Ev(ev)
        for st in reg['stmts']:
            if not e.run(st, env):
                break
        replaced = 'item_tab_insert' in e.calls
        return {'error': bool(env.get('__error__')), 'replaced': replaced, 'new_export_p': env.get('item->export_p'),
                'tab_export_p': env.get('tab_item->export_p'), 'item_is_tab': bool(env.get('__item_is_tab__'))}
    names = {EXP: 'export', FWD: 'forward', DEF: 'definition'}
    n = 0
    for seq in [p for k in (2, 3) for p in itertools.permutations([EXP, FWD, DEF], k) if EXP in p and DEF in p]:
        table, table_exp, def_exp, err = None, 0, None, False
        trace = []
        for N in seq:
            if table is None:
                table, table_exp = N, 0
                if N == DEF:
                    def_exp = 0
                trace.append('%s: first declaration' % names[N])
                continue
            t = transition(table, N, table_exp)
            trace.append('%s on %s: %s' % (names[N], names[table], {k_: v_ for k_, v_ in t.items() if v_}))
            if t['error']:
                err = True
                break
            if None in (t['new_export_p'], t['tab_export_p']):
                raise F.AnalysisBroken('add_item: export flag not evaluable for %s on %s' % (names[N], names[table]))
            if N == DEF:
                def_exp = t['new_export_p']
            if table == DEF:
                def_exp = t['tab_export_p']
                table_exp = t['tab_export_p']
            if t['replaced']:
                table = N
                table_exp = t['new_export_p'] if N == DEF else 0
        ok = (not err) and def_exp == 1
        n += 1
        run.ob(rule, tuple(names[k_] for k_ in seq), ok, {'declaration order': [names[k_] for k_ in seq], 'definition exported': def_exp, 'trace': trace})
        if not ok:
            run.violation(rule, f, 'declaration order %s' % ', '.join(names[k_] for k_ in seq),
                          'after `%s` of one name add_item leaves the definition %s: MIR_load_module publishes only items with export_p, so '
                          'importers in other modules do not bind to this definition (%s)'
                          % ('; '.join(names[k_] for k_ in seq), 'rejected with an error' if err else 'without export_p', ' | '.join(trace)), line=f.line)
    run.min_instances(rule, 6)


# ---------------------------------------------------------------------------------------------
# RF66: the generator writes only engine-private fields of the program's descriptors
# ---------------------------------------------------------------------------------------------
GEN_PRIVATE_FIELDS = {
    # field: why the generator may store into it
    'data': 'MIR_item_t.data: per-engine scratch pointer (the function CFG / stub table)',
    'call_addr': 'MIR_func.call_addr: address called by other generated code',
    'machine_code': 'MIR_func.machine_code: address of the generated code',
}
PROGRAM_STRUCTS = ('MIR_func', 'MIR_var', 'MIR_proto', 'MIR_item', 'MIR_module', 'MIR_data', 'MIR_ref_data', 'MIR_lref_data',
                   'MIR_expr_data', 'MIR_bss')


def rf66(run):
    import re
    rule = 'RF66'
    run.rule(rule, 'code generation leaves the program descriptors alone: in mir-gen.c and the target file every store whose destination is a '
                   'field of a function, variable (func->vars element), prototype, item, module or data descriptor writes one of the '
                   'engine-private fields {data, call_addr, machine_code}; parameter / variable descriptions (type, name, size), result '
                   'types, counts and flags are what MIR_output, the interpreter and the inliner read after generation and are not '
                   'covered by _MIR_restore_func_insns')
    tu = run.tu('gen')
    PS = re.compile(r'\b(struct )?(%s)(_t)?\b' % '|'.join(PROGRAM_STRUCTS))
    n = 0
    for f in tu.func_list:
        if not (f.file.endswith('mir-gen.c') or re.search(r'mir-gen-\w+\.c$', f.file)):
            continue
        for x in f.walk():
            l = None
            if x['k'] in ('BinaryOperator', 'CompoundAssignOperator') and x['op'].endswith('=') and x['op'] not in ('==', '!=', '<=', '>='):
                l = F.strip(x['c'][0])
            elif x['k'] == 'UnaryOperator' and x['op'] in ('++', '--'):
                l = F.strip(x['c'][0])
            if l is None:
                continue
            # the object written: follow `.field` and `[i]` inward (same object); an `->field` writes into the pointee of its base;
            # a leading `*p` writes into the pointee of p.  Pointers read on the way (a->b in a->b->c) are not destinations.
            e = l
            hit = None
            first_field = None
            while True:
                if e['k'] == 'ParenExpr' or e['k'] in F.CASTS:
                    e = e['c'][0]
                    continue
                if e['k'] == 'MemberExpr':
                    bt = tu.type(F.strip(e['c'][0]))
                    s_ = bt.s if bt else ''
                    if e.get('arrow'):
                        if PS.search(s_) and 'MIR_insn' not in s_:
                            hit = (e['n'], s_)
                        break
                    # `.field` of a struct value: the same object as its base; a local copy (MIR_var_t var; var.size = …) is not
                    # part of the program
                    if PS.search(s_) and 'MIR_insn' not in s_ and first_field is None:
                        first_field = e['n']
                    e = e['c'][0]
                    continue
                if e['k'] == 'ArraySubscriptExpr':
                    bt = tu.type(F.strip(e['c'][0]))
                    if bt is not None and bt.kind == 'array':
                        e = e['c'][0]
                        continue
                    # element of a pointed-to array: the pointee type decides
                    pt = tu.type(bt.pointee) if bt is not None and bt.kind == 'ptr' and bt.pointee is not None else None
                    if pt is not None and pt.kind not in ('ptr',) and PS.search(bt.s) and 'MIR_insn' not in bt.s:
                        hit = (first_field or '[]', bt.s)
                    break
                if e['k'] == 'UnaryOperator' and e['op'] == '*':
                    bt = tu.type(F.strip(e['c'][0]))
                    pt = tu.type(bt.pointee) if bt is not None and bt.kind == 'ptr' and bt.pointee is not None else None
                    # `*out = item` through a MIR_item_t * out-parameter stores a pointer variable, not a descriptor
                    if pt is not None and pt.kind not in ('ptr',) and PS.search(bt.s) and 'MIR_insn' not in bt.s:
                        hit = (first_field or '*', bt.s)
                    break
                break
            if hit is None:
                continue
            run.functions_analysed.add(('gen', f.name))
            n += 1
            ok = hit[0] in GEN_PRIVATE_FIELDS
            run.ob(rule, (f.name, x['l']), ok, {'site': '%s:%d %s' % (f.relfile(), x['l'], f.name), 'store': F.src(l)[:60], 'descriptor': hit[1],
                                               'field': hit[0], 'why allowed': GEN_PRIVATE_FIELDS.get(hit[0])})
            if not ok:
                run.violation(rule, f, 'store into %s of %s' % (hit[0], hit[1]), 'the generator stores into `%s` (field %s of %s): this is part of '
                              'the MIR program as seen through the API and is not restored after generation, so the function prints / is '
                              'interpreted / is inlined differently afterwards' % (F.src(l)[:70], hit[0], hit[1]), line=x['l'])
    return n


# ---------------------------------------------------------------------------------------------
# RF76: the per-function lref list is rebuilt from empty on every load
# ---------------------------------------------------------------------------------------------

def rf76(run):
    rule = 'RF76'
    run.rule(rule, 'link_module_lrefs threads the lref data items of a module on func->first_lref with `node->next = head; head = node`.  '
                   'MIR_load_module may be called again for the same module (the same nodes): the head of every function of the module '
                   'is reset to NULL before the first push, otherwise the second load links a node to itself (cyclic list, MIR_link '
                   'never terminates)')
    tu = run.tu('mir')
    f = tu.func('link_module_lrefs')
    run.functions_analysed.add(('mir', f.name))
    pushes = [x for x in f.walk() if x['k'] == 'BinaryOperator' and x['op'] == '=' and F.src(F.strip(x['c'][0])).endswith('->first_lref')
              and F.const_value(F.strip(x['c'][1])) is None]
    resets = [x for x in f.walk() if x['k'] == 'BinaryOperator' and x['op'] == '=' and F.src(F.strip(x['c'][0])).endswith('->first_lref')
              and F.const_value(F.strip(x['c'][1])) == 0]
    if not pushes:
        raise F.AnalysisBroken('link_module_lrefs: push on first_lref not found')
    loops = [l for l in f.walk() if l['k'] == 'ForStmt']
    def loop_of(x):
        ls = [l for l in loops if any(y is x for y in F.walk(l))]
        return ls[0] if ls else None   # outermost
    ok = False
    for r in resets:
        lr, lp = loop_of(r), loop_of(pushes[0])
        if lr is not None and lp is not None and lr is not lp and lr['l'] < lp['l'] and 'items' in F.src(lr['c'][0] if lr['c'][0] is not None else lr):
            ok = True
    run.ob(rule, ('reset',), ok, {'pushes at': [p['l'] for p in pushes], 'resets at': [r['l'] for r in resets]})
    if not ok:
        run.violation(rule, f, 'lref list not reset', 'link_module_lrefs pushes the lref nodes on func->first_lref without first clearing the '
                      'heads of the module\'s functions in an earlier pass over the items: loading the module again pushes the same nodes '
                      'a second time and the list becomes cyclic', line=pushes[0]['l'])
    return 1


# ---------------------------------------------------------------------------------------------
# RF79: an exported data section is published under the name and address of its head item
# ---------------------------------------------------------------------------------------------

def rf79(run):
    rule = 'RF79'
    run.rule(rule, 'MIR_load_module: load_bss_data_section returns the last item of a section and the loop variable is advanced to it.  The '
                   'export test, the name, the address and the definition handed to setup_global all refer to the section head - a variable '
                   'initialised from the loop variable at the top of the iteration and never assigned again - not to the advanced loop '
                   'variable (an exported data item with anonymous continuation items must be published under its own name at its own '
                   'address)')
    tu = run.tu('mir')
    f = tu.func('MIR_load_module')
    run.functions_analysed.add(('mir', f.name))
    loops = [l for l in f.walk() if l['k'] == 'ForStmt' and any(y['k'] == 'CallExpr' and y.get('callee') == 'setup_global' for y in F.walk(l))]
    if len(loops) != 1:
        raise F.AnalysisBroken('MIR_load_module: the item loop with the setup_global call was not found')
    loop = loops[0]
    body = loop['c'][3]
    # the loop variable and its reassignments in the body
    init = loop['c'][0]
    lv = None
    for x in F.walk(init):
        if x['k'] == 'DeclStmt':
            lv = x['decls'][0]['n']
    if lv is None:
        raise F.AnalysisBroken('MIR_load_module: loop variable not found')
    reassigned = [x for x in F.walk(body) if x['k'] == 'BinaryOperator' and x['op'] == '=' and F.src(F.strip(x['c'][0])) == lv]
    heads = []
    for st in F.kids(body):
        if st['k'] == 'DeclStmt':
            for d in st['decls']:
                if d.get('init') is not None and F.src(F.strip(d['init'])) == lv and (not reassigned or st['l'] < min(r['l'] for r in reassigned)):
                    if not any(x['k'] == 'BinaryOperator' and x['op'] == '=' and F.src(F.strip(x['c'][0])) == d['n'] for x in F.walk(body)):
                        heads.append(d['n'])
    call = [y for y in F.walk(body) if y['k'] == 'CallExpr' and y.get('callee') == 'setup_global'][0]
    a = F.call_args(call)
    guard = None
    cur = call['i']
    while cur is not None:
        p_ = f.parent.get(cur)
        if p_ is None:
            break
        pn = f.nodes[p_]
        if pn['k'] == 'IfStmt' and 'export_p' in F.src(pn['c'][0]):
            guard = pn
            break
        cur = p_
    if guard is None:
        raise F.AnalysisBroken('MIR_load_module: the export_p test around setup_global was not found')

    def base_of(e):
        e = F.strip(e)
        while e['k'] in ('MemberExpr',):
            e = F.strip(e['c'][0])
        if e['k'] == 'CallExpr' and e.get('callee') == 'MIR_item_name':
            return base_of(F.call_args(e)[1])
        return F.src(e)
    uses = [('export test', base_of(guard['c'][0])), ('name', base_of(a[1])), ('address', base_of(a[2])), ('definition', base_of(a[3]))]
    n = 0
    for what, b in uses:
        n += 1
        ok = (b in heads) or (not reassigned and b == lv)
        run.ob(rule, (what,), ok, {'published %s taken from' % what: b, 'section head variable': heads, 'loop variable reassigned at': [r['l'] for r in reassigned]})
        if not ok:
            run.violation(rule, f, 'published %s' % what, 'the %s given to the global table comes from `%s`, which after `%s = load_bss_data_section (…)` '
                          'is the last item of the section: an exported data item followed by anonymous items is %s' %
                          (what, b, lv, 'not registered at all (the last item has no name and no export flag)' if what in ('export test', 'name', 'definition')
                           else 'published at the address of its last continuation item'), line=call['l'])
    return n


# ---------------------------------------------------------------------------------------------
# RF102: no register is handed out before its name has been checked against the declared names
# ---------------------------------------------------------------------------------------------

def rf102(run):
    rule = 'RF102'
    run.rule(rule, 'create_func_reg: the look-up of the new name in the table of declared names (HTAB_FIND on name2rdn_tab, raising '
                   'MIR_repeated_decl_error) dominates every return of the function, including the early return that hands out the '
                   'existing register of another global tied to the same hard register')
    tu = run.tu('mir')
    f = tu.func('create_func_reg')
    run.functions_analysed.add(('mir', f.name))
    cfg = f.cfg
    idom = cfg.dominators()
    finds = [x for x in f.walk() if x['k'] == 'CallExpr' and (x.get('callee') or '').startswith('HTAB_') and 'name2rdn_tab' in F.src(x) and 'HTAB_FIND' in F.src(x)]
    if not finds:
        raise F.AnalysisBroken('create_func_reg: look-up in name2rdn_tab not found')
    fb = cfg.block_of(finds[0])
    n = 0
    for bid, ret in rf_flow.return_blocks(f).items():
        n += 1
        ok = bid == fb or cfg.dominates(fb, bid, idom)
        run.ob(rule, (ret['l'],), ok, {'return at line': ret['l'], 'name checked before': ok})
        if not ok:
            run.violation(rule, f, 'register returned before the name check', 'create_func_reg returns at line %d on a path that has not looked the '
                          'name up in name2rdn_tab: `global T:x:hr` with x already declared (argument, local or another global) is accepted and '
                          'bound to another register instead of raising MIR_repeated_decl_error' % ret['l'], line=ret['l'])
    return n


# ---------------------------------------------------------------------------------------------
# RF107: generator state that outlives a function is reset for every function
# ---------------------------------------------------------------------------------------------

RF107_TABLE = [
    # (function, bitmap) pairs confirmed on the reference tree: the bitmap lives in the generator context from MIR_gen_init to
    # MIR_gen_finish, is filled while one function is generated and read by later passes of the same generation
    ('build_func_cfg', 'gen_ctx->tied_regs'),
    ('build_func_cfg', 'gen_ctx->addr_regs'),
    ('transform_addrs', 'gen_ctx->addr_regs'),
    ('shrink_live_ranges', 'gen_ctx->lr_ctx->points_with_born_vars'),
    ('shrink_live_ranges', 'gen_ctx->lr_ctx->points_with_dead_vars'),
    ('process_bb_ranges', 'gen_ctx->lr_ctx->referenced_vars'),
    ('process_bb_ranges', 'gen_ctx->lr_ctx->live_vars'),
    ('process_bb_conflicts', 'gen_ctx->lr_ctx->live_vars'),
    ('build_conflict_matrix', 'gen_ctx->coalesce_ctx->conflict_matrix'),
    ('assign', 'gen_ctx->func_used_hard_regs'),
]


def rf107(run):
    rule = 'RF107'
    run.rule(rule, 'mir-gen.c: a bitmap of the generator context that collects facts about the function being generated (tied registers, '
                   'address registers, live-range point sets, the conflict matrix, used hard registers) is cleared on *every* path through '
                   'the function that starts collecting it — directly or by a helper that clears it on all of its paths.  A reset that '
                   'a path skips (e.g. "nothing to collect for this function") leaves the facts of the function generated before, so '
                   'the result depends on the order in which functions are generated')
    tu = run.tu('gen')
    memo = {}

    def always_clears(g, b, depth=0):
        k = (g.name, b)
        if k in memo:
            return memo[k]
        memo[k] = False
        if g.cfg_raw is None:
            return False
        cfg = g.cfg
        blocks = set()
        for x in g.walk():
            if x['k'] != 'CallExpr':
                continue
            c = x.get('callee')
            if c == 'bitmap_clear' and F.src(F.strip(F.call_args(x)[0])) == b:
                blocks.add(cfg.block_of(x))
            elif depth < 2 and c in tu.funcs and tu.funcs[c].body is not None and c != g.name and any(y['k'] == 'MemberExpr' and y['n'] == b.split('->')[-1] for y in tu.funcs[c].walk()) \
                    and always_clears(tu.funcs[c], b, depth + 1):
                blocks.add(cfg.block_of(x))
        blocks.discard(None)
        seen = cfg.reachable_from(cfg.entry, avoid=lambda bl: bl in blocks)
        memo[k] = cfg.exit not in seen
        return memo[k]
    n = 0
    for fn, b in RF107_TABLE:
        g = tu.funcs.get(fn)
        if g is None or g.body is None:
            raise F.AnalysisBroken('RF107: function %s not found' % fn)
        run.functions_analysed.add(('gen', fn))
        ok = always_clears(g, b)
        n += 1
        run.ob(rule, (fn, b), ok, {'function': fn, 'state': b, 'cleared on every path': ok})
        if not ok:
            run.violation(rule, g, 'stale %s' % b.split('->')[-1], 'a path through %s does not clear `%s`: what the generation of the previous function '
                          'left in it is read by the passes that follow (e.g. a register of a function without tied globals is taken for a '
                          'tied one), so generating the same functions in another order gives another result' % (fn, b), line=g.line)
    return n


# ---------------------------------------------------------------------------------------------
# RF108: a reference operand stays on the import item
# ---------------------------------------------------------------------------------------------

def rf108(run):
    from lib import printexec as PE
    rule = 'RF108'
    run.rule(rule, 'simplify_op (run once, when a module is loaded): the loop that replaces a reference operand by the item it stands for '
                   'follows ref_def only through export and forward items of the same module.  Its stop condition, evaluated for every '
                   'item kind, is true for an import item: the operand keeps denoting the import, whose address MIR_link rebinds at every '
                   'link step; an operand rewritten to the definition found at the first link never sees a later definition')
    tu = run.tu('mir')
    f = tu.func('simplify_op')
    run.functions_analysed.add(('mir', f.name))
    loops = [x for x in f.walk() if x['k'] == 'ForStmt' and 'ref_def' in F.src(x['c'][2] if len(x['c']) > 2 and x['c'][2] is not None else x)]
    loops = [x for x in f.walk() if x['k'] == 'ForStmt' and any(y['k'] == 'MemberExpr' and y['n'] == 'ref_def' for y in F.walk(x))]
    if not loops:
        raise F.AnalysisBroken('simplify_op: the loop over ref_def was not found')
    kinds = dict(tu.enum_by_member('MIR_import_item')[1])
    n = 0
    for lp in loops:
        ifs = [x for x in F.walk(lp) if x['k'] == 'IfStmt' and 'item_type' in F.src(x['c'][0])]
        if not ifs:
            raise F.AnalysisBroken('simplify_op: the stop condition of the ref_def loop was not found')
        cond = ifs[0]['c'][0]
        var = None
        for y in F.walk(cond):
            if y['k'] == 'MemberExpr' and y['n'] == 'item_type':
                var = F.src(y).replace(' ', '')
        for kn, kv in sorted(kinds.items(), key=lambda t: t[1]):
            ex = PE.PrintExec(tu, {}, {}, {})
            try:
                v = ex.val(cond, {var: kv})
            except F.AnalysisBroken:
                v = None
            if v is None:
                raise F.AnalysisBroken('simplify_op: stop condition `%s` not evaluable for %s' % (F.src(cond)[:60], kn))
            want = kn not in ('MIR_export_item', 'MIR_forward_item')
            n += 1
            ok = bool(v) == want
            run.ob(rule, (lp['l'], kn), ok, {'item kind': kn, 'loop stops here': bool(v)})
            if not ok:
                run.violation(rule, f, 'reference operand through %s' % kn, 'the loop at line %d %s at an item of kind %s: %s' %
                              (lp['l'], 'does not stop' if want else 'stops', kn,
                               'a reference to an import is rewritten to the definition bound at the first link and no later MIR_link can rebind it'
                               if kn == 'MIR_import_item' else 'the operand denotes a declaration instead of the definition'), line=ifs[0]['l'])
    return n


# ---------------------------------------------------------------------------------------------
# RF117: two declarations of one name are connected when the second one is added
# ---------------------------------------------------------------------------------------------

def rf117(run):
    from lib import printexec as PE
    rule = 'RF117'
    run.rule(rule, 'add_item, executed abstractly for an export / forward item added while an export / forward of the same name is in the '
                   'module table: afterwards either the new item is the old one (same kind), or one of the two refers to the other through '
                   'ref_def (forward → export, or the export replacing the forward in the table).  A second declaration left without '
                   'ref_def is a dead end for everything that works on a module before it is linked (mir2c prints no declaration of the '
                   'function, the inliner does not find the callee)')
    tu = run.tu('mir')
    f = tu.func('add_item')
    run.functions_analysed.add(('mir', f.name))
    kinds = dict(tu.enum_by_member('MIR_export_item')[1])
    n = 0
    for tk in ('MIR_export_item', 'MIR_forward_item'):
        for ik in ('MIR_export_item', 'MIR_forward_item'):
            env = {'item': 2, 'item->item_type': kinds[ik], 'item->module': 9, 'item->ref_def': 0, 'tab_item->ref_def': 0, 'curr_module': 9}
            acc = {'item_tab_find': lambda a, e, x: (e.__setitem__('tab_item->item_type', kinds[tk]) or 1),
                   'MIR_item_name': lambda a, e, x: 'X', 'item_tab_remove': lambda a, e, x: 1,
                   'item_tab_insert': lambda a, e, x: x.val(a[1], e)}
            ex = PE.PrintExec(tu, {}, acc, {})
            ex.retval = 'none'
            try:
                r = ex.run(f.body, env)
            except F.AnalysisBroken as e_:
                raise F.AnalysisBroken('add_item not executable for %s after %s: %s' % (ik, tk, e_))
            ret = getattr(ex, 'retval', None)
            same = env.get('item') == 1 or ret == 1
            linked = env.get('tab_item->ref_def') == 2 or env.get('item->ref_def') == 1
            ok = same or linked
            n += 1
            run.ob(rule, (tk, ik), ok, {'in the table': tk, 'added': ik, 'same item returned': bool(same), 'tab_item->ref_def': env.get('tab_item->ref_def'),
                                        'item->ref_def': env.get('item->ref_def')})
            if not ok:
                run.violation(rule, f, '%s after %s' % (ik[4:-5], tk[4:-5]), 'a %s item added after a %s item of the same name is appended to the module '
                              'with ref_def == NULL and the %s does not refer to it either: until MIR_link runs nothing leads from it to the '
                              'definition (mir2c prints no declaration for a function used through it)' % (ik[4:-5], tk[4:-5], tk[4:-5]), line=f.line)
    return n


# ---------------------------------------------------------------------------------------------
# RF120: a growth loop grows the vector whose length it tests
# ---------------------------------------------------------------------------------------------

def rf120(run, units=('gen', 'mir')):
    rule = 'RF120'
    run.rule(rule, 'vectors that live as long as the context are grown on demand by `while (VARR_LENGTH (W) <= bound) VARR_PUSH (W, …)`.  A second '
                   'vector pushed in the same loop only under a condition (e.g. "when optimising") ends up shorter than W; a later '
                   'activation that finds W long enough skips the loop and indexes the second vector beyond its length.  Every vector '
                   'pushed conditionally inside such a loop is the one whose length the loop tests')
    n = 0
    for u in units:
        tu = run.tu(u)
        for g in tu.func_list:
            if not g.file.startswith('/repo') or g.body is None:
                continue
            for w in g.walk():
                if w['k'] != 'WhileStmt' or w['c'][0] is None:
                    continue
                cond = F.strip(w['c'][0])
                if not (cond['k'] == 'BinaryOperator' and cond['op'] in ('<=', '<', '>', '>=')):
                    continue
                lens = [F.src(F.strip(F.call_args(y)[0])) for y in F.walk(cond)
                        if y['k'] == 'CallExpr' and (y.get('callee') or '').startswith('VARR_') and (y.get('callee') or '').endswith('length')]
                if len(lens) != 1:
                    continue
                pushes = [y for y in F.walk(w['c'][1]) if y['k'] == 'CallExpr' and (y.get('callee') or '').startswith('VARR_')
                          and (y.get('callee') or '').endswith('push')]
                if not any(F.src(F.strip(F.call_args(y)[0])) == lens[0] for y in pushes):
                    continue          # not a growth loop of W
                n += 1
                run.functions_analysed.add((u, g.name))
                bad = []
                for y in pushes:
                    v = F.src(F.strip(F.call_args(y)[0]))
                    if v == lens[0]:
                        continue
                    # conditional inside the loop body?
                    x = y
                    cond_p = False
                    while x is not None and x is not w:
                        p_ = g.parent_of(x)
                        if p_ is not None and p_['k'] in ('IfStmt', 'ConditionalOperator') and p_ is not w:
                            cond_p = True
                        x = p_
                    if cond_p:
                        bad.append((v, y))
                run.ob(rule, (g.name, w['l']), not bad, {'site': '%s:%d %s' % (g.relfile(), w['l'], g.name), 'tested': lens[0],
                                                         'pushed': sorted({F.src(F.strip(F.call_args(y)[0])) for y in pushes})} if n % 4 == 1 or bad else None)
                for v, y in bad:
                    run.violation(rule, g, 'conditional growth of %s' % v.split('->')[-1], 'the loop at line %d grows `%s` until it reaches the bound, '
                                  'but pushes to `%s` only under a condition: after an activation in which the condition was false `%s` is '
                                  'shorter, and the next activation that finds `%s` long enough indexes `%s` beyond its length (generate a '
                                  'function at -O0, then a smaller one at -O2 in the same generator: SIGSEGV)' %
                                  (w['l'], lens[0].split('->')[-1], v.split('->')[-1], v.split('->')[-1], lens[0].split('->')[-1], v.split('->')[-1]),
                                  line=y['l'])
    if n < 8:
        raise F.AnalysisBroken('RF120: only %d growth loops found' % n)
    return n


# ---------------------------------------------------------------------------------------------
# RF123: the address of an item changes only in a load or link step
# ---------------------------------------------------------------------------------------------

RF123_WRITERS = {
    'create_item': 'initialisation to NULL',
    'setup_global': 'a load step records the definition in the environment',
    'load_bss_data_section': 'a load step places data',
    'MIR_load_module': 'a load step gives a function its thunk',
    'MIR_link': 'a link step binds imports, exports and forwards',
    '_MIR_builtin_func': 'registration of a builtin (a load of an external)',
}


def rf123(run):
    rule = 'RF123'
    run.rule(rule, 'who may write MIR_item_t.addr: the binding of a name is what the last load / link step made it.  In mir.c, mir-interp.c and '
                   'the generator, `item->addr` is assigned only by the load and link steps (frozen table of six functions, one reason each); '
                   'an engine that refreshes an import from ref_def when it first runs a function rebinds an already linked module without '
                   'a link step, and the engines disagree')
    n = 0
    seen = set()
    for u in ('mir', 'gen'):
        tu = run.tu(u)
        for g in tu.func_list:
            if not g.file.startswith('/repo') or g.body is None:
                continue
            for x in g.walk():
                if x['k'] in ('BinaryOperator', 'CompoundAssignOperator') and x['op'].endswith('=') and x['op'] not in ('==', '!=', '<=', '>='):
                    l = F.strip(x['c'][0])
                    if l['k'] == 'MemberExpr' and l['n'] == 'addr' and 'MIR_item' in tu.type(l['c'][0]).s:
                        key = (g.relfile(), g.name, x['l'])
                        if key in seen:
                            continue
                        seen.add(key)
                        n += 1
                        ok = g.name in RF123_WRITERS
                        run.functions_analysed.add((u, g.name))
                        run.ob(rule, key, ok, {'site': '%s:%d %s' % key[:1] + key[2:3] + key[1:2] if False else '%s:%d %s' % (key[0], key[2], key[1]),
                                               'reason': RF123_WRITERS.get(g.name)} if n % 4 == 1 or not ok else None)
                        if not ok:
                            run.violation(rule, g, 'item address written outside load/link', '`%s` in %s changes the address of an item outside the load '
                                          'and link steps: a module that was linked earlier sees a definition loaded afterwards (and only in this '
                                          'engine)' % (F.src(x)[:70], g.name), line=x['l'])
    if n < 10:
        raise F.AnalysisBroken('RF123: only %d writes of item->addr found' % n)
    return n


# ---------------------------------------------------------------------------------------------
# RF128: an expr data item is filled with exactly the bytes reserved for it
# ---------------------------------------------------------------------------------------------

def rf128(run):
    from lib import regions as R
    rule = 'RF128'
    run.rule(rule, 'MIR_link stores the value of an expr data item with memcpy.  load_bss_data_section reserved _MIR_type_size (result type) '
                   'bytes for the item; the number of bytes copied is that same expression, or — inside a switch on the type — a constant '
                   'equal to the size of every type that reaches the copy (1/2/4/8 for integers, 4, 8, 16 for f, d, ld, 8 for p).  A wider '
                   'copy overwrites the items placed behind it in the section')
    tu = run.tu('mir')
    f = tu.func('MIR_link')
    run.functions_analysed.add(('mir', f.name))
    ty = dict(tu.enum('MIR_type_t'))
    SIZE = {'MIR_T_I8': 1, 'MIR_T_U8': 1, 'MIR_T_I16': 2, 'MIR_T_U16': 2, 'MIR_T_I32': 4, 'MIR_T_U32': 4, 'MIR_T_I64': 8, 'MIR_T_U64': 8,
            'MIR_T_F': 4, 'MIR_T_D': 8, 'MIR_T_LD': 16, 'MIR_T_P': 8}
    copies = [x for x in f.walk() if x['k'] == 'CallExpr' and x.get('callee') == 'memcpy' and 'expr_data' in F.src(F.call_args(x)[0])
              and 'load_addr' in F.src(F.call_args(x)[0])]
    if not copies:
        raise F.AnalysisBroken('MIR_link: the store of an expr data value was not found')
    sws = [s_ for s_ in R.find_switches(f) if any(any(y is c for y in F.walk(s_)) for c in copies)]
    regs = R.switch_regions(f, sws[0]) if sws else []
    n = 0
    for c in copies:
        sz = F.strip(F.call_args(c)[2])
        # the types that reach this copy
        reach = set(SIZE)
        if regs:
            mine = [r for r in regs if any(y is c for s_ in r['stmts'] for y in F.walk(s_))]
            if mine:
                named = {cn for r in regs for cn, lo, hi in r['cases'] if cn in SIZE}
                reach = set()
                for r in mine:
                    reach |= {cn for cn, lo, hi in r['cases'] if cn in SIZE}
                    if r['default']:
                        reach |= set(SIZE) - named
        n += 1
        if sz['k'] == 'CallExpr' and sz.get('callee') == '_MIR_type_size':
            a = F.src(F.strip(F.call_args(sz)[1])).replace(' ', '')
            const_t = a if a in SIZE else None
            ok = const_t is None or all(SIZE[t] == SIZE[const_t] for t in reach)
            what = '_MIR_type_size (%s)' % a
        else:
            v = F.const_value(sz)
            if v is None:
                raise F.AnalysisBroken('MIR_link: size `%s` of the expr data store not evaluable' % F.src(sz)[:40])
            ok = all(SIZE[t] == v for t in reach)
            what = '%d' % v
        run.ob(rule, (c['l'],), ok, {'site': '%s:%d' % (f.relfile(), c['l']), 'bytes copied': what, 'result types reaching the copy': sorted(reach)})
        if not ok:
            wrong = sorted(t for t in reach if what.isdigit() and SIZE[t] != int(what))
            run.violation(rule, f, 'expr data store wider than the item', 'the value of an expr data item is stored with %s bytes for result types %s, '
                          'while load_bss_data_section reserved %s: the bytes behind the item — data the loader has already initialised, or '
                          'memory past the section — are overwritten with the sign extension' %
                          (what, wrong[:6], sorted({SIZE[t] for t in wrong})), line=c['l'])
    return n


# ---------------------------------------------------------------------------------------------
# RF136: what a reference operand refers to is decided where it is created
# ---------------------------------------------------------------------------------------------

RF136_WRITERS = {
    'MIR_new_ref_op': 'creation of the operand',
    'simplify_op': 'declaration replaced by its definition inside one module (RF108 decides which kinds are followed)',
}


def rf136(run):
    rule = 'RF136'
    run.rule(rule, 'who may write `op.u.ref`: an instruction refers to the item its creator named; the binding of that item to an address is '
                   'made by the link step of the module the item belongs to.  Only MIR_new_ref_op and the declaration-to-definition step '
                   'of simplify_op assign the field (frozen table); a pass that re-points copied instructions at an item of another module '
                   '(an inliner choosing the caller\'s import of the same name) replaces the callee\'s binding by one made at a later step')
    n = 0
    for u in ('mir', 'gen'):
        tu = run.tu(u)
        for g in tu.func_list:
            if not g.file.startswith('/repo') or g.body is None:
                continue
            for x in g.walk():
                if x['k'] == 'BinaryOperator' and x['op'] == '=':
                    l = F.strip(x['c'][0])
                    if l['k'] == 'MemberExpr' and l['n'] == 'ref' and F.src(l).replace(' ', '').endswith('u.ref') and 'MIR_item' in tu.type(l).s:
                        n += 1
                        ok = g.name in RF136_WRITERS
                        run.functions_analysed.add((u, g.name))
                        run.ob(rule, (g.name, x['l']), ok, {'site': '%s:%d %s' % (g.relfile(), x['l'], g.name), 'reason': RF136_WRITERS.get(g.name)})
                        if not ok:
                            run.violation(rule, g, 'reference operand re-pointed', '`%s` in %s changes the item an existing reference operand refers to: '
                                          'code copied from a module linked at an earlier step would use a binding made at a later step '
                                          '(the definition loaded last before *that* step)' % (F.src(x)[:70], g.name), line=x['l'])
    if n < 2:
        raise F.AnalysisBroken('RF136: only %d writes of u.ref found' % n)
    return n


# ---------------------------------------------------------------------------------------------
# RF138: equal reference operands denote the same binding
# ---------------------------------------------------------------------------------------------

def rf138(run):
    from lib import printexec as PE
    rule = 'RF138'
    run.rule(rule, 'MIR_op_eq_p, executed abstractly for two reference operands: two import (or export) items of the same name whose '
                   'addresses differ — imports of two modules bound at different link steps, brought into one function by inlining — are '
                   'not equal; the same item is equal to itself, and same name with the same address is equal.  GVN and the operand hash '
                   'tables treat equal operands as one value')
    tu = run.tu('mir')
    f = tu.func('MIR_op_eq_p')
    run.functions_analysed.add(('mir', f.name))
    modes = dict(tu.enum('MIR_op_mode_t'))
    kinds = dict(tu.enum_by_member('MIR_import_item')[1])
    n = 0
    for kind in ('MIR_import_item', 'MIR_export_item'):
        for what, a1, a2, r2, want in (('same name, different addresses', 100, 200, 2, 0), ('same name, same address', 100, 100, 2, 1),
                                       ('the same item', 100, 100, 1, 1)):
            heap = {}
            env = {'op1.mode': modes['MIR_OP_REF'], 'op2.mode': modes['MIR_OP_REF'], 'op1.u.ref': 1, 'op2.u.ref': r2,
                   'op1.u.ref->item_type': kinds[kind], 'op2.u.ref->item_type': kinds[kind], 'op1.u.ref->addr': a1, 'op2.u.ref->addr': a2}
            acc = {'MIR_item_name': lambda a, e, x: 'd', 'strcmp': lambda a, e, x: 0 if x.val(a[0], e) == x.val(a[1], e) else 1}
            ex = PE.PrintExec(tu, heap, acc, {})
            ex.retval = 'none'
            try:
                ex.run(f.body, env)
            except F.AnalysisBroken as e_:
                raise F.AnalysisBroken('MIR_op_eq_p not executable for reference operands: %s' % e_)
            if not isinstance(ex.retval, int):
                raise F.AnalysisBroken('MIR_op_eq_p: no result for reference operands (%s)' % what)
            ok = bool(ex.retval) == bool(want)
            n += 1
            run.ob(rule, (kind, what), ok, {'items': kind, 'case': what, 'equal': bool(ex.retval), 'expected': bool(want)})
            if not ok:
                run.violation(rule, f, 'reference operands: %s' % what, 'MIR_op_eq_p says two %s references with %s are %s: %s' %
                              (kind[4:-5], what, 'equal' if ex.retval else 'different',
                               'GVN replaces the address of one definition by the address of the other when a function of another module is '
                               'inlined next to a use of this module\'s import of the same name' if want == 0 else
                               'identical references are no longer recognised as one value'), line=f.line)
    return n


# ---------------------------------------------------------------------------------------------
# RF150: the engines take bindings from the item they refer to, not from the live environment
# ---------------------------------------------------------------------------------------------

def rf150(run):
    rule = 'RF150'
    run.rule(rule, 'who may follow `ref_def`: for an import item it points at the entry of the environment table, which setup_global updates '
                   'in place at every later load.  Only mir.c (creation, MIR_link, the load-time passes) reads the field; the generator '
                   '(mir-gen.c, mir-gen-x86_64.c) and the interpreter (mir-interp.c) never do — they use item->addr, the binding the link '
                   'step of the importing module made.  Control: the extractor sees the reads of mir.c')
    n = 0
    ctrl = 0
    for u in ('mir', 'gen'):
        tu = run.tu(u)
        for g in tu.func_list:
            if g.body is None or not g.file.startswith('/repo'):
                continue
            engine = g.file.endswith(('mir-gen.c', 'mir-gen-x86_64.c', 'mir-interp.c'))
            for x in g.walk():
                if x['k'] == 'MemberExpr' and x['n'] == 'ref_def' and 'MIR_item' in tu.type(x['c'][0]).s:
                    if not engine:
                        if u == 'mir':
                            ctrl += 1
                        continue
                    n += 1
                    run.functions_analysed.add((u, g.name))
                    run.ob(rule, (g.name, x['l']), False, {'site': '%s:%d %s' % (g.relfile(), x['l'], g.name)})
                    run.violation(rule, g, 'binding taken from the environment', '%s follows `%s` (line %d): at generation / first-call time the '
                                  'environment entry names the definition loaded last *by then*, not the one the import was bound to when its '
                                  'module was linked — a later load changes what an already linked module calls' % (g.name, F.src(x)[:50], x['l']), line=x['l'])
    run.control(rule, 'reads of ref_def in mir.c', ctrl >= 5)
    run.ob(rule, ('engines',), n == 0, {'reads of ref_def in the engines': n, 'reads in mir.c (control)': ctrl})
    return 1


# ---------------------------------------------------------------------------------------------
# RF157: the "undefined item" diagnostics of the link step can fire
# ---------------------------------------------------------------------------------------------

def rf157(run):
    rule = 'RF157'
    run.rule(rule, 'MIR_link: add_item enters an export or forward declaration into the module table when nothing of that name is there yet, '
                   'so the lookup made for such an item at link time finds at least the declaration itself.  The condition that guards '
                   '"export/forward of undefined item" therefore has to look at what was found (its item_type, or its identity), not only at NULL: '
                   'otherwise the declaration becomes its own ref_def and every loop that follows ref_def to the definition never ends')
    tu = run.tu('mir')
    g = tu.func('add_item')
    run.functions_analysed.add(('mir', g.name))
    ins = [x for x in g.walk() if x['k'] == 'CallExpr' and x.get('callee') == 'item_tab_insert']
    run.control(rule, 'add_item enters items into the table', len(ins) >= 1)
    n = 0
    for h in tu.func_list:
        if h.body is None or not h.file.startswith('/repo'):
            continue
        for x in h.walk():
            if x['k'] != 'IfStmt' or len(x['c']) < 2:
                continue
            then = x['c'][1]
            if any(y['k'] == 'IfStmt' for y in F.walk(then)):
                continue
            msg = [y.get('s', '') for y in F.walk(then) if y['k'] == 'StringLiteral']
            kind = None
            for m_ in msg:
                if 'export of undefined item' in m_:
                    kind = 'export'
                if 'forward of undefined item' in m_:
                    kind = 'forward'
                if '%s of undefined item' in m_ and 'export' in msg and 'forward' in msg:
                    kind = 'export / forward'
                    n += 1
            if kind is None:
                continue
            n += 1
            run.functions_analysed.add(('mir', h.name))
            cond = x['c'][0]
            looks = any(y['k'] == 'MemberExpr' and y['n'] == 'item_type' and 'tab_item' in F.src(y) for y in F.walk(cond)) or \
                any(y['k'] == 'BinaryOperator' and y['op'] in ('==', '!=') and 'tab_item' in F.src(y) and
                    F.src(F.strip(y['c'][1])) == 'item' for y in F.walk(cond))
            run.ob(rule, (h.name, kind), looks, {'site': '%s:%d' % (h.relfile(), x['l']), 'condition': F.src(cond)[:120]})
            if not looks:
                run.violation(rule, h, 'dead diagnostic: %s of undefined item' % kind,
                              'the condition `%s` tests the lookup result for NULL only, but the lookup finds the %s declaration itself when the '
                              'module never defines the name: the error is never reported, the declaration becomes its own ref_def, and a '
                              'reference through it makes simplify_op / process_inlines loop forever' % (F.src(cond)[:90], kind), line=x['l'])
    run.control(rule, 'both diagnostics found', n == 2)
    return n


# ---------------------------------------------------------------------------------------------
# RF158: a failed link step leaves no trace in the environment
# ---------------------------------------------------------------------------------------------

def rf158(run):
    rule = 'RF158'
    run.rule(rule, 'MIR_link, first loop: the error function may return by longjmp, and the context is used again.  Within one item, no '
                   'diagnostic is reachable after a call that enters something into the environment table (MIR_load_external, setup_global): '
                   'an import that is reported as undefined must not have been registered — with a NULL address — before the report, '
                   'otherwise every later link finds the entry, binds the import to NULL without asking the resolver, and a later '
                   'definition of the name is refused as a redefinition')
    tu = run.tu('mir')
    f = tu.func('MIR_link')
    cfg = f.cfg
    run.functions_analysed.add(('mir', f.name))
    errs = [b for b in cfg.blocks if cfg.blocks[b].noreturn]
    run.control(rule, 'diagnostics of MIR_link found', len(errs) >= 3)
    muts = set()
    for nm in ('MIR_load_external', 'setup_global'):
        muts |= set(calls_in(cfg, nm))
    run.control(rule, 'MIR_link registers resolved imports', bool(muts))
    steps = set()
    for lp in f.walk():
        if lp['k'] == 'ForStmt' and lp['c'][2] is not None:
            bstep = cfg.block_of(lp['c'][2])
            if bstep is not None:
                steps.add(bstep)
    n = 0
    for b0 in sorted(muts):
        after = cfg.reachable_from(b0, avoid=lambda b: b in steps)
        # the block itself: an error call that follows the registration inside the same block
        bad = [e for e in errs if e in after and e != b0]
        blk = cfg.blocks[b0]
        same = False
        if b0 in errs:
            seen_mut = False
            for el in blk.elems:
                for y in F.walk(el):
                    if y['k'] == 'CallExpr' and y.get('callee') in ('MIR_load_external', 'setup_global'):
                        seen_mut = True
                    elif y['k'] == 'CallExpr' and seen_mut and 'MIR_get_error_func' in F.src(y):
                        same = True
        n += 1
        ok = not bad and not same
        run.ob(rule, ('after', b0), ok, {'registration in block': b0, 'diagnostics reachable afterwards (same item)': len(bad) + int(same)})
        if not ok:
            run.violation(rule, f, 'diagnostic after registration', 'in MIR_link an "undefined item" diagnostic is reachable after '
                          'MIR_load_external / setup_global has entered the name into the environment table (within the same item): when the '
                          'error function returns, the failed link has registered the name — with the address NULL when the resolver '
                          'did not know it — and later links bind the import to it silently', line=f.line)
    return n


# ---------------------------------------------------------------------------------------------
# RF16m: every address load_bss_data_section hands out lies in the section it allocated
# ---------------------------------------------------------------------------------------------

def rf16m(run):
    rule = 'RF16m'
    run.rule(rule, 'load_bss_data_section: each value assigned to an item\'s `addr` is the result of the section allocation (MIR_malloc) or the '
                   'running placement pointer, which itself starts at the head\'s address and only advances by item sizes.  An address taken '
                   'from anywhere else (e.g. the element buffer of the data item) puts the head outside the block that holds the items '
                   'continuing it')
    tu = run.tu('mir')
    f = tu.func('load_bss_data_section')
    run.functions_analysed.add(('mir', f.name))
    ptr = None
    n = 0
    for x in f.walk():
        if x['k'] == 'BinaryOperator' and x['op'] == '=':
            l = F.strip(x['c'][0])
            if l['k'] == 'MemberExpr' and l['n'] == 'addr' and 'MIR_item' in tu.type(l['c'][0]).s:
                r = F.strip(x['c'][1])
                ok = (r['k'] == 'CallExpr' and (r.get('callee') or '').endswith('malloc')) or \
                     (r['k'] == 'DeclRefExpr' and r.get('dk') == 'local')
                if ok and r['k'] == 'DeclRefExpr':
                    ptr = r['n']
                n += 1
                run.ob(rule, (x['l'],), ok, {'site': '%s:%d' % (f.relfile(), x['l']), 'assignment': F.src(x)[:70]})
                if not ok:
                    run.violation(rule, f, 'item address outside the section', '`%s` gives an item an address that is neither the allocated section nor the '
                                  'placement pointer: the items that continue the section are allocated elsewhere, so they are not at head + size' %
                                  F.src(x)[:70], line=x['l'])
    if ptr is not None:
        for x in f.walk():
            if x['k'] in ('BinaryOperator', 'CompoundAssignOperator') and x['op'] in ('=', '+=') and F.src(F.strip(x['c'][0])) == ptr:
                r = F.strip(x['c'][1])
                ok = x['op'] == '+=' or (r['k'] == 'MemberExpr' and r['n'] == 'addr') or (r['k'] == 'CallExpr' and (r.get('callee') or '').endswith('malloc')) \
                    or (r['k'] == 'BinaryOperator' and r['op'] == '+' and ptr in F.src(r))
                n += 1
                run.ob(rule, ('ptr', x['l']), ok, {'placement pointer': F.src(x)[:70]})
                if not ok:
                    run.violation(rule, f, 'placement pointer leaves the section', '`%s`: the placement pointer is set from something other than the head address '
                                  'or its own advance' % F.src(x)[:70], line=x['l'])
    if n < 5:
        raise F.AnalysisBroken('load_bss_data_section: only %d address assignments found' % n)
    return n


# ---------------------------------------------------------------------------------------------
# RF162: counted strings are never measured as C strings
# ---------------------------------------------------------------------------------------------

def rf162(run):
    rule = 'RF162'
    run.rule(rule, 'a MIR_str_t carries its length and may contain zero bytes (`string "ab\\\\000cd"`, a C array initialised by "ab\\\\0cd").  In '
                   'mir.c, the generator and mir2c no C-string function (strlen, strcpy, strcmp, strdup, …) is applied to the `s` member of a '
                   'MIR_str_t, and MIR_new_string_data passes the `len` member as the number of elements: the bytes of a string data item '
                   'are the declared ones, so the items that continue its section lie at the declared offsets')
    CSTR = {'strlen', 'strnlen', 'strcpy', 'strncpy', 'strcmp', 'strncmp', 'strdup', 'strcat', 'strchr', 'strrchr', 'strstr'}
    members = bad = 0
    for u in ('mir', 'gen', 'mir2c'):
        tu = run.tu(u)
        for g in tu.func_list:
            if g.body is None or not g.file.startswith('/repo') or (u != 'mir' and g.file.endswith('/mir.c')):
                continue
            for x in g.walk():
                if x['k'] == 'MemberExpr' and x['n'] == 's' and 'MIR_str' in (getattr(tu.type(x['c'][0]), 's', '') or ''):
                    members += 1
                if x['k'] == 'CallExpr' and x.get('callee') in CSTR:
                    for a in F.call_args(x):
                        a0 = F.strip(a)
                        if any(y['k'] == 'MemberExpr' and y['n'] == 's' and 'MIR_str' in (getattr(tu.type(y['c'][0]), 's', '') or '') for y in F.walk(a0)):
                            bad += 1
                            run.functions_analysed.add((u, g.name))
                            run.ob(rule, (u, g.name, x['l']), False, {'site': '%s:%d %s' % (g.relfile(), x['l'], g.name), 'call': F.src(x)[:70]})
                            run.violation(rule, g, 'C-string function on a counted string', '%s applies %s to the bytes of a MIR_str_t (`%s`): the '
                                          'string is cut at its first zero byte, the data item built from it is shorter than declared and '
                                          'every item that continues its section moves' % (g.name, x['callee'], F.src(a0)[:40]), line=x['l'])
    run.control(rule, 'MIR_str_t byte pointers seen by the extractor', members >= 5)
    tu = run.tu('mir')
    g = tu.func('MIR_new_string_data')
    run.functions_analysed.add(('mir', g.name))
    calls = [x for x in g.walk() if x['k'] == 'CallExpr' and x.get('callee') == 'MIR_new_data']
    if len(calls) != 1:
        raise F.AnalysisBroken('MIR_new_string_data: the MIR_new_data call was not found')
    a = F.call_args(calls[0])
    nel = F.strip(a[3])
    # a local with one definition stands for its defining expression
    if nel['k'] == 'DeclRefExpr' and nel.get('dk') == 'local':
        defs = [d['init'] for x in g.walk() if x['k'] == 'DeclStmt' for d in x.get('decls', []) if d['n'] == nel['n'] and d.get('init') is not None]
        defs += [x['c'][1] for x in g.walk() if x['k'] == 'BinaryOperator' and x['op'] == '=' and F.src(F.strip(x['c'][0])) == nel['n']]
        if len(defs) == 1:
            nel = F.strip(defs[0])
    uses_len = any(y['k'] == 'MemberExpr' and y['n'] == 'len' and 'MIR_str' in (getattr(tu.type(y['c'][0]), 's', '') or '') for y in F.walk(nel))
    measures = any(y['k'] == 'CallExpr' and y.get('callee') in CSTR for y in F.walk(nel))
    plain = nel['k'] == 'MemberExpr' and nel['n'] == 'len'
    if not plain and not measures and not (uses_len and nel['k'] == 'ConditionalOperator'):
        if not uses_len:
            raise F.AnalysisBroken('MIR_new_string_data: the number of elements `%s` is not recognised' % F.src(nel)[:60])
    ok = plain
    if not plain and uses_len and not measures and nel['k'] != 'ConditionalOperator':
        raise F.AnalysisBroken('MIR_new_string_data: the number of elements `%s` is computed from the length in a way the rule cannot judge' % F.src(nel)[:60])
    run.ob(rule, ('nel',), ok, {'number of elements passed by MIR_new_string_data': F.src(nel)[:60]})
    if not ok:
        run.violation(rule, g, 'length of string data', 'MIR_new_string_data passes `%s` as the number of elements instead of the length of the '
                      'MIR_str_t: a string with an inner zero byte (or without a final one) gives an item of another size than declared' %
                      F.src(nel)[:60], line=calls[0]['l'])
    run.ob(rule, ('c-string functions',), bad == 0, {'MIR_str_t byte pointers': members, 'passed to C-string functions': bad})
    return 2


# ---------------------------------------------------------------------------------------------
# RF163: the generator releases in item->data only what it put there
# ---------------------------------------------------------------------------------------------

def rf163(run):
    rule = 'RF163'
    run.rule(rule, 'mir-gen.c: `func_item->data` is shared by the engines — the interpreter keeps the prepared code of a function there, and an '
                   'interpretation of that function may be in progress when a (lazy) generation of it starts.  The generator frees the field '
                   'only in destroy_func_cfg (the func_cfg that generate_func_code stored) or, inside one function, behind its own store of a '
                   'gen_malloc result into the field on every path.  It never releases a block it finds there')
    tu = run.tu('gen')
    ALLOWED = {'destroy_func_cfg': 'frees the func_cfg stored by generate_func_code, which calls it before returning'}
    n = 0
    stores = 0
    for g in tu.func_list:
        if g.body is None or not g.file.endswith(('mir-gen.c', 'mir-gen-x86_64.c')):
            continue
        cfg = None
        for x in g.walk():
            if x['k'] == 'BinaryOperator' and x['op'] == '=' and F.src(F.strip(x['c'][0])).replace(' ', '').endswith('func_item->data') and \
                    any(y['k'] == 'CallExpr' and (y.get('callee') or '').endswith('malloc') for y in F.walk(x['c'][1])):
                stores += 1
            if x['k'] != 'CallExpr' or x.get('callee') not in ('gen_free', 'MIR_free', 'free'):
                continue
            args = [F.src(F.strip(a)).replace(' ', '') for a in F.call_args(x)]
            if not any(a.endswith('func_item->data') for a in args):
                continue
            n += 1
            run.functions_analysed.add(('gen', g.name))
            ok = g.name in ALLOWED
            if not ok:
                cfg = cfg or g.cfg
                b = cfg.block_of(x)
                st = set(stores_to(cfg, 'func_item->data'))
                st = {b_ for b_ in st if any(y['k'] == 'CallExpr' and (y.get('callee') or '').endswith('malloc')
                                            for el in cfg.blocks[b_].elems for y in F.walk(el))}
                ok = b is not None and b not in cfg.reachable_from(cfg.entry, avoid=lambda bb: bb in st) and b not in st
            run.ob(rule, (g.name, x['l']), ok, {'site': '%s:%d %s' % (g.relfile(), x['l'], g.name), 'call': F.src(x)[:60],
                                               'reason': ALLOWED.get(g.name, 'behind the generator\'s own allocation' if ok else 'not behind an allocation')})
            if not ok:
                run.violation(rule, g, 'generator frees foreign item data', '%s frees `func_item->data` (line %d) without having stored its own allocation '
                              'there: the block belongs to the interpreter (code prepared by generate_icode), and an interpretation of the '
                              'function that triggered this generation — a recursive call through the lazy thunk — continues in freed memory' %
                              (g.name, x['l']), line=x['l'])
    run.control(rule, 'generator stores its own allocations into func_item->data', stores >= 2)
    run.control(rule, 'the release in destroy_func_cfg is seen', n >= 1)
    return n


# ---------------------------------------------------------------------------------------------
# RF165: generating one version of a basic block does not edit the function
# ---------------------------------------------------------------------------------------------

def rf165(run):
    rule = 'RF165'
    run.rule(rule, 'lazy basic-block generation: bb_version_generator runs once per *version* of a block, at the moment control first reaches '
                   'it, over the instruction list that all versions (and the bb stubs\' first_insn / last_insn pointers) share.  Neither it nor '
                   'anything it calls removes, frees into, or inserts into that list (MIR_remove_insn, MIR_insert_insn_*, MIR_append_insn, '
                   'gen_delete_insn, gen_add_insn_*, …): a removed property branch is freed while the loop still reads it (D112) and is '
                   'missing for the versions generated later')
    tu = run.tu('gen')
    MUT = {'MIR_remove_insn', 'MIR_insert_insn_before', 'MIR_insert_insn_after', 'MIR_append_insn', 'MIR_prepend_insn', 'gen_delete_insn',
           'gen_add_insn_before', 'gen_add_insn_after', 'gen_move_insn_before', 'ssa_delete_insn', 'DLIST_MIR_insn_t_remove',
           'DLIST_MIR_insn_t_insert_before', 'DLIST_MIR_insn_t_insert_after', 'DLIST_MIR_insn_t_append', 'DLIST_MIR_insn_t_prepend'}
    root = tu.func('bb_version_generator')
    reach = set(tu.reachable([root.name])) | {root.name}
    run.control(rule, 'generate_bb_version_machine_code is reachable from bb_version_generator', 'generate_bb_version_machine_code' in reach)
    # control: the whole-function path does edit the list (the extractor sees such calls)
    ctrl = sum(1 for g in tu.func_list if g.body is not None for x in g.walk() if x['k'] == 'CallExpr' and x.get('callee') in MUT)
    run.control(rule, 'list-editing calls elsewhere in the generator', ctrl >= 20)
    n = 0
    for fn in sorted(reach):
        g = tu.func(fn)
        if g is None or g.body is None:
            continue
        run.functions_analysed.add(('gen', g.name))
        for x in g.walk():
            if x['k'] == 'CallExpr' and x.get('callee') in MUT:
                n += 1
                run.ob(rule, (g.name, x['l']), False, {'site': '%s:%d %s' % (g.relfile(), x['l'], g.name), 'call': F.src(x)[:70]})
                run.violation(rule, g, 'instruction list edited per bb version', '%s, reachable from bb_version_generator, calls %s (line %d): the '
                              'instruction list is shared by all versions of the block and by the stubs\' first/last pointers — an instruction '
                              'removed for one version is freed under the generating loop and absent for the next version' %
                              (g.name, x['callee'], x['l']), line=x['l'])
    run.ob(rule, ('closure',), n == 0, {'functions reachable from bb_version_generator': len(reach), 'list-editing calls': n})
    return 1


# ---------------------------------------------------------------------------------------------
# RF168: every exported item of a loaded module reaches the environment table
# ---------------------------------------------------------------------------------------------

def rf168(run):
    rule = 'RF168'
    run.rule(rule, 'MIR_load_module: under `export_p`, every path that does not end in the error callback calls setup_global before the loop '
                   'goes on to the next item — whatever the kind of the item (function, data, bss) and whatever the environment already '
                   'holds for the name.  "The definition loaded last" is then the one every later link binds to; an export that is skipped '
                   '(say, a bss that gives way to initialised data of an earlier module) leaves imports on the older definition')
    tu = run.tu('mir')
    f = tu.func('MIR_load_module')
    cfg = f.cfg
    run.functions_analysed.add(('mir', f.name))
    sg = set(calls_in(cfg, 'setup_global'))
    run.control(rule, 'setup_global is called by MIR_load_module', bool(sg))
    noret = {b for b in cfg.blocks if cfg.blocks[b].noreturn}
    steps = set()
    for lp in f.walk():
        if lp['k'] == 'ForStmt' and lp['c'][2] is not None:
            b = cfg.block_of(lp['c'][2])
            if b is not None:
                steps.add(b)
    n = 0
    for B in cfg.blocks.values():
        if B.cond is None or len(B.succs) != 2:
            continue
        c = F.src(F.strip(B.cond)).replace(' ', '')
        if not c.endswith('->export_p') and not c.endswith('->export_p)'):
            continue
        t = B.succs[0]
        if t is None:
            continue
        n += 1
        seen = cfg.reachable_from(t, avoid=lambda b: b in sg or b in noret)
        # the step of the loop over the items, or the end of the function, reached without setup_global
        escaped = sorted((seen & steps) | ({cfg.exit} & seen))
        ok = not escaped
        run.ob(rule, ('export', B.id), ok, {'condition': F.src(F.strip(B.cond))[:60], 'next item reachable without setup_global': not ok})
        if not ok:
            run.violation(rule, f, 'exported item not registered', 'MIR_load_module: under `%s` the next item is reachable without a call of '
                          'setup_global: an exported item can be skipped, and imports of modules linked afterwards stay bound to the '
                          'definition loaded before it' % F.src(F.strip(B.cond))[:50], line=B.cond['l'])
    run.control(rule, 'the export_p branch of MIR_load_module found', n >= 1)
    return n


# ---------------------------------------------------------------------------------------------
# RF171: load_bss_data_section writes the bytes of the item it is placing, nothing else
# ---------------------------------------------------------------------------------------------

def rf171(run):
    rule = 'RF171'
    run.rule(rule, 'load_bss_data_section is called once for a whole section on the first load and once *per member* when the module is loaded '
                   'again (the addresses are kept).  Each memset / memcpy / memmove in it therefore writes at the placement pointer exactly the '
                   'length of the item being placed (an expression over `curr_item`, directly or through a local assigned from one in the '
                   'same branch).  A write sized by anything else — e.g. "padding up to a multiple of 8 from item->addr" — lands, on a '
                   're-load, in the member that follows, whose lref cell is not written again for an already generated function')
    tu = run.tu('mir')
    f = tu.func('load_bss_data_section')
    run.functions_analysed.add(('mir', f.name))
    # locals assigned from an expression over curr_item
    item_locals = set()
    for x in f.walk():
        if x['k'] == 'BinaryOperator' and x['op'] == '=' and F.strip(x['c'][0])['k'] == 'DeclRefExpr' and 'curr_item->' in F.src(x['c'][1]):
            item_locals.add(F.strip(x['c'][0])['n'])
    n = 0
    for x in f.walk():
        if x['k'] != 'CallExpr' or x.get('callee') not in ('memset', 'memcpy', 'memmove'):
            continue
        a = F.call_args(x)
        dest, ln = F.src(F.strip(a[0])), F.strip(a[2])
        ln_src = F.src(ln)
        sized = 'curr_item->' in ln_src or (ln['k'] == 'DeclRefExpr' and ln['n'] in item_locals)
        # … and it is the very amount by which the placement pointer advances in the same branch
        par = f.parent_of(x)
        while par is not None and par['k'] != 'CompoundStmt':
            par = f.parent_of(par)
        adv = [F.src(F.strip(y['c'][1])) for y in (F.walk(par) if par is not None else []) if y['k'] == 'CompoundAssignOperator' and y['op'] == '+='
               and F.src(F.strip(y['c'][0])) == dest]
        sized = sized and ln_src in adv
        at_ptr = F.strip(a[0])['k'] == 'DeclRefExpr' and F.strip(a[0]).get('dk') == 'local'
        ok = sized and at_ptr
        n += 1
        run.ob(rule, (x['l'],), ok, {'site': '%s:%d' % (f.relfile(), x['l']), 'call': F.src(x)[:80]})
        if not ok:
            run.violation(rule, f, 'write not sized by the placed item', '`%s` (line %d) writes %s: when the module is loaded again the function '
                          'places one member per call, and this write reaches into the next member — an lref cell there is not rewritten '
                          'for a function that already has machine code' %
                          (F.src(x)[:70], x['l'], 'a length that is not the length of the item being placed' if not sized else 'at something other than the placement pointer'),
                          line=x['l'])
    run.control(rule, 'the writes of load_bss_data_section found', n >= 2)
    return n


# ---------------------------------------------------------------------------------------------
# RF188: a second load looks at every item again
# ---------------------------------------------------------------------------------------------

def rf188(run):
    rule = 'RF188'
    run.rule(rule, 'MIR_load_module may be applied to a loaded module: it re-initialises the data.  load_bss_data_section, called for a section '
                   'whose items already have addresses, places *one* item per call — the loop over the items of MIR_load_module is what '
                   'reaches the others.  No `continue` / `break` of that loop is guarded by what an earlier load left in the item (`addr`, '
                   '`section_head_p`): skipping "already placed" members leaves anonymous data, strings and bss of a section with whatever '
                   'the program wrote there')
    tu = run.tu('mir')
    f = tu.func('MIR_load_module')
    cfg = f.cfg
    run.functions_analysed.add(('mir', f.name))
    loops = [l for l in f.walk() if l['k'] == 'ForStmt' and any(y['k'] == 'CallExpr' and y.get('callee') == 'load_bss_data_section' for y in F.walk(l))]
    if not loops:
        raise F.AnalysisBroken('MIR_load_module: the loop over the items was not found')
    lp = loops[0]
    n = 0
    bad = []
    for x in F.walk(lp['c'][3]):
        if x['k'] not in ('ContinueStmt', 'BreakStmt'):
            continue
        # only jumps of this loop (not of an inner loop / switch)
        p_ = f.parent_of(x)
        inner = False
        while p_ is not None and p_ is not lp:
            if p_['k'] in ('ForStmt', 'WhileStmt', 'DoStmt') or (p_['k'] == 'SwitchStmt' and x['k'] == 'BreakStmt'):
                inner = True
                break
            p_ = f.parent_of(p_)
        if inner:
            continue
        n += 1
        b = cfg.block_of(x)
        conds = dominating_conditions(cfg, b) if b is not None else []
        # guards found syntactically as well (a jump statement has no CFG element of its own)
        g_ = []
        p_ = f.parent_of(x)
        while p_ is not None and p_ is not lp:
            if p_['k'] == 'IfStmt':
                g_.append(F.src(p_['c'][0]))
            p_ = f.parent_of(p_)
        txt = ' '.join([c for c, t in conds] + g_)
        if '->addr' in txt or 'section_head_p' in txt:
            bad.append((x, txt))
    run.ob(rule, ('loop',), not bad, {'jumps out of an iteration': n, 'guarded by the state of an earlier load': len(bad)})
    for x, txt in bad:
        run.violation(rule, f, 'item skipped on a second load', 'MIR_load_module skips an item (line %d) under `%s`: when the module is loaded again the '
                      'members of a section already have addresses, load_bss_data_section re-initialises only the item it is called for, and '
                      'the skipped members keep the bytes the program left in them' % (x['l'], txt[:70]), line=x['l'])
    return 1


# ---------------------------------------------------------------------------------------------
# RF194: every engine adds the displacement of an lref to what it stores into the cell
# ---------------------------------------------------------------------------------------------

def rf194(run):
    import re
    rule = 'RF194'
    run.rule(rule, 'an lref item `lref L [, L2] [, disp]` denotes addr (L) [- addr (L2)] + disp.  Three functions fill the cell (the '
                   'interpreter\'s code preparation, gen_setup_lrefs, create_bb_stubs); sibling agreement: in each of them every store '
                   'through `lref->load_addr` has a value that — with locals replaced by their defining expressions along the statements in '
                   'front of the store — mentions `lref->disp`, in the one-label and in the label-difference branch alike')
    n = 0
    for u, fn in (('mir', 'generate_icode'), ('gen', 'gen_setup_lrefs'), ('gen', 'create_bb_stubs')):
        tu = run.tu(u)
        f = tu.func(fn)
        if f is None or f.body is None:
            raise F.AnalysisBroken('%s not found' % fn)
        stores = [x for x in f.walk() if x['k'] == 'BinaryOperator' and x['op'] == '=' and 'load_addr' in F.src(x['c'][0]) and 'lref' in F.src(x['c'][0])]
        if not stores:
            raise F.AnalysisBroken('%s: no store through lref->load_addr' % fn)
        run.functions_analysed.add((u, fn))
        for st in stores:
            # definitions of locals in front of the store (same function, earlier line), later ones win
            defs = {}
            for x in f.walk():
                if x['l'] > st['l']:
                    continue
                if x['k'] == 'DeclStmt':
                    for d in x.get('decls', []):
                        if d.get('init') is not None:
                            defs.setdefault(d['n'], []).append((x['l'], F.src(d['init'])))
                if x['k'] == 'BinaryOperator' and x['op'] == '=' and x is not st and F.strip(x['c'][0])['k'] == 'DeclRefExpr':
                    defs.setdefault(F.strip(x['c'][0])['n'], []).append((x['l'], F.src(x['c'][1])))
            txt = F.src(st['c'][1])
            for _ in range(3):
                for v, lst in defs.items():
                    # all definitions that can reach the store are joined: the displacement must be in every one that matters,
                    # so a variable stands for the concatenation of its definitions only if each mentions what the others do
                    body = ' | '.join(t for l_, t in lst)
                    if all('->disp' in t for l_, t in lst) or not any('->disp' in t for l_, t in lst):
                        txt = re.sub(r'(?<![A-Za-z0-9_>.])%s(?![A-Za-z0-9_])' % re.escape(v), '(' + body + ')', txt)
                    else:
                        # some definitions carry the displacement, some do not: the last one in front of the store decides
                        last = max(lst)[1]
                        txt = re.sub(r'(?<![A-Za-z0-9_>.])%s(?![A-Za-z0-9_])' % re.escape(v), '(' + last + ')', txt)
            ok = '->disp' in txt
            n += 1
            run.ob(rule, (fn, st['l']), ok, {'site': '%s:%d %s' % (f.relfile(), st['l'], fn), 'value stored (expanded)': txt[:160]})
            if not ok:
                run.violation(rule, f, 'lref cell without its displacement', '%s stores `%s` into the cell of an lref item (line %d): the displacement of '
                              'the item is not part of the value — `lref L, L2, 24` then holds addr (L) - addr (L2) under this engine and '
                              'addr (L) - addr (L2) + 24 under the others' % (fn, F.src(st['c'][1])[:60], st['l']), line=st['l'])
    return n


# ---------------------------------------------------------------------------------------------
# RF196: the loops of MIR_link see the modules loaded while they run
# ---------------------------------------------------------------------------------------------

def rf196(run):
    rule = 'RF196'
    run.rule(rule, 'MIR_link: the import resolver runs inside the first loop over modules_to_link and may itself load a module (a definition '
                   'fetched on demand); MIR_load_module appends it to the same vector, and the final loop pops *all* of it.  Every `for` loop '
                   'of MIR_link that indexes modules_to_link therefore re-reads the vector length in its condition; a length taken once '
                   'before the loops gives the late module an interface with its imports unbound and its functions not simplified')
    tu = run.tu('mir')
    f = tu.func('MIR_link')
    run.functions_analysed.add(('mir', f.name))
    n = 0
    for lp in f.walk():
        if lp['k'] != 'ForStmt' or lp['c'][1] is None:
            continue
        body = lp['c'][3]
        idx = any(y['k'] == 'CallExpr' and (y.get('callee') or '').startswith('VARR_MIR_module_t') and (y.get('callee') or '').endswith('get')
                  and 'modules_to_link' in F.src(y) for y in F.walk(body))
        # only the outermost loop over the vector (the loops over items are nested in it)
        if not idx or any(y['k'] == 'ForStmt' and y is not lp and any(z is lp for z in F.walk(y)) and 'modules_to_link' in F.src(y['c'][1] or {'k': 'x', 'c': []})
                          for y in f.walk() if y['k'] == 'ForStmt' and y['c'][1] is not None):
            if not idx:
                continue
        cond = lp['c'][1]
        if 'modules_to_link' not in F.src(cond) and not any(y['k'] == 'DeclRefExpr' for y in F.walk(cond)):
            continue
        direct_get = any(y['k'] == 'CallExpr' and (y.get('callee') or '').endswith('get') and 'modules_to_link' in F.src(y) and
                         any(z is y for z in F.walk(st)) for st in (F.kids(body) if body['k'] == 'CompoundStmt' else [body]) for y in F.walk(st)
                         if y['k'] == 'CallExpr')
        if not direct_get:
            continue
        ok = any(y['k'] == 'CallExpr' and (y.get('callee') or '').endswith('length') and 'modules_to_link' in F.src(y) for y in F.walk(cond))
        n += 1
        run.ob(rule, (lp['l'],), ok, {'site': '%s:%d' % (f.relfile(), lp['l']), 'condition': F.src(cond)[:70]})
        if not ok:
            run.violation(rule, f, 'module count taken before the loop', 'the loop at line %d runs over modules_to_link with the condition `%s`: a module '
                          'loaded by the import resolver during the link step is not seen by this loop but gets its interface set by the '
                          'final one — its imports stay unbound' % (lp['l'], F.src(cond)[:50]), line=lp['l'])
    run.control(rule, 'loops of MIR_link over modules_to_link found', n >= 2)
    return n


# ---------------------------------------------------------------------------------------------
# RF199: the current module is restored from a value that was saved from it
# ---------------------------------------------------------------------------------------------

def rf199(run):
    rule = 'RF199'
    run.rule(rule, 'mir.c: functions that switch the context\'s current module for a moment (to create an item in the environment or in the module '
                   'of a function being generated) put it back with `curr_module = <local>`.  On every path to such a restore the local was '
                   'last assigned from `curr_module` — an initialiser `= NULL` that can reach the restore resets the module a caller is '
                   'building (the generator adds helper imports while the user is between MIR_new_module and MIR_finish_module)')
    tu = run.tu('mir')
    n = 0
    for g in tu.func_list:
        if g.body is None or not g.file.endswith('/mir.c'):
            continue
        restores = [x for x in g.walk() if x['k'] == 'BinaryOperator' and x['op'] == '=' and F.src(F.strip(x['c'][0])).replace(' ', '') in ('ctx->curr_module', 'curr_module')
                    and F.strip(x['c'][1])['k'] == 'DeclRefExpr' and F.strip(x['c'][1]).get('dk') == 'local']
        if not restores:
            continue
        cfg = g.cfg
        for rs in restores:
            v = F.strip(rs['c'][1])['n']
            good, bad = set(), set()
            for b, B in cfg.blocks.items():
                for el in B.elems:
                    for y in F.walk(el):
                        src_ = None
                        if y['k'] == 'BinaryOperator' and y['op'] == '=' and F.src(F.strip(y['c'][0])) == v:
                            src_ = F.src(y['c'][1])
                        if y['k'] == 'DeclStmt':
                            for d in y.get('decls', []):
                                if d['n'] == v and d.get('init') is not None:
                                    src_ = F.src(d['init'])
                        if src_ is not None:
                            (good if 'curr_module' in src_ else bad).add(b)
            # a declaration with initialiser is not always a CFG element of its own: look at the AST as well
            for y in g.walk():
                if y['k'] == 'DeclStmt':
                    for d in y.get('decls', []):
                        if d['n'] == v and d.get('init') is not None:
                            (good if 'curr_module' in F.src(d['init']) else bad).add(cfg.entry)
            if v not in [d['n'] for y in g.walk() if y['k'] == 'DeclStmt' for d in y.get('decls', []) if d.get('init') is not None] and not good:
                bad.add(cfg.entry)
            rb = cfg.block_of(rs)
            reach_bad = any(rb in cfg.reachable_from(b, avoid=lambda bb: bb in good and bb != b) and not (b in good) for b in bad) if rb is not None else False
            n += 1
            run.functions_analysed.add(('mir', g.name))
            run.ob(rule, (g.name, rs['l']), not reach_bad, {'site': '%s:%d %s' % (g.relfile(), rs['l'], g.name), 'restored from': v})
            if reach_bad:
                run.violation(rule, g, 'current module restored from an unsaved value', '%s restores `curr_module = %s` (line %d) on a path where `%s` was '
                              'not taken from curr_module (an initialiser or another value reaches the restore): the module the caller is '
                              'building is forgotten, and the next item is refused with "outside module"' % (g.name, v, rs['l'], v), line=rs['l'])
    run.control(rule, 'save / restore pairs of curr_module found', n >= 2)
    return n
