"""RF17 operand-mode table vs specification; helpers to read insn_descs and MIR.md tables."""
import os, re, sys
from lib import facts as F
sys.path.insert(0, os.path.join(F.VERIF, 'spec'))
import opcodes as SPEC

OUT_BIT = 128


def insn_codes(tu):
    """public opcodes: enumerators of MIR_insn_code_t below MIR_INSN_BOUND"""
    vals = tu.enum('MIR_insn_code_t')
    bound = dict(vals).get('MIR_INSN_BOUND')
    if bound is None:
        raise F.AnalysisBroken('MIR_INSN_BOUND not found')
    return [(n, v) for n, v in vals if v < bound]


def read_insn_descs(tu):
    g = tu.global_var('insn_descs')
    init = g.get('init')
    if init is None or init['k'] != 'InitListExpr':
        raise F.AnalysisBroken('insn_descs has no initialiser list')
    modes_enum = {v: n for n, v in tu.enum('MIR_op_mode_t')}
    bound = dict(tu.enum('MIR_op_mode_t')).get('MIR_OP_BOUND')
    rows = []
    for row in F.kids(init):
        if row['k'] != 'InitListExpr' or len(row['c']) != 3:
            raise F.AnalysisBroken('insn_descs row at line %s is not {code, name, modes}' % row.get('l'))
        code = F.strip(row['c'][0])
        name = F.strip(row['c'][1])
        ml = row['c'][2]
        if code['k'] != 'DeclRefExpr' or name['k'] != 'StringLiteral' or ml['k'] != 'InitListExpr':
            raise F.AnalysisBroken('insn_descs row at line %s has an unexpected shape' % row.get('l'))
        modes = []
        for m in F.kids(ml):
            v = F.const_value(m)
            if v is None:
                if m['k'] == 'ImplicitValueInitExpr':
                    break
                raise F.AnalysisBroken('non-constant mode in insn_descs row %s' % code['n'])
            if v == bound:
                break
            modes.append((modes_enum.get(v & ~OUT_BIT, '?%d' % v), bool(v & OUT_BIT)))
        else:
            # no MIR_OP_BOUND terminator inside the 5-element array
            modes.append(('<unterminated>', False))
        rows.append({'code': code['n'], 'value': code.get('v'), 'name': name['s'], 'modes': modes, 'line': row['l']})
    return g, rows


def read_mirmd_nops():
    """`MIR_X`[, `MIR_Y`...] | Nops | rows of MIR.md -> {code: nops}"""
    path = os.path.join(F.REPO, 'MIR.md')
    out = {}
    try:
        txt = open(path, encoding='utf-8', errors='replace').read()
    except OSError:
        raise F.AnalysisBroken('MIR.md not readable')
    for ln, line in enumerate(txt.splitlines(), 1):
        m = re.match(r'\s*\|\s*((?:`MIR_[A-Z0-9_]+`\s*,?\s*)+)\|\s*(\d+)\s*\|(.*)\|', line)
        if m:
            for c in re.findall(r'`(MIR_[A-Z0-9_]+)`', m.group(1)):
                out[c] = (int(m.group(2)), ln, m.group(3).strip())
    return out


def rf17(run):
    rule = 'RF17'
    run.rule(rule, 'each row of insn_descs[]: index = opcode value, name = lower-cased enumerator, arity / operand modes / OUT flag '
                   '= what the opcode-name grammar of MIR.md (or its prose for special instructions) prescribes; Nops column of '
                   'MIR.md = row arity')
    tu = run.tu('mir')
    g, rows = read_insn_descs(tu)
    codes = insn_codes(tu)
    relfile = g['file'].replace(F.REPO + '/', '')
    fn = '<file scope>'
    # row count: one row per public opcode plus the INSN_BOUND/INVALID row
    run.ob(rule, ('rows',), len(rows) >= len(codes), {'rows': len(rows), 'public opcodes': len(codes)})
    if len(rows) < len(codes):
        run.violation(rule, fn, 'insn_descs rows', 'insn_descs has %d rows for %d opcodes' % (len(rows), len(codes)),
                      file=relfile, line=g['line'])
    md = read_mirmd_nops()
    names_seen = {}
    for i, (cname, cval) in enumerate(codes):
        if i >= len(rows):
            break
        r = rows[i]
        short = cname[4:]
        # index = code
        ok = r['code'] == cname
        run.ob(rule, (cname, 'index'), ok)
        if not ok:
            run.violation(rule, fn, 'insn_descs[%s] index' % cname, 'row %d describes %s but the opcode with value %d is %s '
                                                                   '(the table is indexed by opcode)' % (i, r['code'], cval, cname),
                          file=relfile, line=r['line'])
            continue
        # name
        exp = SPEC.expected_text_name(cname)
        ok = r['name'] == exp and r['name'] not in names_seen
        run.ob(rule, (cname, 'name'), ok)
        if not ok:
            run.violation(rule, fn, 'insn_descs[%s] name' % cname, 'textual name "%s" of %s should be "%s"%s'
                          % (r['name'], cname, exp, ' (duplicate of %s)' % names_seen[r['name']] if r['name'] in names_seen else ''),
                          file=relfile, line=r['line'])
        names_seen[r['name']] = cname
        # modes
        sig = SPEC.parse(short)
        if sig is None:
            run.info(rule, '%s: the name grammar has no rule for this opcode; only sibling agreement applies' % cname)
        else:
            exp_modes = sig.modes if sig.modes is not None else []
            ok = r['modes'] == list(exp_modes)
            run.ob(rule, (cname, 'modes'), ok, {'opcode': cname, 'table': ['%s%s' % (m, '|OUT' if o else '') for m, o in r['modes']],
                                                'specification': ['%s%s' % (m, '|OUT' if o else '') for m, o in exp_modes],
                                                'verdict': 'equal' if ok else 'DIFFER'})
            if not ok:
                diffs = []
                for k in range(max(len(r['modes']), len(exp_modes))):
                    a = r['modes'][k] if k < len(r['modes']) else None
                    b = exp_modes[k] if k < len(exp_modes) else None
                    if a != b:
                        diffs.append('operand %d: table %s, specification %s' % (
                            k + 1, ('%s%s' % (a[0], '|OUT_FLAG' if a[1] else '')) if a else 'absent',
                            ('%s%s' % (b[0], '|OUT_FLAG' if b[1] else '')) if b else 'absent'))
                run.violation(rule, fn, 'insn_descs[%s] modes' % cname, 'operand modes of %s disagree with MIR.md: %s'
                              % (cname, '; '.join(diffs)), file=relfile, line=r['line'])
        # MIR.md Nops column
        if cname in md:
            nops, ln, _ = md[cname]
            if sig is None or sig.modes is not None:
                ok = nops == len(r['modes'])
                run.ob(rule, (cname, 'nops-doc'), ok)
                if not ok:
                    run.violation(rule, fn, 'insn_descs[%s] nops' % cname, 'MIR.md:%d documents %d operands for %s, the table has %d'
                                  % (ln, nops, cname, len(r['modes'])), file=relfile, line=r['line'])
    # documented opcodes that do not exist (doc inconsistency, INFO only)
    have = {c for c, _ in codes}
    for c in sorted(md):
        if c not in have:
            run.info(rule, 'doc-inconsistency: MIR.md:%d documents %s which is not an opcode' % (md[c][1], c))
    return rows


# ---------------------------------------------------------------------------------------------
# RF19 validator decision tables (abstract evaluation over finite domains)
# ---------------------------------------------------------------------------------------------
from lib import enumflow as EF
from lib import regions as R
from lib import absint as AI


def rf19_mem(run):
    rule = 'RF19'
    run.rule(rule, 'MIR_finish_func, memory operands: over every MIR type × {call, non-call instruction} × {disp >= 0, disp < 0} the '
                   'validator raises MIR_wrong_type_error exactly for types that are not data types, for block types outside call '
                   'instructions ("can be used only for argument of function", MIR.md) and for block memory with negative displacement')
    tu = run.tu('mir')
    f = tu.func('MIR_finish_func')
    run.functions_analysed.add(('mir', f.name))
    sws = [s for s in R.find_switches(f, lambda c: c.endswith('.mode'))]
    region = None
    for sw in sws:
        for r in R.switch_regions(f, sw):
            if any(nm == 'MIR_OP_MEM' for nm, lo, hi in r['cases']):
                region = r
    if region is None:
        raise F.AnalysisBroken('MIR_finish_func: case MIR_OP_MEM of the operand-mode switch not found')
    # key names as the code spells them
    tkey = dkey = None
    for x in R.region_nodes(region['stmts']):
        if x['k'] == 'MemberExpr' and x['n'] == 'type' and '.mem' in F.src(x):
            tkey = F.src(x)
        if x['k'] == 'MemberExpr' and x['n'] == 'disp' and '.mem' in F.src(x):
            dkey = F.src(x)
    if tkey is None or dkey is None:
        raise F.AnalysisBroken('MIR_finish_func: memory type / disp operands not found in the MEM case')
    base = tkey.replace('.type', '.base')
    index = tkey.replace('.type', '.index')
    preds = EF.Predicates(tu)
    ai = AI.AbsInt(tu, preds)
    types = tu.enum('MIR_type_t')
    tval = dict(types)
    codes = dict(tu.enum('MIR_insn_code_t'))
    data_types = {'MIR_T_I8', 'MIR_T_U8', 'MIR_T_I16', 'MIR_T_U16', 'MIR_T_I32', 'MIR_T_U32', 'MIR_T_I64', 'MIR_T_U64', 'MIR_T_F',
                  'MIR_T_D', 'MIR_T_LD', 'MIR_T_P'}
    blk_lo, rblk = tval['MIR_T_BLK'], tval['MIR_T_RBLK']
    domain = [(n, v) for n, v in types if n not in ('MIR_T_BLK',)]
    domain += [('MIR_T_BLK+%d' % k, blk_lo + k) for k in range(0, rblk - blk_lo)]
    for tn, tv in domain:
        is_blk = blk_lo <= tv <= rblk
        for cn in ('MIR_CALL', 'MIR_JCALL', 'MIR_ADD', 'MIR_MOV'):
            callp = cn in ('MIR_CALL', 'MIR_JCALL')
            for disp in (0, -8):
                env = {tkey: tv, dkey: disp, 'code': codes[cn], 'insn->code': codes[cn], base: 0, index: 0}
                outs = set()
                for st in region['stmts']:
                    r = ai.run(st, env)
                    outs |= {o for o in r if o != 'fall'}
                    if 'fall' not in r:
                        break
                raised = any(o.startswith('error:MIR_wrong_type_error') for o in outs)
                other = [o for o in outs if o.startswith('error:') and 'wrong_type' not in o]
                expect = (tn not in data_types and not is_blk) or (is_blk and not callp) or (is_blk and disp < 0)
                ok = raised == expect and not other
                run.ob(rule, (tn, cn, disp), ok, {'memory type': tn, 'instruction': cn, 'disp': disp, 'validator': 'rejects' if raised else 'accepts',
                                                 'documented': 'reject' if expect else 'accept'})
                if not ok:
                    run.violation(rule, f, 'memory operand of type %s in %s' % (tn, cn),
                                  'MIR_finish_func %s a memory operand of type %s (disp %d) in a %s instruction; %s'
                                  % ('accepts' if not raised else 'rejects', tn, disp, cn,
                                     'block types are legal only as call arguments and UNDEF/BOUND are not data types' if expect
                                     else 'this operand is well-formed and must be accepted'), line=region['line'])


def rf19e(run):
    """address registers of a memory operand are validated independently of each other"""
    from lib import miniexec as MX
    rule = 'RF19e'
    run.rule(rule, 'MIR_finish_func, memory operands: over base in {absent, integer register, floating register} x index in the same '
                   'three kinds, the validator raises MIR_reg_type_error exactly when the base or the index is a floating-point '
                   'register (an absent base does not switch off the check of the index) and raises nothing else')
    tu = run.tu('mir')
    f = tu.func('MIR_finish_func')
    run.functions_analysed.add(('mir', f.name))
    region = None
    for sw in R.find_switches(f, lambda c: c.endswith('.mode')):
        for r in R.switch_regions(f, sw):
            if any(nm == 'MIR_OP_MEM' for nm, lo, hi in r['cases']):
                region = r
    if region is None:
        raise F.AnalysisBroken('MIR_finish_func: case MIR_OP_MEM not found')
    tkey = None
    for x in R.region_nodes(region['stmts']):
        if x['k'] == 'MemberExpr' and x['n'] == 'type' and '.mem' in F.src(x):
            tkey = F.src(x)
    pre = tkey[:-len('.type')]
    tys = dict(tu.enum('MIR_type_t'))
    codes = dict(tu.enum('MIR_insn_code_t'))
    REGT = {1: tys['MIR_T_I64'], 2: tys['MIR_T_D'], 3: tys['MIR_T_I64'], 4: tys['MIR_T_F']}

    def find_rd(args, env):
        r = args[1]
        if r not in REGT:
            return None
        return {'type': REGT[r], 'reg': r}
    kinds = {'absent': 0, 'integer register': None, 'floating register': None}
    n = 0
    for bn, b in (('absent', 0), ('integer register', 1), ('floating register', 2)):
        for xn, ix in (('absent', 0), ('integer register', 3), ('floating register', 4)):
            env = {tkey: tys['MIR_T_I64'], pre + '.disp': 0, pre + '.base': b, pre + '.index': ix, pre + '.scale': 1,
                   'code': codes['MIR_MOV'], 'insn->code': codes['MIR_MOV'], 'i': 1}
            mx = MX.MiniExec(tu, models={'find_rd_by_reg': find_rd})
            for st in region['stmts']:
                if mx.run(st, env) != 'fall':
                    break
            got = sorted(set(mx.errors))
            exp = ['MIR_reg_type_error'] if (b == 2 or ix == 4) else []
            ok = got == exp
            n += 1
            run.ob(rule, (bn, xn), ok, {'base': bn, 'index': xn, 'errors raised': got, 'documented': exp})
            if not ok:
                run.violation(rule, f, 'memory operand with base %s, index %s' % (bn, xn),
                              'for a memory operand whose base is %s and whose index is %s MIR_finish_func raises %s; it must raise %s '
                              '(address registers are integer registers)' % (bn, xn, got or 'nothing', exp or 'nothing'), line=region['line'])
    return n


# ---------------------------------------------------------------------------------------------
# RF94: only opcodes without a fixed operand list are exempt from the operand-count check
# ---------------------------------------------------------------------------------------------

def rf94(run):
    rule = 'RF94'
    run.rule(rule, 'MIR_new_insn_arr: the test that reports MIR_ops_num_error (nops != expected) is skipped, by evaluation of its guard over '
                   'all opcodes (helper predicates inlined), only for opcodes whose insn_descs row has no fixed operand list; every opcode '
                   'with a fixed arity - JRET has exactly one operand - is counted')
    tu = run.tu('mir')
    f = tu.func('MIR_new_insn_arr')
    run.functions_analysed.add(('mir', f.name))
    g, rows = read_insn_descs(tu)
    fixed = {r['code']: len(r['modes']) for r in rows}
    preds = EF.Predicates(tu)
    codes = dict(tu.enum('MIR_insn_code_t'))
    guard = None
    for x in f.walk():
        if x['k'] == 'IfStmt' and 'expected_nops' in F.src(x['c'][0]) and any(AI.is_error_call(y) for y in F.walk(x['c'][1]) if y['k'] == 'CallExpr'):
            guard = x
            break
    if guard is None:
        raise F.AnalysisBroken('MIR_new_insn_arr: the operand-count test was not found')
    n = 0
    for nm, v in sorted(codes.items(), key=lambda kv: kv[1]):
        if nm in ('MIR_INSN_BOUND', 'MIR_INVALID_INSN') or nm not in fixed:
            continue
        # with a wrong count (nops = expected + 1) the test must fire for every opcode that has a fixed list
        env = {'code': v, 'nops': fixed[nm] + 1, 'expected_nops': fixed[nm]}
        r = preds.eval(guard['c'][0], env, frozenset())
        if r is None:
            raise F.AnalysisBroken('MIR_new_insn_arr: count test not evaluable for %s' % nm)
        n += 1
        variable = fixed[nm] == 0
        ok = bool(r) or variable
        run.ob(rule, (nm,), ok, {'opcode': nm, 'operands in insn_descs': fixed[nm], 'count test fires for a wrong count': bool(r)}
               if nm in ('MIR_JRET', 'MIR_RET', 'MIR_MOV') or not ok else None)
        if not ok:
            run.violation(rule, f, 'operand count of %s not checked' % nm, '%s has %d operand(s) in insn_descs, but the operand-count test of '
                          'MIR_new_insn_arr does not fire for it: an instruction with the wrong number of operands is created instead of '
                          'raising MIR_ops_num_error' % (nm, fixed[nm]), line=guard['l'])
    return n


# ---------------------------------------------------------------------------------------------
# RF134: operands that MIR_finish_func does not look at
# ---------------------------------------------------------------------------------------------

def rf134(run):
    from lib import printexec as PE
    rule = 'RF134'
    run.rule(rule, 'MIR_finish_func, loop over the operands: the `continue` statements in front of the mode check exempt an operand from '
                   'validation.  Their conditions, evaluated for every opcode and operand position 0…4 (operand mode REF where a condition '
                   'asks for it), exempt exactly: operand 0 of UNSPEC, the prototype and a *reference* callee of the call family, and the '
                   'memory operand of VA_ARG — the operands that MIR_new_insn_arr validates when the instruction is created (frozen table). '
                   'Any other exemption lets an operand of a wrong kind, or an undeclared register, into a finished function')
    tu = run.tu('mir')
    f = tu.func('MIR_finish_func')
    run.functions_analysed.add(('mir', f.name))
    loops = [l for l in f.walk() if l['k'] == 'ForStmt' and l['c'][1] is not None and 'actual_nops' in F.src(l['c'][1])]
    if not loops:
        raise F.AnalysisBroken('MIR_finish_func: the loop over the operands was not found')
    body = loops[0]['c'][3]
    stmts = F.kids(body) if body['k'] == 'CompoundStmt' else [body]
    # the statements in front of the first assignment of expected_mode
    head = []
    for s_ in stmts:
        if any(y['k'] == 'BinaryOperator' and y['op'] == '=' and F.src(F.strip(y['c'][0])) == 'expected_mode' for y in F.walk(s_)):
            break
        head.append(s_)
    if not head or not any(y['k'] == 'ContinueStmt' for s_ in head for y in F.walk(s_)):
        raise F.AnalysisBroken('MIR_finish_func: the exemptions in front of the mode check were not found')
    codes = [(n_, v) for n_, v in tu.enum('MIR_insn_code_t')]
    bound = dict(codes)['MIR_INSN_BOUND']
    modes = dict(tu.enum('MIR_op_mode_t'))
    calls = {'MIR_CALL', 'MIR_INLINE', 'MIR_JCALL'}
    kinds_ = dict(tu.enum_by_member('MIR_func_item')[1])
    n = 0
    first = None
    for nm, v in codes:
        if v >= bound:
            continue
        # the call family is evaluated under every operand mode (only a *reference* callee is exempt), the rest under REF and REG
        mode_names = [m_ for m_ in modes if m_ != 'MIR_OP_BOUND'] if nm in calls else ['MIR_OP_REF', 'MIR_OP_REG']
        for i in range(5):
          for mn in mode_names:
            ex = PE.PrintExec(tu, {}, {}, {})
            env = {'code': v, 'i': i, 'insn->code': v, 'insn->ops[%d].mode' % i: modes[mn], 'insn->ops[i].mode': modes[mn],
                   'insn->ops[i].u.ref->item_type': kinds_['MIR_func_item']}
            skipped = False
            try:
                for s_ in head:
                    r = ex.run(s_, env)
                    if r == 'continue':
                        skipped = True
                        break
                    if r in ('break', 'return'):
                        break
            except F.AnalysisBroken as e_:
                raise F.AnalysisBroken('MIR_finish_func: exemptions not evaluable for %s operand %d (%s): %s' % (nm, i, mn, e_))
            want = (nm == 'MIR_UNSPEC' and i == 0) or (nm in calls and (i == 0 or (i == 1 and mn == 'MIR_OP_REF'))) or (nm == 'MIR_VA_ARG' and i == 2)
            ok = skipped == want
            n += 1
            if not ok or (skipped and mn == 'MIR_OP_REF'):
                run.ob(rule, (nm, i, mn), ok, {'opcode': nm, 'operand': i, 'operand mode': mn, 'exempt': skipped, 'validated at creation': want})
            else:
                run.ob(rule, (nm, i, mn), ok)
            if not ok and first is None:
                first = (nm, i, skipped, mn)
    # the reference callee is exempt from the mode check only: its item kind is validated right there (nothing else looks at it)
    allowed = {'MIR_import_item', 'MIR_export_item', 'MIR_forward_item', 'MIR_func_item'}
    for kn, kv in sorted(kinds_.items(), key=lambda t: t[1]):
        ex = PE.PrintExec(tu, {}, {}, {})
        env = {'code': dict(codes)['MIR_CALL'], 'i': 1, 'insn->code': dict(codes)['MIR_CALL'], 'insn->ops[1].mode': modes['MIR_OP_REF'],
               'insn->ops[i].mode': modes['MIR_OP_REF'], 'insn->ops[i].u.ref->item_type': kv}
        try:
            for s_ in head:
                r = ex.run(s_, env)
                if r in ('continue', 'break', 'return'):
                    break
        except F.AnalysisBroken as e_:
            raise F.AnalysisBroken('MIR_finish_func: callee check not evaluable for %s: %s' % (kn, e_))
        rejected = bool(ex.errors)
        ok = rejected == (kn not in allowed)
        n += 1
        run.ob(rule, ('callee', kn), ok, {'callee item kind': kn, 'rejected': rejected})
        if not ok:
            run.violation(rule, f, 'callee of kind %s' % kn, 'a call whose second operand refers to a %s item is %s by MIR_finish_func: %s' %
                          (kn[4:-5], 'rejected' if rejected else 'accepted',
                           'only the assertion (compiled out) looked at the kind of the callee; the generator emits a call to the address of a '
                           'prototype or data item' if not rejected else 'a legal callee kind is refused'), line=loops[0]['l'])
    if first:
        nm, i, skipped, mn = first
        run.violation(rule, f, 'operand %d of %s' % (i, nm), 'MIR_finish_func %s operand %d of %s when its mode is %s: %s' %
                      ('does not validate' if skipped else 'validates', i, nm, mn[7:],
                       'nothing checks it when the instruction is created either, so a float immediate, a label or an undeclared register is '
                       'accepted there (the generator later hangs or passes garbage)' if skipped else
                       'the operand was exempt on the reference tree (validated at creation); validating it here rejects well-formed code'),
                      line=loops[0]['l'])
    return n


# ---------------------------------------------------------------------------------------------
# RF145: the mode comparison of MIR_finish_func
# ---------------------------------------------------------------------------------------------

def rf145(run):
    from lib import printexec as PE
    rule = 'RF145'
    run.rule(rule, 'MIR_finish_func: the statements between the computation of an operand\'s mode and the end of the operand loop, executed '
                   'abstractly for every pair (mode of the operand, expected mode) over {int, uint, float, double, long double}: an error is '
                   'raised exactly when the modes differ (uint counts as int).  No mode is silently taken for another one — a long double '
                   'register accepted where a double is expected is read as a double by the engines')
    tu = run.tu('mir')
    f = tu.func('MIR_finish_func')
    run.functions_analysed.add(('mir', f.name))
    loops = [l for l in f.walk() if l['k'] == 'ForStmt' and l['c'][1] is not None and 'actual_nops' in F.src(l['c'][1])]
    if not loops:
        raise F.AnalysisBroken('MIR_finish_func: the loop over the operands was not found')
    stmts = F.kids(loops[0]['c'][3])
    idx = [i for i, s_ in enumerate(stmts) if s_['k'] == 'SwitchStmt' and '.mode' in F.src(s_['c'][0])]
    if not idx:
        raise F.AnalysisBroken('MIR_finish_func: the switch on the operand mode was not found')
    tail = stmts[idx[-1] + 1:]
    modes = dict(tu.enum('MIR_op_mode_t'))
    codes = dict(tu.enum('MIR_insn_code_t'))
    ms = ['MIR_OP_INT', 'MIR_OP_UINT', 'MIR_OP_FLOAT', 'MIR_OP_DOUBLE', 'MIR_OP_LDOUBLE']
    n = 0
    first = None
    for m in ms:
        for e in ms:
            if e == 'MIR_OP_UINT':
                continue
            ex = PE.PrintExec(tu, {}, {'mode_str': lambda a, e_, x: 'X'}, {})
            env = {'mode': modes[m], 'expected_mode': modes[e], 'code': codes['MIR_DADD'], 'i': 1, 'out_p': 0, 'can_be_out_p': 1,
                   'insn->ops[i].mode': modes['MIR_OP_REG'], 'insn->ops[1].mode': modes['MIR_OP_REG']}
            try:
                for s_ in tail:
                    r = ex.run(s_, env)
                    if r in ('continue', 'break', 'return'):
                        break
            except F.AnalysisBroken as e_:
                raise F.AnalysisBroken('MIR_finish_func: mode comparison not executable (%s / %s): %s' % (m, e, e_))
            rejected = bool(ex.errors)
            want = ('MIR_OP_INT' if m == 'MIR_OP_UINT' else m) != e
            ok = rejected == want
            n += 1
            run.ob(rule, (m, e), ok, {'operand mode': m, 'expected': e, 'rejected': rejected})
            if not ok and first is None:
                first = (m, e, rejected)
    if first:
        m, e, rejected = first
        run.violation(rule, f, '%s where %s is expected' % (m[7:].lower(), e[7:].lower()), 'an operand of mode %s where %s is expected is %s by '
                      'MIR_finish_func: %s' % (m, e, 'rejected' if rejected else 'accepted',
                                               'the engines read the operand with the expected type (an 80-bit long double as a double), so ill-formed '
                                               'code runs and computes garbage' if not rejected else 'well-formed code is refused'), line=loops[0]['l'])
    return n


# ---------------------------------------------------------------------------------------------
# RF154: per-instruction checks of MIR_finish_func do not depend on the operand count
# ---------------------------------------------------------------------------------------------

def rf154(run):
    from lib import printexec as PE
    rule = 'RF154'
    run.rule(rule, 'MIR_finish_func, statements in front of the operand loop, executed abstractly per instruction: `ret` with k operands in '
                   'a function with n results is an error exactly when k != n — also for k == 0 —, `use` / `phi` are errors with any operand '
                   'count, `va_start` outside a variadic function and `jret` in a function with results are errors.  A shortcut for '
                   'operand-less instructions placed in front of these checks accepts `ret` without values in a non-void function')
    tu = run.tu('mir')
    f = tu.func('MIR_finish_func')
    run.functions_analysed.add(('mir', f.name))
    outer = [l for l in f.walk() if l['k'] == 'ForStmt' and any(y['k'] == 'ForStmt' and y['c'][1] is not None and 'actual_nops' in F.src(y['c'][1]) for y in F.walk(l['c'][3]))]
    if not outer:
        raise F.AnalysisBroken('MIR_finish_func: the loop over the instructions was not found')
    body = F.kids(outer[0]['c'][3])
    head = []
    for s_ in body:
        if s_['k'] == 'ForStmt' and s_['c'][1] is not None and 'actual_nops' in F.src(s_['c'][1]):
            break
        head.append(s_)
    codes = dict(tu.enum('MIR_insn_code_t'))
    cases = [('ret with 0 operands, 1 result', {'code': 'MIR_RET', 'nops': 0, 'nres': 1}, True),
             ('ret with 0 operands, 2 results', {'code': 'MIR_RET', 'nops': 0, 'nres': 2}, True),
             ('ret with 2 operands, 1 result', {'code': 'MIR_RET', 'nops': 2, 'nres': 1}, True),
             ('ret with 1 operand, 1 result', {'code': 'MIR_RET', 'nops': 1, 'nres': 1}, False),
             ('ret with 0 operands, 0 results', {'code': 'MIR_RET', 'nops': 0, 'nres': 0}, False),
             ('use with 0 operands', {'code': 'MIR_USE', 'nops': 0, 'nres': 0}, True),
             ('phi with 3 operands', {'code': 'MIR_PHI', 'nops': 3, 'nres': 0}, True),
             ('va_start in a non-variadic function', {'code': 'MIR_VA_START', 'nops': 1, 'nres': 0}, True),
             ('jret in a function with a result', {'code': 'MIR_JRET', 'nops': 1, 'nres': 1}, True)]
    n = 0
    for what, c, want in cases:
        ex = PE.PrintExec(tu, {}, {'MIR_insn_nops': lambda a, e, x: c['nops']}, {})
        env = {'insn->code': codes[c['code']], 'curr_func->nres': c['nres'], 'curr_func->vararg_p': 0, 'ret_p': 0, 'jret_p': 0, 'expr_p': 1,
               'actual_nops': c['nops'], 'ctx->curr_func->nres': c['nres'], 'ctx->curr_func->vararg_p': 0}
        skipped = False
        try:
            for s_ in head:
                r = ex.run(s_, env)
                if r == 'continue':
                    skipped = True
                    break
                if r in ('break', 'return'):
                    break
                if ex.errors:
                    break
        except F.AnalysisBroken as e_:
            raise F.AnalysisBroken('MIR_finish_func: instruction checks not executable (%s): %s' % (what, e_))
        rejected = bool(ex.errors)
        ok = rejected == want
        n += 1
        run.ob(rule, (what,), ok, {'case': what, 'rejected': rejected, 'expected': want, 'skipped by an early continue': skipped})
        if not ok:
            run.violation(rule, f, what, '%s is %s by MIR_finish_func%s: %s' %
                          (what, 'rejected' if rejected else 'accepted', ' (an early `continue` skips the checks)' if skipped else '',
                           'the function returns without the values its callers read' if want else 'well-formed code is refused'), line=outer[0]['l'])
    return n


# ---------------------------------------------------------------------------------------------
# RF169: expected operand modes of the instructions of variable length
# ---------------------------------------------------------------------------------------------

def rf169(run):
    from lib import printexec as PE
    rule = 'RF169'
    run.rule(rule, 'MIR_finish_func: the statement that computes `expected_mode`, executed abstractly: for `switch` it is INT for operand 0 and '
                   'LABEL for every further operand; for `ret` it comes from the result types; for everything else from MIR_insn_op_mode — '
                   'which, for the operands of `switch` and the arguments of calls, returns the mode of the operand *itself* (nothing to '
                   'compare with).  Sending `switch` down the generic path accepts `switch i, L, 5` and `switch i, r, 1.0`')
    tu = run.tu('mir')
    f = tu.func('MIR_finish_func')
    run.functions_analysed.add(('mir', f.name))
    loops = [l for l in f.walk() if l['k'] == 'ForStmt' and l['c'][1] is not None and 'actual_nops' in F.src(l['c'][1])]
    if not loops:
        raise F.AnalysisBroken('MIR_finish_func: the loop over the operands was not found')
    body = loops[0]['c'][3]
    stmts = F.kids(body) if body['k'] == 'CompoundStmt' else [body]
    sel = [s_ for s_ in stmts if s_['k'] == 'IfStmt' and
           any(y['k'] == 'BinaryOperator' and y['op'] == '=' and F.src(F.strip(y['c'][0])) == 'expected_mode' for y in F.walk(s_))]
    if not sel:
        raise F.AnalysisBroken('MIR_finish_func: the computation of expected_mode was not found')
    codes = dict(tu.enum('MIR_insn_code_t'))
    modes = dict(tu.enum('MIR_op_mode_t'))
    SELF = -77
    n = 0
    for nm, i, want in (('MIR_SWITCH', 0, 'MIR_OP_INT'), ('MIR_SWITCH', 1, 'MIR_OP_LABEL'), ('MIR_SWITCH', 2, 'MIR_OP_LABEL'),
                        ('MIR_SWITCH', 5, 'MIR_OP_LABEL'), ('MIR_ADD', 1, SELF), ('MIR_JMP', 0, SELF)):
        ex = PE.PrintExec(tu, {}, {'MIR_insn_op_mode': lambda a, e, x: SELF, 'type2mode': lambda a, e, x: -78,
                                   'MIR_addr_code_p': lambda a, e, x: 0}, {})
        env = {'code': codes[nm], 'insn->code': codes[nm], 'i': i}
        try:
            ex.run(sel[0], env)
        except F.AnalysisBroken as e_:
            raise F.AnalysisBroken('MIR_finish_func: expected_mode not evaluable for %s operand %d: %s' % (nm, i, e_))
        got = env.get('expected_mode')
        wv = want if want == SELF else modes[want]
        ok = got == wv
        n += 1
        run.ob(rule, (nm, i), ok, {'opcode': nm, 'operand': i, 'expected_mode': 'from MIR_insn_op_mode' if got == SELF else
                                   next((k for k, v in modes.items() if v == got), got), 'wanted': 'from MIR_insn_op_mode' if want == SELF else want})
        if not ok:
            run.violation(rule, f, 'expected mode of %s operand %d' % (nm, i), 'MIR_finish_func takes the expected mode of operand %d of %s %s, it '
                          'should be %s: MIR_insn_op_mode answers with the mode the operand already has for the labels of a switch, so an '
                          'immediate or a register in a label position is accepted' %
                          (i, nm[4:].lower(), 'from MIR_insn_op_mode' if got == SELF else 'as %s' % got, want if want != SELF else 'the table entry'),
                          line=sel[0]['l'])
    return n


# ---------------------------------------------------------------------------------------------
# RF184: every diagnostic of MIR_finish_func leaves the context without an open function
# ---------------------------------------------------------------------------------------------

def rf184(run):
    rule = 'RF184'
    run.rule(rule, 'MIR_finish_func: the error function may return by longjmp and the context is used again.  Every call of the error '
                   'function (except the one that reports that there is no current function) is preceded — in its block or in a dominating '
                   'block — by `curr_func = NULL`; otherwise the next, well-formed function is refused with "previous function is not '
                   'finished"')
    tu = run.tu('mir')
    f = tu.func('MIR_finish_func')
    run.functions_analysed.add(('mir', f.name))
    cfg = f.cfg
    idom = cfg.dominators()
    resets = set()
    for b, B in cfg.blocks.items():
        for el in B.elems:
            for y in F.walk(el):
                if y['k'] == 'BinaryOperator' and y['op'] == '=' and F.src(F.strip(y['c'][0])).replace(' ', '').endswith('curr_func') and \
                        (F.const_value(F.strip(y['c'][1])) == 0 or F.src(F.strip(y['c'][1])) in ('NULL', '((void*)0)', '((void *)0)')):
                    resets.add(b)
    n = 0
    for b, B in cfg.blocks.items():
        if not B.noreturn:
            continue
        calls = [y for el in B.elems for y in F.walk(el) if y['k'] == 'CallExpr' and 'MIR_get_error_func' in F.src(F.strip(y['c'][0]))]
        if not calls:
            continue
        txt = ' '.join(y.get('s', '') for c in calls for y in F.walk(c) if y['k'] == 'StringLiteral')
        if 'no current function' in txt.lower() or 'finish of non-existing' in txt.lower():
            continue
        ok = b in resets or any(cfg.dominates(r, b, idom) for r in resets)
        n += 1
        run.ob(rule, (calls[0]['l'],), ok, {'site': '%s:%d' % (f.relfile(), calls[0]['l']), 'message': txt[:60], 'curr_func reset first': ok})
        if not ok:
            run.violation(rule, f, 'diagnostic with the function left open', 'MIR_finish_func raises `%s…` (line %d) without resetting curr_func first: '
                          'after a longjmp out of the error function every following MIR_new_func is refused' % (txt[:50], calls[0]['l']),
                          line=calls[0]['l'])
    run.control(rule, 'diagnostics of MIR_finish_func found', n >= 15)
    return n


# ---------------------------------------------------------------------------------------------
# RF195: the property operand of prset / prbeq / prbne is an immediate, checked at creation
# ---------------------------------------------------------------------------------------------

def rf195(run):
    from lib import printexec as PE
    rule = 'RF195'
    run.rule(rule, 'MIR_new_insn_arr, the chain of opcode-specific checks executed abstractly: for `prset` (operand 2) and `prbeq` / `prbne` '
                   '(operand 3) an operand that is a register, memory, reference or string raises the error function, an integer immediate '
                   'does not.  MIR_finish_func compares value *modes* only (an integer register has the mode of an integer immediate), and '
                   'the generator reads `u.i` of this operand')
    tu = run.tu('mir')
    f = tu.func('MIR_new_insn_arr')
    run.functions_analysed.add(('mir', f.name))
    chains = [x for x in f.walk() if x['k'] == 'IfStmt' and (f.parent_of(x) is None or not (f.parent_of(x)['k'] == 'IfStmt' and f.parent_of(x)['c'][2] is x))
              and any('MIR_VA_ARG' in F.src(y['c'][0]) for y in F.walk(x) if y['k'] == 'IfStmt')]
    if not chains:
        raise F.AnalysisBroken('MIR_new_insn_arr: the chain of opcode-specific checks was not found')
    chain = max(chains, key=lambda x: sum(1 for _ in F.walk(x)))
    codes = dict(tu.enum('MIR_insn_code_t'))
    modes = dict(tu.enum('MIR_op_mode_t'))
    n = 0
    for nm, k in (('MIR_PRSET', 1), ('MIR_PRBEQ', 2), ('MIR_PRBNE', 2)):
        for mn, want_err in (('MIR_OP_REG', True), ('MIR_OP_MEM', True), ('MIR_OP_REF', True), ('MIR_OP_STR', True), ('MIR_OP_INT', False)):
            ex = PE.PrintExec(tu, {}, {'MIR_call_code_p': lambda a, e, x: 0}, {})
            env = {'code': codes[nm], 'nops': k + 1, 'expected_nops': k + 1}
            for j in range(k + 1):
                env['ops[%d].mode' % j] = modes['MIR_OP_REG']
            env['ops[0].mode'] = modes['MIR_OP_LABEL'] if nm != 'MIR_PRSET' else modes['MIR_OP_REG']
            env['ops[%d].mode' % k] = modes[mn]
            try:
                ex.run(chain, env)
            except F.AnalysisBroken as e_:
                raise F.AnalysisBroken('MIR_new_insn_arr: checks not evaluable for %s with a %s property: %s' % (nm, mn, e_))
            got = bool(ex.errors)
            ok = got == want_err
            n += 1
            run.ob(rule, (nm, mn), ok, {'opcode': nm, 'mode of the property operand': mn, 'error raised': got})
            if not ok:
                run.violation(rule, f, 'property operand of %s' % nm[4:].lower(), 'MIR_new_insn_arr %s a %s with a %s as property operand: %s' %
                              ('accepts' if want_err else 'rejects', nm[4:].lower(), mn[7:].lower(),
                               'nothing else looks at the operand kind (MIR_finish_func compares modes of values), and the generator takes `u.i` of '
                               'a register or memory operand for the property' if want_err else 'an integer immediate is the documented form'),
                              line=chain['l'])
    return n


# ---------------------------------------------------------------------------------------------
# RF201: the documented undefined-type va_list memory passes the validator
# ---------------------------------------------------------------------------------------------

def rf201(run):
    from lib import enumflow as EF
    rule = 'RF201'
    run.rule(rule, 'MIR.md: "va_list operand can be memory with undefined type".  The wrong-type test of MIR_finish_func for memory operands, '
                   'evaluated as a predicate over (opcode, operand index) with the memory type MIR_T_UNDEF: it does not fire for operand 0 of '
                   'va_start / va_end and operand 1 of va_arg / va_block_arg, and it fires for an ordinary instruction (mov).  The special '
                   'case behind it (value mode taken from the expectation) names the same four positions')
    tu = run.tu('mir')
    f = tu.func('MIR_finish_func')
    run.functions_analysed.add(('mir', f.name))
    preds = EF.Predicates(tu)
    sites = [x for x in f.walk() if x['k'] == 'IfStmt' and 'wrong_type_p' in F.src(x['c'][0]) and 'u.mem.type' in F.src(x['c'][0])]
    if not sites:
        raise F.AnalysisBroken('MIR_finish_func: the wrong-type test of memory operands was not found')
    cond = sites[0]['c'][0]
    codes = dict(tu.enum('MIR_insn_code_t'))
    ty = dict(tu.enum('MIR_type_t'))
    n = 0
    for nm, i, want in (('MIR_VA_START', 0, False), ('MIR_VA_END', 0, False), ('MIR_VA_ARG', 1, False), ('MIR_VA_BLOCK_ARG', 1, False),
                        ('MIR_MOV', 1, True), ('MIR_VA_ARG', 0, True)):
        env = {'code': codes[nm], 'i': i}
        for y in F.walk(cond):
            if y['k'] == 'MemberExpr' and y['n'] == 'type' and 'mem' in F.src(y):
                env[F.src(y)] = ty['MIR_T_UNDEF']
        v = preds.eval(cond, env, frozenset())
        if v is None:
            raise F.AnalysisBroken('MIR_finish_func: the wrong-type test is not evaluable for %s operand %d' % (nm, i))
        ok = bool(v) == want
        n += 1
        run.ob(rule, (nm, i), ok, {'opcode': nm, 'operand': i, 'undefined-type memory rejected': bool(v), 'documented': 'allowed (va_list)' if not want else 'not allowed'})
        if not ok:
            run.violation(rule, f, 'undefined-type memory as operand %d of %s' % (i, nm[4:].lower()), 'MIR_finish_func %s memory of undefined type as '
                          'operand %d of %s: %s' % ('rejects' if v else 'accepts', i, nm[4:].lower(),
                                                    'MIR.md allows the va_list to be given this way (the memory address is the va_list address)' if v
                                                    else 'only the va_list positions may use it'), line=sites[0]['l'])
    return n
