"""Abstract execution of a printer function over a small model heap.

A scenario gives a list of model objects (ints as pointers, 0 = NULL) whose fields are looked up by the member path written in the
source (`curr_item->u.data->nel` -> heap[id]['->u.data->nel']).  Expressions with side effects (assignment inside a condition,
calls of modelled accessors, short-circuit operators) are evaluated here; everything pure goes to the finite-domain evaluator.
Printing calls append to `out`: fprintf with its format (conversions replaced: %s -> X, numeric -> 9), other printers through
`printers` {callee: function(args nodes, env, exec) -> text}.  Anything not understood raises AnalysisBroken."""
import re
from . import facts as F
from . import miniexec as ME

FMT_CONV = re.compile(r'%[-#0 +]*[0-9*]*(?:\.[0-9*]+)?(?:hh|h|ll|l|L|z|j|t)?([a-zA-Z])')
ROOT = re.compile(r'^(\w+)((?:->|\.|\[).*)$')


class HeapEnv(ME.Env):
    def __init__(self, tu, heap):
        super().__init__(tu)
        self.heap = heap

    def heap_path(self, oid, path, depth=0):
        """value of <object oid><path>; a prefix of the path that yields another model object is followed (a->b->c)"""
        obj = self.heap.get(oid, {})
        if path in obj:
            return obj[path]
        if depth > 6:
            return None
        # split at the later `->` boundaries, longest prefix first
        cuts = [i for i in range(2, len(path)) if path.startswith('->', i)]
        for i in reversed(cuts):
            head, rest = path[:i], path[i:]
            if head in obj and isinstance(obj[head], int) and obj[head] in self.heap:
                return self.heap_path(obj[head], rest, depth + 1)
        return None

    globals = None   # facts shared by all functions of an execution (text-keyed, like env)

    def norm_text(self, e, env, universe):
        """source text of an lvalue with every subscript replaced by its evaluated value"""
        e = F.strip(e)
        k = e['k']
        if k == 'DeclRefExpr':
            return e['n']
        if k == 'MemberExpr':
            b = self.norm_text(e['c'][0], env, universe)
            return None if b is None else b + ('->' if e.get('arrow') else '.') + e['n']
        if k == 'ArraySubscriptExpr':
            b = self.norm_text(e['c'][0], env, universe)
            i = self.eval(e['c'][1], env, universe)
            return None if b is None or not isinstance(i, int) else '%s[%d]' % (b, i)
        if k == 'ParenExpr':
            return self.norm_text(e['c'][0], env, universe)
        return None

    def lookup_text(self, t, env, depth=0):
        if t in env:
            return env[t]
        if self.globals and t in self.globals:
            return self.globals[t]
        m = ROOT.match(t)
        if m and depth < 4:
            r = env.get(m.group(1))
            if isinstance(r, int) and r in self.heap:
                return self.heap_path(r, m.group(2))
            if isinstance(r, tuple) and len(r) == 2 and r[0] == 'addr':
                rest = m.group(2)
                rest = '.' + rest[2:] if rest.startswith('->') else rest
                return self.lookup_text(r[1] + rest, env, depth + 1)
            if isinstance(r, tuple) and len(r) == 2 and r[0] == 'array' and m.group(2).startswith('['):
                return self.lookup_text(r[1] + m.group(2), env, depth + 1)
        return None

    def eval(self, e, env, universe):
        # a string bound to a parameter is a non-null pointer
        if e['k'] == 'BinaryOperator' and e.get('op') in ('==', '!=') and F.strip(e['c'][0])['k'] == 'DeclRefExpr' \
                and isinstance(env.get(F.strip(e['c'][0])['n']), str) and F.const_value(F.strip(e['c'][1])) == 0:
            return int(e['op'] == '!=')
        # floating-point facts (NaN / infinity tests of printers): evaluated in Python when an operand is a float
        if e['k'] == 'FloatingLiteral':
            try:
                return float(e.get('v', 0))
            except (TypeError, ValueError):
                return 0.0
        if e['k'] == 'BinaryOperator' and e.get('op') in ('==', '!=', '<', '>', '<=', '>=', '-', '+', '||', '&&') \
                and any(isinstance(v_, float) for v_ in env.values()):
            a = self.eval(e['c'][0], env, universe)
            if isinstance(a, float) or (isinstance(a, int) and e['op'] in ('||', '&&')):
                b = self.eval(e['c'][1], env, universe)
                if (isinstance(a, float) or isinstance(b, float)) and isinstance(b, (int, float)):
                    op = e['op']
                    if op in ('||', '&&'):
                        return int(bool(a) or bool(b)) if op == '||' else int(bool(a) and bool(b))
                    if op in ('-', '+'):
                        try:
                            return a - b if op == '-' else a + b
                        except Exception:
                            return float('nan')
                    return int({'==': a == b, '!=': a != b, '<': a < b, '>': a > b, '<=': a <= b, '>=': a >= b}[op])
        if e['k'] == 'UnaryOperator' and e.get('op') == '&':
            x = F.strip(e['c'][0])
            if x['k'] in ('MemberExpr', 'ArraySubscriptExpr', 'DeclRefExpr'):
                t = F.src(x).replace(' ', '')
                if x['k'] == 'ArraySubscriptExpr':
                    i = self.eval(x['c'][1], env, universe)
                    if isinstance(i, int):
                        t = '%s[%d]' % (F.src(F.strip(x['c'][0])).replace(' ', ''), i)
                return ('addr', t)
        if e['k'] == 'MemberExpr':
            t = F.src(e).replace(' ', '')
            if t in env:
                return env[t]
            v = self.lookup_text(t, env)
            if v is not None:
                return v
            tn = self.norm_text(e, env, universe)
            if tn is not None and tn != t:
                if tn in env:
                    return env[tn]
                v = self.lookup_text(tn, env)
                if v is not None:
                    return v
            b = F.strip(e['c'][0])
            if b['k'] == 'ArraySubscriptExpr':
                i = self.eval(b['c'][1], env, universe)
                if isinstance(i, int):
                    t2 = '%s[%d]%s' % (F.src(F.strip(b['c'][0])).replace(' ', ''), i, t[len(F.src(b).replace(' ', '')):])
                    if t2 in env:
                        return env[t2]
                    v2 = self.lookup_text(t2, env)
                    if v2 is not None:
                        return v2
            m = ROOT.match(t)
            if m and isinstance(env.get(m.group(1)), int) and env[m.group(1)] in self.heap:
                return self.heap_path(env[m.group(1)], m.group(2))
        if e['k'] == 'ArraySubscriptExpr':
            i = self.eval(e['c'][1], env, universe)
            if isinstance(i, int):
                t = '%s[%d]' % (F.src(F.strip(e['c'][0])).replace(' ', ''), i)
                if t in env:
                    return env[t]
                m = ROOT.match(t)
                if m and isinstance(env.get(m.group(1)), int) and env[m.group(1)] in self.heap and m.group(2) in self.heap[env[m.group(1)]]:
                    return self.heap[env[m.group(1)]][m.group(2)]
        return super().eval(e, env, universe)


def impure(e):
    for x in F.walk(e):
        if x['k'] == 'CallExpr' or (x['k'] == 'BinaryOperator' and x['op'] == '=') or x['k'] == 'CompoundAssignOperator' \
                or (x['k'] == 'UnaryOperator' and x['op'] in ('++', '--')):
            return True
    return False


class PrintExec(ME.MiniExec):
    def __init__(self, tu, heap, accessors, printers, max_iter=24):
        super().__init__(tu, models={}, max_iter=max_iter)
        self.ev = HeapEnv(tu, heap)
        self.heap = heap
        self.accessors = accessors
        self.printers = printers
        self.out = []

    def val(self, e, env):
        if e is None:
            return None
        if not impure(e):
            return self.ev.eval(e, env, frozenset())
        k = e['k']
        if k == 'ParenExpr' or k in F.CASTS:
            return self.val(e['c'][0], env)
        if k == 'BinaryOperator':
            op = e['op']
            if op == '=':
                v = self.val(e['c'][1], env)
                key = self.lkey(e['c'][0], env)
                if v is None:
                    env.pop(key, None)
                else:
                    env[key] = v
                return v
            if op == ',':
                self.val(e['c'][0], env)
                return self.val(e['c'][1], env)
            if op in ('&&', '||'):
                a = self.val(e['c'][0], env)
                if a is None:
                    raise F.AnalysisBroken('operand `%s` not evaluable' % F.src(e['c'][0])[:60])
                if op == '&&' and not a:
                    return 0
                if op == '||' and a:
                    return 1
                b = self.val(e['c'][1], env)
                if b is None:
                    raise F.AnalysisBroken('operand `%s` not evaluable' % F.src(e['c'][1])[:60])
                return 1 if b else 0
            a, b = self.val(e['c'][0], env), self.val(e['c'][1], env)
            if a is None or b is None:
                return None
            if op in ('==', '!=', '<', '<=', '>', '>='):
                return int({'==': a == b, '!=': a != b, '<': a < b, '<=': a <= b, '>': a > b, '>=': a >= b}[op])
            if op in ('+', '-'):
                return a + b if op == '+' else a - b
            raise F.AnalysisBroken('operator %s with side effects not modelled' % op)
        if k == 'UnaryOperator' and e['op'] in ('++', '--'):
            key = self.lkey(e['c'][0], env)
            cur = env.get(key)
            if cur is None:
                cur = self.ev.eval(e['c'][0], env, frozenset())
            if not isinstance(cur, int):
                raise F.AnalysisBroken('`%s` of an unknown value' % F.src(e)[:40])
            new = cur + (1 if e['op'] == '++' else -1)
            env[key] = new
            return cur if e.get('post') else new
        if k == 'ConditionalOperator':
            c = self.val(e['c'][0], env)
            if c is None:
                raise F.AnalysisBroken('selector `%s` not evaluable' % F.src(e['c'][0])[:60])
            return self.val(e['c'][1] if c else e['c'][2], env)
        if k == 'UnaryOperator' and e['op'] == '!':
            v = self.val(e['c'][0], env)
            return None if v is None else int(not v)
        if k == 'MemberExpr':
            b = self.val(e['c'][0], env)
            if isinstance(b, dict):
                return b.get(e['n'])
            if isinstance(b, int) and b in self.heap:
                return self.heap[b].get(('->' if e.get('arrow') else '.') + e['n'])
            raise F.AnalysisBroken('member of `%s` not modelled' % F.src(e['c'][0])[:60])
        if k == 'CallExpr':
            c = e.get('callee')
            if not c:
                c0 = F.strip(e['c'][0])
                while c0['k'] in ('ParenExpr',) or (c0['k'] == 'UnaryOperator' and c0.get('op') == '*'):
                    c0 = F.strip(c0['c'][0])
                fv = env.get(c0['n']) if c0['k'] == 'DeclRefExpr' else None
                if isinstance(fv, tuple) and len(fv) == 2 and fv[0] == 'func':
                    c = fv[1]
            if c in self.accessors:
                return self.accessors[c](F.call_args(e), env, self)
            if c in self.tu.funcs and self.tu.funcs[c].body is not None and self.depth < 3:
                return self.call_unit_function(self.tu.funcs[c], F.call_args(e), env)
            raise F.AnalysisBroken('call of %s in an expression is not modelled' % c)
        raise F.AnalysisBroken('expression `%s` with side effects not modelled' % F.src(e)[:60])

    depth = 0
    concrete_ints = False
    exec_unit_calls = False   # statement-level calls of functions of the unit are executed too (opt-in)

    def call_unit_function(self, g, args, env):
        """execute a function of the unit over the same model: parameters are bound by value where the argument evaluates, and by
        renaming of the text-keyed facts (`insn->code` of the caller's argument becomes `<param>->code`) otherwise"""
        env2 = {}
        for p_, a in zip(g.params, args):
            a0 = F.strip(a)
            if a0['k'] == 'StringLiteral' or (a0['k'] in ('ConditionalOperator', 'ParenExpr') and isinstance(self.strval(a0, env), str)):
                env2[p_['n']] = self.strval(a0, env)   # a string passed to a helper: printed as it is, and it is not NULL
                continue
            if a0['k'] == 'DeclRefExpr' and a0.get('dk') == 'func':
                env2[p_['n']] = ('func', a0['n'])    # a function passed by name: calls through the parameter are dispatched
                continue
            try:
                v = self.val(a, env)
            except F.AnalysisBroken:
                v = None
            if v is not None:
                env2[p_['n']] = v
            at = F.src(a0).replace(' ', '')
            for k_, v_ in env.items():
                if k_.startswith(at + '->') or k_.startswith(at + '.') or k_.startswith(at + '['):
                    env2[p_['n'] + k_[len(at):]] = v_
        sub = PrintExec(self.tu, self.heap, self.accessors, self.printers, self.max_iter)
        sub.ev.globals = self.ev.globals
        sub.concrete_ints = self.concrete_ints
        sub.exec_unit_calls = self.exec_unit_calls
        sub.depth = self.depth + 1
        sub.retval = 'none'
        r = sub.run(g.body, env2)
        self.out.extend(sub.out)
        if r == 'return' and sub.retval not in ('none',):
            return sub.retval
        return None

    def strval(self, a, env):
        """a C string argument as text: a literal, a `c ? "a" : "b"` selection, a parameter bound to a literal, an accessor result"""
        a0 = F.strip(a)
        if a0['k'] == 'StringLiteral':
            return a0['s']
        if a0['k'] == 'ConditionalOperator':
            try:
                c = self.val(a0['c'][0], env)
            except F.AnalysisBroken:
                c = None
            if c is None:
                return None
            return self.strval(a0['c'][1] if c else a0['c'][2], env)
        if a0['k'] == 'ParenExpr':
            return self.strval(a0['c'][0], env)
        try:
            v = self.val(a0, env)
        except F.AnalysisBroken:
            v = None
        return v if isinstance(v, str) else None

    def fmt(self, a, env):
        a = F.strip(a)
        if a['k'] == 'StringLiteral':
            return a['s']
        if a['k'] == 'ConditionalOperator':
            c = self.val(a['c'][0], env)
            if c is None:
                raise F.AnalysisBroken('format selector `%s` not evaluable' % F.src(a['c'][0])[:60])
            return self.fmt(a['c'][1] if c else a['c'][2], env)
        raise F.AnalysisBroken('format `%s` is not a literal' % F.src(a)[:60])

    def run(self, s, env):
        if s is not None and s['k'] == 'DeclStmt' and self.concrete_ints:
            binds = {}
            for d in s['decls']:
                if d.get('init') is not None and F.strip(d['init'])['k'] in ('StringLiteral', 'ConditionalOperator', 'ParenExpr'):
                    sv = self.strval(d['init'], env)
                    if isinstance(sv, str):
                        binds[d['n']] = sv
            if binds:
                r_ = self._run_rest(s, env)
                env.update(binds)
                return r_
        return self._run_rest(s, env)

    def _run_rest(self, s, env):
        if s is not None and s['k'] == 'DeclStmt':
            pass
            # struct copy `T v = a.b.c;`: the fields of the source become fields of v
            for d in s['decls']:
                if d.get('init') is not None:
                    i0 = F.strip(d['init'])
                    if i0['k'] in ('MemberExpr', 'DeclRefExpr'):
                        t = F.src(i0).replace(' ', '')
                        for k_ in list(env):
                            if k_.startswith(t + '.') or k_.startswith(t + '->'):
                                env[d['n'] + k_[len(t):]] = env[k_]
        if s is not None and s['k'] == 'CallExpr':
            c = s.get('callee')
            if not c:
                c0 = F.strip(s['c'][0])
                while c0['k'] in ('ParenExpr',) or (c0['k'] == 'UnaryOperator' and c0.get('op') == '*'):
                    c0 = F.strip(c0['c'][0])
                fv = env.get(c0['n']) if c0['k'] == 'DeclRefExpr' else None
                if isinstance(fv, tuple) and len(fv) == 2 and fv[0] == 'func':
                    c = fv[1]      # a call through a function-valued parameter
            if c == 'fprintf':
                args = F.call_args(s)
                t = self.fmt(args[1], env)
                rest = list(args[2:])

                def conv(m):
                    # `*` width / precision arguments are consumed too
                    stars = m.group(0).count('*')
                    for _ in range(stars):
                        if rest:
                            rest.pop(0)
                    a = rest.pop(0) if rest else None
                    if m.group(1) == 's':
                        if self.concrete_ints and a is not None:
                            v = self.strval(a, env)
                            if isinstance(v, str):
                                return v
                        return 'X'
                    if self.concrete_ints and a is not None and m.group(1) in 'duxi':
                        try:
                            v = self.val(a, env)
                        except F.AnalysisBroken:
                            v = None
                        if isinstance(v, int):
                            return str(v)
                    return '9'
                self.out.append(FMT_CONV.sub(conv, t))
                return 'fall'
            if c in self.printers:
                self.out.append(self.printers[c](F.call_args(s), env, self))
                return 'fall'
            if c in self.accessors:
                self.accessors[c](F.call_args(s), env, self)
                return 'fall'
            if self.exec_unit_calls and c in self.tu.funcs and self.tu.funcs[c].body is not None and self.depth < 3:
                self.call_unit_function(self.tu.funcs[c], F.call_args(s), env)
                return 'fall'
        if s is not None and s['k'] in ('BinaryOperator', 'UnaryOperator', 'CompoundAssignOperator', 'ParenExpr') and impure(s) \
                and not (s['k'] == 'UnaryOperator' and s['op'] in ('++', '--')) and s['k'] != 'CompoundAssignOperator' \
                and not (s['k'] == 'BinaryOperator' and s['op'] == ','):
            self.val(s, env)
            return 'fall'
        return super().run(s, env)

    def text(self):
        return ''.join(self.out)
