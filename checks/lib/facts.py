"""Fact base: runs the mirsa extractor on /repo's current tree and wraps its JSON.

Nothing is cached between runs: every check invocation re-extracts from the working tree.
"""
import json, os, subprocess, shutil, tempfile, sys, re

VERIF = os.path.dirname(os.path.dirname(os.path.dirname(os.path.abspath(__file__))))
REPO = os.environ.get('MIR_REPO', '/repo')
MIRSA = os.path.join(VERIF, 'build', 'mirsa')

UNITS = {
    'mir': 'mir.c',
    'gen': 'mir-gen.c',
    'c2mir': 'c2mir/c2mir.c',
    'mir2c': 'mir2c/mir2c.c',
}
# flags of the production build (CMake RelWithDebInfo).  Used when no compilation database can
# be generated; otherwise the flags are read from a freshly generated database.
DEFAULT_FLAGS = ['-DMIR_PARALLEL_GEN', '-I' + REPO, '-std=gnu11', '-fsigned-char', '-DNDEBUG']


class AnalysisBroken(Exception):
    pass


def _resource_dir():
    try:
        return subprocess.check_output(['clang', '-print-resource-dir'], text=True).strip()
    except Exception:
        return '/usr/lib/llvm-14/lib/clang/14.0.6'


_compdb_cache = None


def compile_flags(scratch):
    """Flags per unit from a freshly generated compilation database (cmake+ninja), filtered to
    the ones that affect parsing.  Falls back to DEFAULT_FLAGS."""
    global _compdb_cache
    if _compdb_cache is not None:
        return _compdb_cache
    res = {}
    note = 'default flags (no compilation database could be generated)'
    def harvest(db):
        for e in db:
            f = e.get('file', '')
            for u, rel in UNITS.items():
                if f == os.path.join(REPO, rel) and u not in res:
                    toks = e['command'].split()
                    keep = []
                    for t in toks:
                        if t.startswith(('-D', '-U', '-I', '-std=', '-fsigned-char', '-funsigned-char')):
                            keep.append(t)
                    res[u] = keep
    try:
        # 1. the repository's own build directory, when present (the real configuration)
        bn = os.path.join(REPO, '_build', 'build.ninja')
        if os.path.exists(bn):
            out = subprocess.check_output(['ninja', '-C', os.path.join(REPO, '_build'), '-t', 'compdb'], text=True,
                                          timeout=60, stderr=subprocess.DEVNULL)
            harvest(json.loads(out))
            note = 'flags from ninja -t compdb on /repo/_build'
        if len(res) < len(UNITS):
            # 2. a fresh configuration of the current CMakeLists.txt with the baseline's build type
            bdir = os.path.join(scratch, 'cmk')
            subprocess.run(['cmake', '-S', REPO, '-B', bdir, '-G', 'Ninja', '-DCMAKE_BUILD_TYPE=RelWithDebInfo'],
                           stdout=subprocess.DEVNULL, stderr=subprocess.DEVNULL, timeout=120, check=True)
            out = subprocess.check_output(['ninja', '-C', bdir, '-t', 'compdb'], text=True, timeout=60,
                                          stderr=subprocess.DEVNULL)
            harvest(json.loads(out))
            shutil.rmtree(bdir, ignore_errors=True)
            note = 'flags from a freshly generated cmake/ninja compilation database (RelWithDebInfo)'
    except Exception as ex:  # pragma: no cover
        note = 'default flags (cmake/ninja failed: %s)' % type(ex).__name__
    for u in UNITS:
        fl = res.get(u)
        if not fl:
            fl = list(DEFAULT_FLAGS)
            if u == 'mir2c':
                fl = fl + ['-DTEST_MIR2C']
        # the library is built RelWithDebInfo => NDEBUG; cmake puts it in CMAKE_C_FLAGS_<CONFIG>
        if u != 'mir2c' and '-DNDEBUG' not in fl:
            fl.append('-DNDEBUG')
        res[u] = fl
    _compdb_cache = (res, note)
    return _compdb_cache


class Type:
    __slots__ = ('s', 'c', 'kind', 'w', 'signed', 'const', 'pointee', 'elem', 'n', 'rec', 'enum', 'idx')

    def __init__(self, idx, d):
        self.idx = idx
        self.s = d['s']
        self.c = d['c']
        self.kind = d['kind']
        self.w = d.get('w')
        self.signed = d.get('signed')
        self.const = d.get('const', False)
        self.pointee = d.get('pointee')
        self.elem = d.get('elem')
        self.n = d.get('n')
        self.rec = d.get('rec')
        self.enum = d.get('enum')

    def __repr__(self):
        return 'Type(%s)' % self.s


class Func:
    def __init__(self, tu, d):
        self.tu = tu
        self.name = d['name']
        self.file = d['file']
        self.line = d['line']
        self.endline = d.get('endline')
        self.static = d['static']
        self.params = d['params']
        self.ret = d['ret']
        self.variadic = d.get('variadic')
        self.body = d['body']
        self.cfg_raw = d.get('cfg')
        self._nodes = None
        self._parent = None
        self._cfg = None

    def relfile(self):
        return os.path.relpath(self.file, REPO) if self.file.startswith(REPO) else self.file

    def _index(self):
        nodes, parent = {}, {}
        stack = [(self.body, None)]
        while stack:
            n, p = stack.pop()
            nodes[n['i']] = n
            parent[n['i']] = p
            for c in kids(n):
                stack.append((c, n['i']))
        self._nodes, self._parent = nodes, parent

    @property
    def nodes(self):
        if self._nodes is None:
            self._index()
        return self._nodes

    @property
    def parent(self):
        if self._parent is None:
            self._index()
        return self._parent

    def parent_of(self, n):
        p = self.parent.get(n['i'])
        return self.nodes[p] if p is not None else None

    def ancestors(self, n):
        p = self.parent_of(n)
        while p is not None:
            yield p
            p = self.parent_of(p)

    def walk(self):
        return walk(self.body)

    @property
    def cfg(self):
        if self._cfg is None:
            from . import cfgq
            self._cfg = cfgq.CFG(self)
        return self._cfg


class TU:
    def __init__(self, unit, path, d, flags):
        self.unit = unit
        self.path = path
        self.flags = flags
        self.types = [Type(i, t) for i, t in enumerate(d['types'])]
        self.enums = {k: [(n, v) for n, v in vals] for k, vals in d['enums'].items()}
        self.enum_typedefs = d.get('enum_typedefs', {})
        self.records = d['records']
        self.globals = d['globals']
        self.funcs = {}
        self.func_list = []
        for fd in d['functions']:
            f = Func(self, fd)
            self.func_list.append(f)
            # keep the first definition under a name (there is one per TU in C)
            self.funcs.setdefault(f.name, f)

    def enum(self, name):
        """enumerators of an enum given its tag or typedef name"""
        if name in self.enums:
            return self.enums[name]
        alias = self.enum_typedefs.get(name)
        if alias and alias in self.enums:
            return self.enums[alias]
        raise AnalysisBroken('enum %s not found in %s' % (name, self.unit))

    def enum_by_member(self, member):
        for k, vals in self.enums.items():
            for n, v in vals:
                if n == member:
                    return k, vals
        raise AnalysisBroken('no enum declares %s in %s' % (member, self.unit))

    def type(self, node_or_idx):
        if isinstance(node_or_idx, dict):
            idx = node_or_idx.get('t')
        else:
            idx = node_or_idx
        return self.types[idx] if idx is not None else None

    def func(self, name):
        f = self.funcs.get(name)
        if f is None:
            raise AnalysisBroken('function %s not found in unit %s' % (name, self.unit))
        return f

    def callgraph(self):
        if getattr(self, '_cg', None) is None:
            cg = {}
            for f in self.func_list:
                cs = set()
                for n in f.walk():
                    if n['k'] == 'CallExpr' and n.get('callee'):
                        cs.add(n['callee'])
                    elif n['k'] == 'DeclRefExpr' and n.get('dk') == 'func':
                        cs.add(n['n'])  # address taken / callee position alike
                cg[f.name] = cs
            self._cg = cg
        return self._cg

    def reachable(self, entries):
        """names of functions defined in this unit reachable from the entry functions (inclusive)"""
        cg = self.callgraph()
        seen, st = set(), [e for e in entries if e in self.funcs]
        while st:
            x = st.pop()
            if x in seen:
                continue
            seen.add(x)
            for c in cg.get(x, ()):
                if c in self.funcs and c not in seen:
                    st.append(c)
        return seen

    def global_var(self, name, func=None):
        for g in self.globals:
            if g['name'] == name and g.get('func') == func:
                return g
        raise AnalysisBroken('global %s not found in unit %s' % (name, self.unit))


def kids(n):
    k = n.get('k')
    if k == 'DeclStmt':
        return [d['init'] for d in n.get('decls', []) if d.get('init') is not None]
    return [c for c in n.get('c', []) if c is not None]


def walk(n):
    stack = [n]
    while stack:
        x = stack.pop()
        yield x
        ks = kids(x)
        for c in reversed(ks):
            stack.append(c)


CASTS = ('ImplicitCastExpr', 'CStyleCastExpr')


def strip(n, explicit=True):
    """skip implicit (and by default explicit) casts"""
    while n is not None and (n['k'] == 'ImplicitCastExpr' or (explicit and n['k'] == 'CStyleCastExpr')):
        n = n['c'][0]
    return n


def callee(n):
    """resolved direct callee name of a CallExpr, else None"""
    if n.get('k') != 'CallExpr':
        return None
    return n.get('callee')


def call_args(n):
    return n['c'][1:]


def callee_member(n):
    """for an indirect call through a struct field (alloc->malloc) return the field name"""
    if n.get('k') != 'CallExpr' or n.get('callee'):
        return None
    c = strip(n['c'][0])
    if c['k'] == 'MemberExpr':
        return c['n']
    return None


_PREC = {'*': 12, '/': 12, '%': 12, '+': 11, '-': 11, '<<': 10, '>>': 10, '<': 9, '<=': 9, '>': 9, '>=': 9,
         '==': 8, '!=': 8, '&': 7, '^': 6, '|': 5, '&&': 4, '||': 3, ',': 0}


def src(n, casts=False):
    """C-like rendering, canonical enough for structural equality (casts dropped unless casts=True)"""
    if n is None:
        return ''
    k = n['k']
    if k in CASTS:
        if casts and k == 'CStyleCastExpr':
            return '(cast)' + src(n['c'][0], casts)
        return src(n['c'][0], casts)
    if k == 'DeclRefExpr':
        return n['n']
    if k == 'IntegerLiteral':
        return str(n.get('v', n.get('vu')))
    if k == 'CharacterLiteral':
        return "'%s'" % chr(n['v']) if 32 <= n['v'] < 127 else str(n['v'])
    if k == 'FloatingLiteral':
        return n['fv']
    if k == 'StringLiteral':
        return json.dumps(n['s'])
    if k == 'MemberExpr':
        return src(n['c'][0], casts) + ('->' if n.get('arrow') else '.') + n['n']
    if k == 'ArraySubscriptExpr':
        return '%s[%s]' % (src(n['c'][0], casts), src(n['c'][1], casts))
    if k == 'CallExpr':
        return '%s(%s)' % (src(n['c'][0], casts), ', '.join(src(a, casts) for a in n['c'][1:]))
    if k in ('BinaryOperator', 'CompoundAssignOperator'):
        return '(%s %s %s)' % (src(n['c'][0], casts), n['op'], src(n['c'][1], casts))
    if k == 'UnaryOperator':
        if n.get('post'):
            return '%s%s' % (src(n['c'][0], casts), n['op'])
        return '%s%s' % (n['op'], src(n['c'][0], casts))
    if k == 'ConditionalOperator':
        return '(%s ? %s : %s)' % tuple(src(c, casts) for c in n['c'])
    if k == 'UnaryExprOrTypeTraitExpr':
        return 'sizeof(%s)' % (n.get('v'))
    if k == 'AddrLabelExpr':
        return '&&' + n['n']
    if k == 'InitListExpr':
        return '{%s}' % ', '.join(src(c, casts) for c in kids(n))
    if k == 'StmtExpr':
        return '({...})'
    if k == 'ReturnStmt':
        return 'return ' + ' '.join(src(c, casts) for c in kids(n))
    if k == 'DeclStmt':
        return '; '.join('%s%s' % (d['n'], (' = ' + src(d['init'], casts)) if d.get('init') else '') for d in n['decls'])
    if k == 'OffsetOfExpr':
        return 'offsetof(%s)' % n.get('v')
    if k == 'CompoundLiteralExpr':
        return '(lit)' + ''.join(src(c, casts) for c in kids(n))
    if k == 'GotoStmt':
        return 'goto ' + n['n']
    if k == 'LabelStmt':
        return n['n'] + ':'
    if k == 'CaseStmt':
        return 'case %s:' % n.get('n', n.get('lo'))
    if k == 'DefaultStmt':
        return 'default:'
    if k in ('BreakStmt', 'ContinueStmt', 'NullStmt'):
        return k[:-4].lower()
    return '<%s>' % k


def const_value(n):
    """folded integer value of an expression node, or None"""
    if n is None:
        return None
    if 'v' in n:
        return n['v']
    if 'vu' in n:
        return int(n['vu'])
    if n['k'] in CASTS:
        return const_value(n['c'][0])
    return None


def extract_file(path, scratch, flags, root=None):
    """run mirsa on an arbitrary C file (positive controls)"""
    if not os.path.exists(MIRSA):
        raise AnalysisBroken('extractor %s is not built (run MANIFEST.setup_cmd)' % MIRSA)
    root = root or (os.path.dirname(path) + '/:' + REPO + '/')
    out = os.path.join(scratch, 'ctl_' + re.sub(r'[^A-Za-z0-9_]', '_', os.path.basename(path)) + '.json')
    cmd = [MIRSA, out, root, path, '--', '-resource-dir', _resource_dir(), '-w'] + list(flags)
    p = subprocess.run(cmd, stdout=subprocess.PIPE, stderr=subprocess.PIPE, text=True)
    if p.returncode != 0 or not os.path.exists(out):
        raise AnalysisBroken('mirsa failed on %s (rc=%s): %s' % (path, p.returncode, p.stderr[-2000:]))
    with open(out) as f:
        d = json.load(f)
    os.unlink(out)
    tu = TU('control:' + os.path.basename(path), path, d, list(flags))
    tu.flags_note = 'control'
    return tu


def extract(unit, scratch, extra_flags=()):
    """run mirsa on one unit of the current working tree"""
    if not os.path.exists(MIRSA):
        raise AnalysisBroken('extractor %s is not built (run MANIFEST.setup_cmd)' % MIRSA)
    flags_by_unit, note = compile_flags(scratch)
    flags = list(flags_by_unit[unit]) + list(extra_flags)
    srcp = os.path.join(REPO, UNITS[unit])
    if not os.path.exists(srcp):
        raise AnalysisBroken('source %s missing' % srcp)
    out = os.path.join(scratch, unit + ('_' + '_'.join(extra_flags) if extra_flags else '') + '.json')
    out = re.sub(r'[^A-Za-z0-9_./-]', '_', out)
    cmd = [MIRSA, out, REPO + '/', srcp, '--', '-resource-dir', _resource_dir(), '-w'] + flags
    p = subprocess.run(cmd, stdout=subprocess.PIPE, stderr=subprocess.PIPE, text=True)
    if p.returncode != 0 or not os.path.exists(out):
        raise AnalysisBroken('mirsa failed on %s (rc=%s): %s' % (unit, p.returncode, p.stderr[-2000:]))
    with open(out) as f:
        d = json.load(f)
    os.unlink(out)
    tu = TU(unit, srcp, d, flags)
    tu.flags_note = note
    return tu
