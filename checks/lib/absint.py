"""A tiny abstract evaluator for validator fragments: runs a statement tree over an environment of known integer values
(keys are rendered lvalues) and reports which outcomes are possible: an error callback with its first argument, break,
continue, return, or falling through.  Unknown conditions explore both branches."""
from . import facts as F


def is_error_call(n):
    if n['k'] != 'CallExpr':
        return None
    c = F.strip(n['c'][0])
    if c['k'] == 'UnaryOperator' and c['op'] == '*':
        c = F.strip(c['c'][0])
    if c['k'] == 'CallExpr' and c.get('callee') == 'MIR_get_error_func':
        a = F.call_args(n)
        if a:
            a0 = F.strip(a[0])
            if a0['k'] == 'DeclRefExpr':
                return a0['n']
            if a0['k'] == 'ConditionalOperator':
                return 'cond:' + F.src(a0)[:40]
        return '?'
    return None


class AbsInt:
    def __init__(self, tu, preds):
        self.tu, self.preds = tu, preds

    def ev(self, e, env):
        return self.preds.eval(e, env, frozenset())

    def run(self, stmt, env):
        """returns set of outcomes; env is updated in place for definite straight-line assignments"""
        if stmt is None:
            return {'fall'}
        k = stmt['k']
        if k == 'CompoundStmt':
            outs = set()
            for s in F.kids(stmt):
                r = self.run(s, env)
                outs |= {o for o in r if o != 'fall'}
                if 'fall' not in r:
                    return outs
            outs.add('fall')
            return outs
        if k == 'IfStmt':
            c = self.ev(stmt['c'][0], env)
            if c is None:
                e1, e2 = dict(env), dict(env)
                r = self.run(stmt['c'][1], e1) | (self.run(stmt['c'][2], e2) if stmt['c'][2] is not None else {'fall'})
                # keep only facts both branches agree on
                for key in list(env):
                    if e1.get(key) != e2.get(key):
                        env.pop(key, None)
                return r
            if c:
                return self.run(stmt['c'][1], env)
            return self.run(stmt['c'][2], env) if stmt['c'][2] is not None else {'fall'}
        if k == 'BreakStmt':
            return {'break'}
        if k == 'ContinueStmt':
            return {'continue'}
        if k == 'ReturnStmt':
            return {'return'}
        if k in ('CaseStmt', 'DefaultStmt', 'LabelStmt'):
            ks = F.kids(stmt)
            return self.run(ks[0], env) if ks else {'fall'}
        if k in ('ForStmt', 'WhileStmt', 'DoStmt') and any(is_error_call(x) is not None for x in F.walk(stmt)):
            raise F.AnalysisBroken('a loop with an error exit is not modelled by this evaluator (line %s)' % stmt.get('l'))
        err = None
        for x in F.walk(stmt):
            e = is_error_call(x)
            if e is not None:
                err = e
        if err is not None:
            return {'error:' + err}
        if k == 'BinaryOperator' and stmt['op'] == '=':
            key = F.src(F.strip(stmt['c'][0]))
            v = self.ev(stmt['c'][1], env)
            if v is None:
                env.pop(key, None)
            else:
                env[key] = v
        return {'fall'}


class Collector:
    """walks a function body under an environment of known values (opcode, flags) and collects the calls of interest with the
    environment at the call; conditions that cannot be evaluated explore both branches; switch statements on a known value
    take the matching case"""

    def __init__(self, tu, preds, want):
        self.tu, self.preds, self.want = tu, preds, want
        self.hits = []

    def ev(self, e, env):
        return self.preds.eval(e, env, frozenset())

    def scan_expr(self, e, env):
        for x in F.walk(e):
            if x['k'] == 'CallExpr' and self.want(x):
                self.hits.append((x, dict(env)))

    def run(self, stmt, env):
        """returns False when control definitely leaves (return/break/continue/goto)"""
        from . import regions as R
        if stmt is None:
            return True
        k = stmt['k']
        if k == 'CompoundStmt':
            for s in F.kids(stmt):
                if not self.run(s, env):
                    return False
            return True
        if k == 'IfStmt':
            self.scan_expr(stmt['c'][0], env)
            c = self.ev(stmt['c'][0], env)
            if c is None:
                e1, e2 = dict(env), dict(env)
                a = self.run(stmt['c'][1], e1)
                b = self.run(stmt['c'][2], e2) if stmt['c'][2] is not None else True
                for key in list(env):
                    if e1.get(key) != e2.get(key):
                        env.pop(key, None)
                return a or b
            return self.run(stmt['c'][1], env) if c else (self.run(stmt['c'][2], env) if stmt['c'][2] is not None else True)
        if k == 'SwitchStmt':
            v = self.ev(stmt['c'][0], env)
            body = stmt['c'][1]
            if v is None or body is None or body['k'] != 'CompoundStmt':
                return True
            started = False
            dflt_at = None
            ks = F.kids(body)
            def labels(s):
                out = []
                while s is not None and s['k'] in ('CaseStmt', 'DefaultStmt'):
                    out.append(s)
                    s = F.kids(s)[0] if F.kids(s) else None
                return out, s
            start = None
            for i, s in enumerate(ks):
                ls, inner = labels(s)
                for l in ls:
                    if l['k'] == 'CaseStmt' and l.get('lo') is not None and l['lo'] <= v <= l.get('hi', l['lo']):
                        start = i
                    if l['k'] == 'DefaultStmt' and dflt_at is None:
                        dflt_at = i
                if start is not None:
                    break
            if start is None:
                start = dflt_at
            if start is None:
                return True
            for s in ks[start:]:
                ls, inner = labels(s)
                target = inner if ls else s
                if target is not None and target['k'] == 'BreakStmt':
                    return True
                r = self.run(target, env)
                if not r:
                    # a break inside ends the switch, a return leaves the function: distinguish
                    return self._left_by_break
            return True
        if k in ('ForStmt', 'WhileStmt', 'DoStmt'):
            for c in F.kids(stmt):
                if c['k'] in ('CompoundStmt', 'IfStmt') or c is (stmt['c'][3] if k == 'ForStmt' else None):
                    e2 = dict(env)
                    self.run(c, e2)
                else:
                    self.scan_expr(c, env)
            return True
        if k == 'BreakStmt':
            self._left_by_break = True
            return False
        if k in ('ReturnStmt', 'ContinueStmt', 'GotoStmt'):
            for c in F.kids(stmt):
                self.scan_expr(c, env)
            self._left_by_break = False
            return False
        if k in ('CaseStmt', 'DefaultStmt', 'LabelStmt'):
            ks = F.kids(stmt)
            return self.run(ks[0], env) if ks else True
        if k == 'DeclStmt':
            for d in stmt['decls']:
                if d.get('init') is not None:
                    self.scan_expr(d['init'], env)
                    v = self.ev(d['init'], env)
                    if v is None:
                        env.pop(d['n'], None)
                    else:
                        env[d['n']] = v
            return True
        self.scan_expr(stmt, env)
        if k == 'BinaryOperator' and stmt['op'] == '=':
            key = F.src(F.strip(stmt['c'][0]))
            v = self.ev(stmt['c'][1], env)
            if v is None:
                env.pop(key, None)
            else:
                env[key] = v
        return True

    _left_by_break = False
