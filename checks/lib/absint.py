"""A tiny abstract evaluator for validator fragments: runs a statement tree over an environment of known integer values
(keys are rendered lvalues) and reports which outcomes are possible: an error callback with its first argument, break,
continue, return, or falling through.  Unknown conditions explore both branches."""
from . import facts as F


def is_error_call(n):
    if n['k'] != 'CallExpr':
        return None
    c = F.strip(n['c'][0])
    if c['k'] == 'UnaryOperator' and c['op'] == '*':
        c = F.strip(c['c'][0])
    if c['k'] == 'CallExpr' and c.get('callee') == 'MIR_get_error_func':
        a = F.call_args(n)
        if a:
            a0 = F.strip(a[0])
            if a0['k'] == 'DeclRefExpr':
                return a0['n']
            if a0['k'] == 'ConditionalOperator':
                return 'cond:' + F.src(a0)[:40]
        return '?'
    return None


class AbsInt:
    def __init__(self, tu, preds):
        self.tu, self.preds = tu, preds

    def ev(self, e, env):
        return self.preds.eval(e, env, frozenset())

    def run(self, stmt, env):
        """returns set of outcomes; env is updated in place for definite straight-line assignments"""
        if stmt is None:
            return {'fall'}
        k = stmt['k']
        if k == 'CompoundStmt':
            outs = set()
            for s in F.kids(stmt):
                r = self.run(s, env)
                outs |= {o for o in r if o != 'fall'}
                if 'fall' not in r:
                    return outs
            outs.add('fall')
            return outs
        if k == 'IfStmt':
            c = self.ev(stmt['c'][0], env)
            if c is None:
                e1, e2 = dict(env), dict(env)
                r = self.run(stmt['c'][1], e1) | (self.run(stmt['c'][2], e2) if stmt['c'][2] is not None else {'fall'})
                # keep only facts both branches agree on
                for key in list(env):
                    if e1.get(key) != e2.get(key):
                        env.pop(key, None)
                return r
            if c:
                return self.run(stmt['c'][1], env)
            return self.run(stmt['c'][2], env) if stmt['c'][2] is not None else {'fall'}
        if k == 'BreakStmt':
            return {'break'}
        if k == 'ContinueStmt':
            return {'continue'}
        if k == 'ReturnStmt':
            return {'return'}
        if k in ('CaseStmt', 'DefaultStmt', 'LabelStmt'):
            ks = F.kids(stmt)
            return self.run(ks[0], env) if ks else {'fall'}
        err = None
        for x in F.walk(stmt):
            e = is_error_call(x)
            if e is not None:
                err = e
        if err is not None:
            return {'error:' + err}
        if k == 'BinaryOperator' and stmt['op'] == '=':
            key = F.src(F.strip(stmt['c'][0]))
            v = self.ev(stmt['c'][1], env)
            if v is None:
                env.pop(key, None)
            else:
                env[key] = v
        return {'fall'}
