"""Path-wise exact linear forms over opaque atoms, for small arithmetic invariants (alloca consolidation).

A value is a linear form sum(coeff * atom) + const.  Atoms are initial values of variables (name + '0'), fresh unknowns,
and opaque round-up terms ru(<form>, <c>) whose bounds  form <= ru <= form + c - 1  are recorded.  Statements are executed
symbolically; an `if` whose condition cannot be decided forks the path (bounded)."""
from . import facts as F


class Lin:
    def __init__(self, terms=None, const=0):
        self.t = {a: v for a, v in (terms or {}).items() if v != 0}
        self.c = const

    def add(self, o, k=1):
        r = Lin(self.t, self.c + k * o.c)
        for a, v in o.t.items():
            r.t[a] = r.t.get(a, 0) + k * v
            if r.t[a] == 0:
                del r.t[a]
        return r

    def scale(self, k):
        return Lin({a: v * k for a, v in self.t.items()}, self.c * k)

    def key(self):
        return (tuple(sorted(self.t.items())), self.c)

    def __repr__(self):
        parts = ['%s%s' % ('' if v == 1 else ('-' if v == -1 else '%d*' % v), a) for a, v in sorted(self.t.items())]
        if self.c or not parts:
            parts.append(str(self.c))
        return ' + '.join(parts).replace('+ -', '- ')


class Sym:
    def __init__(self):
        self.bounds = {}   # atom -> (lower Lin, upper Lin)
        self.fresh_n = 0
        self.paths_limit = 64
        self.calls = []    # (call node, state at the call) in execution order of the current path set
        self.decide = None  # optional: decides ConditionalOperator conditions inside expressions
        self.scale = {}     # lvalue key -> element size for pointer-typed lvalues (p += n advances n*size)

    def fresh(self, hint):
        self.fresh_n += 1
        return Lin({'%s#%d' % (hint, self.fresh_n): 1})

    def ev(self, e, st):
        """exact linear form of expression e in state st (var -> Lin), or a fresh atom"""
        e = F.strip(e)
        v = F.const_value(e)
        if v is not None and e['k'] != 'DeclRefExpr':
            return Lin(const=v)
        k = e['k']
        if k == 'DeclRefExpr':
            if e['n'] in st:
                return st[e['n']]
            return Lin({e['n'] + '0': 1})
        if k == 'MemberExpr' and F.src(e) in st:
            return st[F.src(e)]
        if k == 'ConditionalOperator' and self.decide is not None:
            d = self.decide(e['c'][0], st)
            if d is not None:
                return self.ev(e['c'][1] if d else e['c'][2], st)
        if k == 'BinaryOperator' and e['op'] in ('+', '-'):
            a, b = self.ev(e['c'][0], st), self.ev(e['c'][1], st)
            return a.add(b, 1 if e['op'] == '+' else -1)
        if k == 'BinaryOperator' and e['op'] == '*':
            a, b = F.strip(e['c'][0]), F.strip(e['c'][1])
            if b['k'] == 'BinaryOperator' and b['op'] == '/':
                a, b = b, a
            if a['k'] == 'BinaryOperator' and a['op'] == '/' and F.src(F.strip(a['c'][1])) == F.src(b):
                c = self.ev(b, st)
                x = F.strip(a['c'][0])
                # (y + c - 1) / c * c
                if x['k'] == 'BinaryOperator' and x['op'] == '-' and F.const_value(F.strip(x['c'][1])) == 1:
                    s = F.strip(x['c'][0])
                    if s['k'] == 'BinaryOperator' and s['op'] == '+' and F.src(F.strip(s['c'][1])) == F.src(b):
                        y = self.ev(s['c'][0], st)
                        atom = 'ru(%r,%r)' % (y, c)
                        self.bounds[atom] = (y, y.add(c).add(Lin(const=-1)))
                        return Lin({atom: 1})
                # (y + K) / c * c with the literal K = c - 1
                cb_ = F.const_value(b)
                if x['k'] == 'BinaryOperator' and x['op'] == '+' and cb_ is not None and F.const_value(F.strip(x['c'][1])) == cb_ - 1:
                    y = self.ev(x['c'][0], st)
                    atom = 'ru(%r,%r)' % (y, c)
                    self.bounds[atom] = (y, y.add(c).add(Lin(const=-1)))
                    return Lin({atom: 1})
                y = self.ev(x, st)
                atom = 'rd(%r,%r)' % (y, c)
                self.bounds[atom] = (y.add(c, -1).add(Lin(const=1)), y)
                return Lin({atom: 1})
            ca, cb = F.const_value(a), F.const_value(b)
            if cb is not None:
                return self.ev(a, st).scale(cb)
            if ca is not None:
                return self.ev(b, st).scale(ca)
        if k == 'BinaryOperator' and e['op'] == '&':
            # (y + c - 1) & ~(c - 1)  /  y & ~(c - 1) with c a power of two: round up / down to a multiple of c
            cv = F.const_value(F.strip(e['c'][1]))
            x = F.strip(e['c'][0])
            if cv is None:
                cv = F.const_value(F.strip(e['c'][0]))
                x = F.strip(e['c'][1])
            if cv is not None:
                m = (~cv) & 0xFFFFFFFFFFFFFFFF
                c_ = m + 1
                if m > 0 and c_ & (c_ - 1) == 0 and c_ < (1 << 32):
                    c = Lin(const=c_)
                    if x['k'] == 'BinaryOperator' and x['op'] == '+' and F.const_value(F.strip(x['c'][1])) == m:
                        y = self.ev(x['c'][0], st)
                        atom = 'ru(%r,%r)' % (y, c)
                        self.bounds[atom] = (y, y.add(c).add(Lin(const=-1)))
                        return Lin({atom: 1})
                    y = self.ev(x, st)
                    atom = 'rd(%r,%r)' % (y, c)
                    self.bounds[atom] = (y.add(c, -1).add(Lin(const=1)), y)
                    return Lin({atom: 1})
        if k == 'MemberExpr' or k == 'ArraySubscriptExpr':
            return Lin({F.src(e): 1})
        return self.fresh('u')

    def lower(self, l, depth=0):
        """a lower bound of l as a form without bounded atoms where possible"""
        r = Lin(const=l.c)
        for a, v in l.t.items():
            if a in self.bounds and depth < 4:
                lo, hi = self.bounds[a]
                r = r.add(self.lower(lo, depth + 1) if v > 0 else self.upper(hi, depth + 1), v)
            else:
                r = r.add(Lin({a: 1}), v)
        return r

    def upper(self, l, depth=0):
        r = Lin(const=l.c)
        for a, v in l.t.items():
            if a in self.bounds and depth < 4:
                lo, hi = self.bounds[a]
                r = r.add(self.upper(hi, depth + 1) if v > 0 else self.lower(lo, depth + 1), v)
            else:
                r = r.add(Lin({a: 1}), v)
        return r

    def nonneg(self, l, positive_atoms=()):
        """is l >= 0 for all non-negative values of the free atoms (alignment atoms are >= 1)"""
        lo = self.lower(l)
        c = lo.c
        for a, v in lo.t.items():
            if v < 0:
                return False
            if a in positive_atoms:
                c += v  # atom >= 1
        return c >= 0

    def run(self, stmts, st, decide=None):
        """execute statements; returns list of final states (forking on undecidable ifs)"""
        states = [dict(st)]
        for s in stmts:
            nxt = []
            for σ in states:
                if '__done__' in σ:
                    nxt.append(σ)
                    continue
                nxt.extend(self.step(s, σ, decide))
                if len(nxt) > self.paths_limit:
                    raise F.AnalysisBroken('too many paths in symbolic evaluation')
            states = nxt
        return states

    def step(self, s, σ, decide):
        if s is None:
            return [σ]
        k = s['k']
        if k == 'CompoundStmt':
            return self.run(F.kids(s), σ, decide)
        if k == 'IfStmt':
            d = decide(s['c'][0], σ) if decide else None
            outs = []
            if d is None or d:
                outs += self.step(s['c'][1], dict(σ), decide)
            if d is None or not d:
                outs += self.step(s['c'][2], dict(σ), decide) if s['c'][2] is not None else [dict(σ)]
            return outs
        if k == 'BinaryOperator' and s['op'] == '=':
            l = F.strip(s['c'][0])
            key = self.lkey(l)
            if key is not None:
                r = F.strip(s['c'][1])
                if r['k'] == 'CallExpr':
                    σ[key] = self.fresh(key)
                    self.kill_addr_args(r, σ)
                else:
                    σ[key] = self.ev(s['c'][1], σ)
            return [σ]
        if k == 'CompoundAssignOperator' and s['op'] in ('+=', '-='):
            l = F.strip(s['c'][0])
            key = self.lkey(l)
            if key is not None:
                cur = σ.get(key, Lin({key + '0': 1}))
                σ[key] = cur.add(self.ev(s['c'][1], σ).scale(self.scale.get(key, 1)), 1 if s['op'] == '+=' else -1)
            return [σ]
        if k == 'CallExpr':
            self.calls.append((s, dict(σ)))
            self.kill_addr_args(s, σ)
            return [σ]
        if k == 'UnaryOperator' and s['op'] in ('++', '--'):
            l = F.strip(s['c'][0])
            if l['k'] == 'DeclRefExpr':
                cur = σ.get(l['n'], Lin({l['n'] + '0': 1}))
                σ[l['n']] = cur.add(Lin(const=1 if s['op'] == '++' else -1))
            return [σ]
        if k in ('ContinueStmt', 'BreakStmt', 'ReturnStmt'):
            σ['__done__'] = Lin(const=1)
            return [σ]
        if k == 'DeclStmt':
            for d in s['decls']:
                if d.get('init') is not None:
                    σ[d['n']] = self.ev(d['init'], σ)
                    for x in F.walk(d['init']):
                        if x['k'] == 'CallExpr':
                            self.calls.append((x, dict(σ)))
                            self.kill_addr_args(x, σ)
            return [σ]
        return [σ]

    def lkey(self, l):
        if l['k'] == 'DeclRefExpr':
            return l['n']
        if l['k'] == 'MemberExpr' and (F.src(l) in self.scale or getattr(self, 'member_lvalues', False)):
            return F.src(l)
        return None

    def kill_addr_args(self, call, σ):
        for a in F.call_args(call):
            a = F.strip(a)
            if a['k'] == 'UnaryOperator' and a['op'] == '&':
                v = F.strip(a['c'][0])
                if v['k'] == 'DeclRefExpr':
                    σ[v['n']] = self.fresh(v['n'])
