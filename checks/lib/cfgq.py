"""CFG wrapper and path queries over the clang CFG emitted by mirsa."""
from . import facts as F


class Block:
    __slots__ = ('id', 'elems', 'term', 'tk', 'cond', 'label', 'succs', 'unreach', 'preds', 'noreturn')


class CFG:
    def __init__(self, func):
        self.func = func
        raw = func.cfg_raw
        if raw is None:
            raise F.AnalysisBroken('no CFG for %s' % func.name)
        nodes = func.nodes
        self.entry = raw['entry']
        self.exit = raw['exit']
        self.blocks = {}
        for b in raw['blocks']:
            B = Block()
            B.id = b['id']
            B.elems = [nodes[i] for i in b['e'] if i in nodes]
            B.term = nodes.get(b.get('term'))
            B.tk = b.get('tk')
            B.cond = nodes.get(b.get('cond')) if b.get('cond') is not None else None
            B.label = nodes.get(b.get('label')) if b.get('label') is not None else None
            B.succs = b['s']
            B.unreach = b.get('u', [False] * len(b['s']))
            B.noreturn = b.get('noreturn', False)
            # clang reports the whole `a && b` as the condition of the block that evaluates its last operand; the value
            # that decides the branch is the operand evaluated last in this block
            c = B.cond
            while c is not None and c['k'] == 'BinaryOperator' and c.get('op') in ('&&', '||'):
                if B.elems and B.elems[-1] is not c and B.elems[-1]['k'] != 'DeclStmt':
                    c = B.elems[-1]
                    if c['k'] == 'BinaryOperator' and c.get('op') in ('&&', '||'):
                        c = None
                    break
                c = c['c'][1]
            B.cond = c
            B.preds = []
            self.blocks[B.id] = B
        for B in self.blocks.values():
            for s, u in zip(B.succs, B.unreach):
                if s is not None and not u:
                    self.blocks[s].preds.append(B.id)
        self._top = None

    def live_succs(self, bid):
        B = self.blocks[bid]
        return [s for s, u in zip(B.succs, B.unreach) if s is not None and not u]

    def top_elems(self, B):
        """elements of a block that are not sub-expressions of a later element of the same block
        (clang lists calls etc. as separate elements before the full expression)"""
        out = []
        elems = B.elems
        sub = set()
        for e in elems:
            for x in F.walk(e):
                if x is not e:
                    sub.add(x['i'])
        termsub = set()
        for e in elems:
            if e['i'] not in sub:
                out.append(e)
        return out

    @staticmethod
    def local_walk(e):
        """walk an element's tree without descending into sub-expressions that clang evaluates in other
        blocks: arms/condition of ?:, operands of && and ||, bodies of statement expressions"""
        stack = [e]
        while stack:
            x = stack.pop()
            yield x
            k = x['k']
            if k in ('ConditionalOperator', 'BinaryConditionalOperator', 'StmtExpr'):
                continue
            if k == 'BinaryOperator' and x.get('op') in ('&&', '||'):
                continue
            ks = F.kids(x)
            for c in reversed(ks):
                stack.append(c)

    def block_nodes(self, B):
        """all distinct AST nodes evaluated in block B, in evaluation-list order"""
        seen = set()
        for e in B.elems:
            for x in F.walk(e):
                if x['i'] not in seen:
                    seen.add(x['i'])
                    yield x

    def reachable_from(self, start, avoid=lambda b: False):
        """block ids reachable from start (inclusive) without entering blocks for which avoid(b)"""
        seen = set()
        st = [start]
        while st:
            b = st.pop()
            if b in seen or avoid(b):
                continue
            seen.add(b)
            st.extend(self.live_succs(b))
        return seen

    def rpo(self):
        if self._top is not None:
            return self._top
        seen, order = set(), []
        st = [(self.entry, iter(self.live_succs(self.entry)))]
        seen.add(self.entry)
        while st:
            b, it = st[-1]
            adv = False
            for s in it:
                if s not in seen:
                    seen.add(s)
                    st.append((s, iter(self.live_succs(s))))
                    adv = True
                    break
            if not adv:
                order.append(b)
                st.pop()
        order.reverse()
        self._top = order
        return order

    def dominators(self):
        order = self.rpo()
        idx = {b: i for i, b in enumerate(order)}
        idom = {self.entry: self.entry}
        changed = True
        while changed:
            changed = False
            for b in order:
                if b == self.entry:
                    continue
                ps = [p for p in self.blocks[b].preds if p in idom]
                if not ps:
                    continue
                new = ps[0]
                for p in ps[1:]:
                    a, c = p, new
                    while a != c:
                        while idx[a] > idx[c]:
                            a = idom[a]
                        while idx[c] > idx[a]:
                            c = idom[c]
                    new = a
                if idom.get(b) != new:
                    idom[b] = new
                    changed = True
        return idom

    def dominates(self, a, b, idom=None):
        idom = idom or self.dominators()
        if b not in idom:
            return False
        x = b
        while True:
            if x == a:
                return True
            if x == idom[x]:
                return False
            x = idom[x]

    def block_of(self, node):
        """block id whose element list contains node (or a super-expression of it)"""
        nid = node['i']
        for B in self.blocks.values():
            for e in B.elems:
                if e['i'] == nid:
                    return B.id
        for B in self.blocks.values():
            for e in B.elems:
                for x in F.walk(e):
                    if x['i'] == nid:
                        return B.id
        return None

    def edge_kind(self, B, k):
        """describe the k-th successor edge of block B: ('true'|'false'|'case', values|None|'default')"""
        tk = B.tk
        if tk == 'SwitchStmt':
            s = B.succs[k]
            if s is None:
                return ('case', None)
            lab = self.blocks[s].label
            if lab is not None and lab['k'] == 'CaseStmt' and self._case_of(lab, B.term):
                return ('case', (lab.get('lo'), lab.get('hi', lab.get('lo'))))
            return ('case', 'default')
        if len(B.succs) == 2:
            return ('true' if k == 0 else 'false', None)
        return ('goto', None)

    def _case_of(self, lab, switch_node):
        # a case label belongs to the innermost enclosing switch
        f = self.func
        for a in f.ancestors(lab):
            if a['k'] == 'SwitchStmt':
                return a['i'] == switch_node['i']
        return False
