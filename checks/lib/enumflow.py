"""Forward may-analysis of enum-valued lvalue paths over a function's CFG (tag value sets).

State: {key: frozenset(int values)}; a missing key means "unknown" (top).  Keys are rendered
side-effect-free lvalue paths (item->item_type, op.mode, insn->ops[i].mode, code …).
Refinement happens on branch edges (==, !=, <, <=, >, >= against constants, !, pure enum
predicates) and on switch edges.  Assignments to a variable kill every key that mentions it.
Local copies (code = insn->code) are tracked as aliases so that refining one refines the other.
"""
import re
from . import facts as F

IDENT = re.compile(r'[A-Za-z_][A-Za-z_0-9]*')


def tokens(s):
    return set(IDENT.findall(s))


class Predicates:
    """true-sets of pure one-argument predicates over an enum, computed by evaluating their bodies"""

    def __init__(self, tu):
        self.tu = tu
        self.cache = {}

    def true_set(self, fname, universe):
        k = (fname, tuple(sorted(universe)))
        if k in self.cache:
            return self.cache[k]
        self.cache[k] = None
        f = self.tu.funcs.get(fname)
        res = None
        if f is not None and len(f.params) >= 1:
            body = F.kids(f.body)
            if len(body) == 1 and body[0]['k'] == 'ReturnStmt' and F.kids(body[0]):
                e = F.kids(body[0])[0]
                # the enum argument is the last parameter (ctx may precede it)
                pname = f.params[-1]['n']
                ts = set()
                ok = True
                for v in universe:
                    r = self.eval(e, {pname: v}, universe)
                    if r is None:
                        ok = False
                        break
                    if r:
                        ts.add(v)
                if ok:
                    res = frozenset(ts)
        self.cache[k] = res
        return res

    @staticmethod
    def _struct_arg(pname, a, env, env2):
        """an aggregate passed by value (or by pointer): facts known about `arg.x` / `arg->x` become facts about `param.x`"""
        t = F.src(F.strip(a))
        for key, v in list(env.items()):
            if isinstance(key, str) and (key.startswith(t + '.') or key.startswith(t + '->')):
                env2[pname + key[len(t):]] = v

    def _ret_chain(self, stmts, env, universe):
        for b in stmts:
            if b['k'] == 'ReturnStmt':
                ks = F.kids(b)
                return self.eval(ks[0], env, universe) if ks else None
            if b['k'] == 'CompoundStmt':
                r = self._ret_chain(F.kids(b), env, universe)
                return r
            if b['k'] == 'SwitchStmt':
                v = self.eval(b['c'][0], env, universe)
                body = b['c'][1]
                if v is None or body is None or body['k'] != 'CompoundStmt':
                    return None
                hit = dflt = None
                for st in F.kids(body):
                    x = st
                    labels = []
                    while x is not None and x['k'] in ('CaseStmt', 'DefaultStmt'):
                        labels.append(x)
                        x = F.kids(x)[0] if F.kids(x) else None
                    if hit is None:
                        for lb in labels:
                            if lb['k'] == 'CaseStmt' and lb.get('lo') is not None and lb['lo'] <= v <= lb.get('hi', lb['lo']):
                                hit = x
                            if lb['k'] == 'DefaultStmt' and dflt is None:
                                dflt = x
                        if hit is not None:
                            break
                tgt = hit if hit is not None else dflt
                if tgt is None or tgt['k'] != 'ReturnStmt':
                    return None  # fall-through chains are not modelled
                return self._ret_chain([tgt], env, universe)
            if b['k'] != 'IfStmt':
                return None
            c = self.eval(b['c'][0], env, universe)
            if c is None:
                return None
            arm = b['c'][1] if c else b['c'][2]
            if arm is not None:
                r = self._ret_chain([arm], env, universe)
                if r is not None or arm['k'] in ('ReturnStmt', 'CompoundStmt'):
                    return r
        return None

    def eval(self, e, env, universe):
        k = e['k']
        if k in F.CASTS:
            v = self.eval(e['c'][0], env, universe)
            if isinstance(v, int) and not isinstance(v, bool) and e.get('t') is not None \
                    and (k == 'CStyleCastExpr' or e.get('ck') == 'IntegralCast'):
                t = self.tu.types[e['t']]
                if t.kind == 'int' and getattr(t, 'w', None) and t.w < 64:
                    # conversion to a narrower integer type wraps (two's complement)
                    m = v & ((1 << t.w) - 1)
                    if t.signed and m >= 1 << (t.w - 1):
                        m -= 1 << t.w
                    return m
            return v
        if 'v' in e and k != 'DeclRefExpr':
            return e['v']
        if k == 'DeclRefExpr':
            if e.get('dk') == 'enumc':
                return e['v']
            if e['n'] in env:
                return env[e['n']]
            return None
        if k in ('MemberExpr', 'ArraySubscriptExpr'):
            t = F.src(e)
            return env.get(t)
        if k == 'IntegerLiteral':
            return e.get('v')
        if k == 'UnaryOperator' and e['op'] == '!':
            r = self.eval(e['c'][0], env, universe)
            return None if r is None else int(not r)
        if k == 'UnaryOperator' and e['op'] in ('-', '+'):
            r = self.eval(e['c'][0], env, universe)
            return None if not isinstance(r, (int, float)) else (-r if e['op'] == '-' else r)
        if k == 'BinaryOperator':
            op = e['op']
            a = self.eval(e['c'][0], env, universe)
            if op == '&&':
                if a is None:
                    return None
                if not a:
                    return 0
                b = self.eval(e['c'][1], env, universe)
                return None if b is None else int(bool(b))
            if op == '||':
                if a is None:
                    return None
                if a:
                    return 1
                b = self.eval(e['c'][1], env, universe)
                return None if b is None else int(bool(b))
            b = self.eval(e['c'][1], env, universe)
            if a is None or b is None:
                return None
            try:
                return {'==': lambda: int(a == b), '!=': lambda: int(a != b), '<': lambda: int(a < b), '<=': lambda: int(a <= b),
                        '>': lambda: int(a > b), '>=': lambda: int(a >= b), '+': lambda: a + b, '-': lambda: a - b,
                        '&': lambda: a & b, '|': lambda: a | b, '*': lambda: a * b,
                        '/': lambda: (abs(a) // abs(b)) * (1 if (a >= 0) == (b >= 0) else -1),
                        '%': lambda: a - b * ((abs(a) // abs(b)) * (1 if (a >= 0) == (b >= 0) else -1)),
                        '<<': lambda: a << b if 0 <= b < 64 else None, '>>': lambda: a >> b if 0 <= b < 64 else None}[op]()
            except (KeyError, ZeroDivisionError, TypeError):
                return None
        if k == 'ConditionalOperator':
            c = self.eval(e['c'][0], env, universe)
            if c is None:
                return None
            return self.eval(e['c'][1] if c else e['c'][2], env, universe)
        if k == 'CallExpr' and e.get('callee'):
            args = F.call_args(e)
            g = self.tu.funcs.get(e['callee'])
            if g is not None and getattr(self, '_depth', 0) < 6:
                body = F.kids(g.body)
                if len(body) == 1 and body[0]['k'] == 'ReturnStmt' and F.kids(body[0]) and len(g.params) == len(args):
                    env2 = {}
                    for prm, a in zip(g.params, args):
                        env2[prm['n']] = self.eval(a, env, universe)
                        self._struct_arg(prm['n'], a, env, env2)
                    self._depth = getattr(self, '_depth', 0) + 1
                    try:
                        r = self.eval(F.kids(body[0])[0], {k2: v2 for k2, v2 in env2.items() if v2 is not None}, universe)
                    finally:
                        self._depth -= 1
                    if r is not None:
                        return r
                elif len(g.params) == len(args) and body and all(b['k'] in ('IfStmt', 'ReturnStmt', 'SwitchStmt') for b in body):
                    # a chain of `if (c) return e;` ... `return e;` (no assignments, no loops)
                    env2 = {}
                    for prm, a in zip(g.params, args):
                        env2[prm['n']] = self.eval(a, env, universe)
                        self._struct_arg(prm['n'], a, env, env2)
                    env2 = {k2: v2 for k2, v2 in env2.items() if v2 is not None}
                    self._depth = getattr(self, '_depth', 0) + 1
                    try:
                        r = self._ret_chain(body, env2, universe)
                    finally:
                        self._depth -= 1
                    if r is not None:
                        return r
            if not args:
                return None
            v = self.eval(args[-1], env, universe)
            if v is None:
                return None
            ts = self.true_set(e['callee'], universe) if universe else None
            if ts is None:
                return None
            return int(v in ts)
        return None


class EnumFlow:
    def __init__(self, tu, func, preds=None, tracked_fields=('item_type', 'mode', 'code')):
        self.tu, self.f = tu, func
        self.cfg = func.cfg
        self.preds = preds or Predicates(tu)
        self.tracked = tracked_fields
        self.universe_cache = {}
        self.instate = {}
        self.solve()

    # ---- keys --------------------------------------------------------------------------------
    def key_of(self, e):
        """(key string, universe) if e is a trackable enum-carrying lvalue path, else None"""
        e = F.strip(e)
        if e is None:
            return None
        t = self.tu.type(e)
        if e['k'] == 'MemberExpr' or e['k'] == 'DeclRefExpr' and e.get('dk') in ('local', 'param'):
            if not self.pure_path(e):
                return None
            uni = self.universe_of(t)
            if uni is None:
                return None
            return (F.src(e), uni)
        return None

    def pure_path(self, e):
        while True:
            e = F.strip(e, explicit=False)
            k = e['k']
            if k == 'DeclRefExpr':
                return True
            if k == 'MemberExpr':
                e = e['c'][0]
            elif k == 'ArraySubscriptExpr':
                idx = F.strip(e['c'][1])
                if idx['k'] not in ('DeclRefExpr', 'IntegerLiteral') and F.const_value(idx) is None:
                    # allow simple arithmetic on variables
                    if any(x['k'] in ('CallExpr', 'UnaryOperator') and x.get('op') in ('++', '--', None) and x['k'] == 'CallExpr'
                           for x in F.walk(idx)):
                        return False
                e = e['c'][0]
            elif k == 'UnaryOperator' and e['op'] == '*':
                e = e['c'][0]
            else:
                return False

    def universe_of(self, t):
        if t is None or not t.enum:
            return None
        if t.enum not in self.universe_cache:
            try:
                self.universe_cache[t.enum] = frozenset(v for n, v in self.tu.enum(t.enum))
            except F.AnalysisBroken:
                self.universe_cache[t.enum] = None
        return self.universe_cache[t.enum]

    # ---- transfer ----------------------------------------------------------------------------
    def kill_var(self, st, alias, name):
        for k in [k for k in st if name in tokens(k)]:
            del st[k]
        for a in [a for a, tgt in alias.items() if a == name or name in tokens(tgt)]:
            del alias[a]

    def apply_elem(self, st, alias, e):
        """effect of one evaluated CFG element on (state, alias)"""
        for n in self.cfg.local_walk(e):
            k = n['k']
            if k in ('BinaryOperator', 'CompoundAssignOperator') and (n['op'] == '=' or k == 'CompoundAssignOperator'):
                lhs = F.strip(n['c'][0])
                ltxt = F.src(lhs)
                if lhs['k'] == 'DeclRefExpr':
                    self.kill_var(st, alias, lhs['n'])
                    if n['op'] == '=':
                        rk = self.key_of(n['c'][1])
                        lk = self.key_of(lhs)
                        if rk is not None and lk is not None:
                            alias[lhs['n']] = rk[0]
                            if rk[0] in st:
                                st[lk[0]] = st[rk[0]]
                else:
                    # store to a path: kill that key and every key it is a prefix of (*p = … also kills p->…)
                    pre = [ltxt + '.', ltxt + '->', ltxt + '[']
                    if ltxt.startswith('*'):
                        pre.append(ltxt[1:] + '->')
                    for kk in [kk for kk in st if kk == ltxt or any(kk.startswith(x) for x in pre)]:
                        del st[kk]
                    for a in [a for a, tgt in alias.items() if tgt == ltxt or any(tgt.startswith(x) for x in pre)]:
                        del alias[a]
                    lk = self.key_of(lhs)
                    # knowledge comes from the code's own tests only: a tag that is *assigned* (in-place retagging such as
                    # `op.mode = MIR_OP_INT; op.u.i = op.u.mem.disp;`) becomes unknown, it is not tracked as a constant
                    # a whole-struct store (op = x) through a path was handled by the prefix kill
            elif k == 'UnaryOperator' and n['op'] in ('++', '--'):
                t = F.strip(n['c'][0])
                if t['k'] == 'DeclRefExpr':
                    self.kill_var(st, alias, t['n'])
            elif k == 'UnaryOperator' and n['op'] == '&':
                t = F.strip(n['c'][0])
                # address of a local escapes into a call: the callee may retag it
                if t['k'] == 'DeclRefExpr' and t.get('dk') in ('local', 'param'):
                    p = self.f.parent_of(n)
                    while p is not None and p['k'] in F.CASTS:
                        p = self.f.parent_of(p)
                    if p is not None and p['k'] == 'CallExpr':
                        self.kill_var(st, alias, t['n'])
            elif k == 'DeclStmt':
                for d in n['decls']:
                    self.kill_var(st, alias, d['n'])
                    if d.get('init') is not None:
                        rk = self.key_of(d['init'])
                        t = self.tu.types[d['t']]
                        uni = self.universe_of(t)
                        if rk is not None and uni is not None:
                            alias[d['n']] = rk[0]
                            if rk[0] in st:
                                st[d['n']] = st[rk[0]]

    def canon(self, key, alias):
        return alias.get(key, key)

    def refine(self, st, alias, cond, truth):
        """refine a copy of st along cond == truth; returns new state or None if infeasible"""
        st = dict(st)
        cond = F.strip(cond)
        if cond is None:
            return st
        k = cond['k']
        if k == 'UnaryOperator' and cond['op'] == '!':
            return self.refine(st, alias, cond['c'][0], not truth)
        if k == 'BinaryOperator' and cond['op'] in ('==', '!=', '<', '<=', '>', '>='):
            a, b = cond['c']
            ka, kb = self.key_of(a), self.key_of(b)
            va, vb = F.const_value(F.strip(a)), F.const_value(F.strip(b))
            op = cond['op']
            if ka is not None and vb is not None:
                key, uni, v = ka[0], ka[1], vb
            elif kb is not None and va is not None:
                key, uni, v = kb[0], kb[1], va
                op = {'<': '>', '<=': '>=', '>': '<', '>=': '<='}.get(op, op)
            else:
                return st
            if not truth:
                op = {'==': '!=', '!=': '==', '<': '>=', '<=': '>', '>': '<=', '>=': '<'}[op]
            test = {'==': lambda x: x == v, '!=': lambda x: x != v, '<': lambda x: x < v, '<=': lambda x: x <= v,
                    '>': lambda x: x > v, '>=': lambda x: x >= v}[op]
            return self.narrow(st, alias, key, uni, test)
        if k == 'CallExpr' and cond.get('callee'):
            args = F.call_args(cond)
            if args:
                ka = self.key_of(args[-1])
                if ka is not None:
                    ts = self.preds.true_set(cond['callee'], ka[1])
                    if ts is not None:
                        return self.narrow(st, alias, ka[0], ka[1], (lambda x: x in ts) if truth else (lambda x: x not in ts))
            return st
        return st

    def narrow(self, st, alias, key, uni, test):
        keys = {key, self.canon(key, alias)}
        for a, tgt in alias.items():
            if tgt in keys:
                keys.add(a)
        for kk in keys:
            cur = st.get(kk, uni)
            new = frozenset(x for x in cur if test(x))
            if not new:
                return None
            st[kk] = new
        return st

    def edge_states(self, bid, st, alias):
        """[(succ, state)] after the terminator of block bid"""
        B = self.cfg.blocks[bid]
        res = []
        live = [(i, s) for i, (s, u) in enumerate(zip(B.succs, B.unreach)) if s is not None and not u]
        if B.tk == 'SwitchStmt' and B.cond is not None:
            kc = self.key_of(B.cond)
            case_vals = set()
            edges = []
            for i, s in live:
                ek = self.cfg.edge_kind(B, i)
                edges.append((s, ek))
                if ek[1] not in (None, 'default'):
                    lo, hi = ek[1]
                    if lo is not None:
                        case_vals.update(range(lo, (hi if hi is not None else lo) + 1))
            for s, ek in edges:
                if kc is None:
                    res.append((s, dict(st)))
                    continue
                key, uni = kc
                if ek[1] == 'default' or ek[1] is None:
                    ns = self.narrow(dict(st), alias, key, uni, lambda x: x not in case_vals)
                else:
                    lo, hi = ek[1]
                    hi = hi if hi is not None else lo
                    ns = self.narrow(dict(st), alias, key, uni, lambda x: lo <= x <= hi)
                if ns is not None:
                    res.append((s, ns))
            return res
        if B.cond is not None and len(B.succs) == 2 and B.tk != 'SwitchStmt':
            for i, s in live:
                ns = self.refine(st, alias, B.cond, i == 0)
                if ns is not None:
                    res.append((s, ns))
            return res
        return [(s, dict(st)) for i, s in live]

    def solve(self):
        cfg = self.cfg
        inst = {cfg.entry: ({}, {})}
        work = [cfg.entry]
        iters = 0
        limit = 60 * max(1, len(cfg.blocks))
        while work:
            iters += 1
            if iters > limit:
                raise F.AnalysisBroken('enumflow did not converge in %s' % self.f.name)
            b = work.pop()
            st, alias = inst[b]
            st, alias = dict(st), dict(alias)
            for e in cfg.blocks[b].elems:
                self.apply_elem(st, alias, e)
            for s, ns in self.edge_states(b, st, alias):
                if s not in inst:
                    inst[s] = (ns, dict(alias))
                    work.append(s)
                else:
                    old, oalias = inst[s]
                    merged = {}
                    for k in old:
                        if k in ns:
                            merged[k] = old[k] | ns[k]
                    malias = {a: t for a, t in oalias.items() if alias.get(a) == t}
                    if merged != old or malias != oalias:
                        inst[s] = (merged, malias)
                        work.append(s)
        self.instate = inst

    def states_at_elems(self, bid):
        """yield (elem, state-before-elem, alias) for the elements of a reachable block"""
        if bid not in self.instate:
            return
        st, alias = self.instate[bid]
        st, alias = dict(st), dict(alias)
        for e in self.cfg.blocks[bid].elems:
            yield e, dict(st), dict(alias)
            self.apply_elem(st, alias, e)

    def lookup(self, st, alias, key):
        if key in st:
            return st[key]
        c = alias.get(key)
        if c and c in st:
            return st[c]
        for a, tgt in alias.items():
            if tgt == key and a in st:
                return st[a]
        return None
