"""A small abstract executor for validator / bookkeeping fragments over a finite environment.

Statements: compound, if/else, switch on a known value, for/while with an evaluable condition (bounded unrolling), declarations,
assignments (scalars, members, array elements with a known index), compound assignments, ++/--, break/continue/return.
Calls: `models` maps a callee name to a Python function (args values, env) -> dict of facts to add or a value; calls of the
error function are recorded in `errors` (execution continues: the library's error functions do not return, so later effects
are irrelevant, but recording all keeps the rule simple).  Anything the executor cannot evaluate raises AnalysisBroken."""
from . import facts as F
from . import enumflow as EF
from . import absint as AI


class Env(EF.Predicates):
    """expression evaluation with text-keyed bindings and array elements addressed through evaluated indices"""

    def eval(self, e, env, universe):
        k = e['k']
        if k not in ('IntegerLiteral',) + tuple(F.CASTS):
            t = F.src(e)
            if t in env:
                return env[t]
            if k == 'ArraySubscriptExpr':
                i = self.eval(e['c'][1], env, universe)
                if isinstance(i, int):
                    t2 = '%s[%d]' % (F.src(F.strip(e['c'][0])), i)
                    if t2 in env:
                        return env[t2]
        return super().eval(e, env, universe)


class MiniExec:
    def __init__(self, tu, models=None, max_iter=16):
        self.tu = tu
        self.ev = Env(tu)
        self.models = models or {}
        self.errors = []
        self.calls = []
        self.max_iter = max_iter

    def val(self, e, env):
        return self.ev.eval(e, env, frozenset())

    def lkey(self, l, env):
        l = F.strip(l)
        if l['k'] == 'ArraySubscriptExpr':
            i = self.val(l['c'][1], env)
            if isinstance(i, int):
                return '%s[%d]' % (F.src(F.strip(l['c'][0])), i)
        return F.src(l)

    def assign_call(self, key, call, env):
        c = call.get('callee')
        if c in self.models:
            args = [self.val(a, env) for a in F.call_args(call)]
            r = self.models[c](args, env)
            if isinstance(r, dict):
                for f_, v_ in r.items():
                    env['%s->%s' % (key, f_)] = v_
                env[key] = 1
            elif r is None:
                env.pop(key, None)
            else:
                env[key] = r
            return True
        return False

    def run(self, s, env):
        """-> 'fall' | 'break' | 'continue' | 'return'"""
        if s is None:
            return 'fall'
        k = s['k']
        if k == 'CompoundStmt':
            for x in F.kids(s):
                r = self.run(x, env)
                if r != 'fall':
                    return r
            return 'fall'
        if k == 'IfStmt':
            c = self.val(s['c'][0], env)
            if c is None:
                raise F.AnalysisBroken('condition `%s` not evaluable' % F.src(s['c'][0])[:70])
            if c:
                return self.run(s['c'][1], env)
            return self.run(s['c'][2], env) if s['c'][2] is not None else 'fall'
        if k in ('ForStmt', 'WhileStmt'):
            if k == 'ForStmt':
                init, cond, inc, body = (s['c'] + [None] * 4)[:4]
                if init is not None:
                    self.run(init, env)
            else:
                cond, body, inc = s['c'][0], s['c'][1], None
            for _ in range(self.max_iter):
                c = self.val(cond, env) if cond is not None else 1
                if c is None:
                    raise F.AnalysisBroken('loop condition `%s` not evaluable' % F.src(cond)[:70])
                if not c:
                    return 'fall'
                r = self.run(body, env)
                if r == 'break':
                    return 'fall'
                if r == 'return':
                    return r
                if inc is not None:
                    self.run(inc, env)
            raise F.AnalysisBroken('loop not finished after %d iterations' % self.max_iter)
        if k == 'SwitchStmt':
            v = self.val(s['c'][0], env)
            if v is None:
                raise F.AnalysisBroken('switch value `%s` not evaluable' % F.src(s['c'][0])[:60])
            ks = F.kids(s['c'][1])
            started, dflt, seq = False, None, []
            for j, st in enumerate(ks):
                x, labels = st, []
                while x is not None and x['k'] in ('CaseStmt', 'DefaultStmt'):
                    labels.append(x)
                    x = F.kids(x)[0] if F.kids(x) else None
                if not started and any(lb['k'] == 'CaseStmt' and lb.get('lo') is not None and lb['lo'] <= v <= lb.get('hi', lb['lo']) for lb in labels):
                    started = True
                if not started and dflt is None and any(lb['k'] == 'DefaultStmt' for lb in labels):
                    dflt = j
                if started and x is not None:
                    seq.append(x)
            if not started and dflt is not None:
                for st in ks[dflt:]:
                    x = st
                    while x is not None and x['k'] in ('CaseStmt', 'DefaultStmt'):
                        x = F.kids(x)[0] if F.kids(x) else None
                    if x is not None:
                        seq.append(x)
            for x in seq:
                r = self.run(x, env)
                if r == 'break':
                    return 'fall'
                if r != 'fall':
                    return r
            return 'fall'
        if k == 'BreakStmt':
            return 'break'
        if k == 'ContinueStmt':
            return 'continue'
        if k == 'ReturnStmt':
            self.retval = None
            if s.get('c') and s['c'][0] is not None:
                try:
                    self.retval = self.val(s['c'][0], env)
                except F.AnalysisBroken:
                    self.retval = None
            return 'return'
        if k == 'DeclStmt':
            for d in s['decls']:
                if d.get('init') is not None:
                    i0 = F.strip(d['init'])
                    if i0['k'] == 'CallExpr' and self.assign_call(d['n'], i0, env):
                        continue
                    v = self.val(d['init'], env)
                    if v is None:
                        env.pop(d['n'], None)
                    else:
                        env[d['n']] = v
            return 'fall'
        if k in F.CASTS or k == 'ParenExpr':
            return self.run(s['c'][0], env)
        if k == 'BinaryOperator' and s['op'] == ',':
            self.run(s['c'][0], env)
            return self.run(s['c'][1], env)
        if k == 'BinaryOperator' and s['op'] == '=':
            key = self.lkey(s['c'][0], env)
            r = F.strip(s['c'][1])
            if r['k'] == 'CallExpr' and self.assign_call(key, r, env):
                return 'fall'
            v = self.val(s['c'][1], env)
            if v is None:
                env.pop(key, None)
            else:
                env[key] = v
            return 'fall'
        if k == 'CompoundAssignOperator' and s['op'] in ('+=', '-=', '*=', '|=', '&='):
            key = self.lkey(s['c'][0], env)
            v = self.val(s['c'][1], env)
            if isinstance(env.get(key), int) and v is not None:
                env[key] = {'+=': env[key] + v, '-=': env[key] - v, '*=': env[key] * v, '|=': env[key] | v, '&=': env[key] & v}[s['op']]
            else:
                env.pop(key, None)
            return 'fall'
        if k == 'UnaryOperator' and s['op'] in ('++', '--'):
            key = self.lkey(s['c'][0], env)
            if isinstance(env.get(key), int):
                env[key] += 1 if s['op'] == '++' else -1
            else:
                env.pop(key, None)
            return 'fall'
        if k == 'CallExpr':
            e = AI.is_error_call(s)
            if e is not None:
                self.errors.append(e)
                return 'fall'
            self.calls.append(s.get('callee'))
            c = s.get('callee')
            if c in self.models:
                self.models[c]([self.val(a, env) for a in F.call_args(s)], env)
            return 'fall'
        return 'fall'
