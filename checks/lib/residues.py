"""Forward dataflow of residues modulo M for the integer locals of one function, over the clang CFG.

Abstract value: frozenset of residues (subset of range(M)); TOP = all residues.  Transfer functions: constants, + - *,
round-up / round-down idioms ((x + M-1) / M * M, (x + M-1) & ~(M-1), x / M * M, x & ~(M-1)) -> {0}, ?: -> union,
everything else -> TOP.  Join = union; the lattice is finite, the fixpoint exact for these transfer functions."""
from . import facts as F


class Residues:
    def __init__(self, func, M, consts=None):
        self.f, self.M = func, M
        self.TOP = frozenset(range(M))
        self.consts = consts or {}
        self.cfg = func.cfg
        self.inn = {}
        self._solve()

    def ev(self, e, st):
        M = self.M
        e = F.strip(e)
        v = F.const_value(e)
        if v is not None:
            return frozenset([v % M])
        k = e['k']
        if k == 'DeclRefExpr':
            if e['n'] in self.consts:
                return frozenset([self.consts[e['n']] % M])
            return st.get(e['n'], self.TOP)
        if k == 'ConditionalOperator':
            return self.ev(e['c'][1], st) | self.ev(e['c'][2], st)
        if k == 'BinaryOperator':
            op = e['op']
            if op in ('+', '-'):
                a, b = self.ev(e['c'][0], st), self.ev(e['c'][1], st)
                return frozenset(((x + y) if op == '+' else (x - y)) % M for x in a for y in b)
            if op == '*':
                l, r = F.strip(e['c'][0]), F.strip(e['c'][1])
                for p, q in ((l, r), (r, l)):
                    c = F.const_value(q)
                    if c is not None and c % M == 0:
                        return frozenset([0])
                    # x / c * c
                    if p['k'] == 'BinaryOperator' and p['op'] == '/' and c is not None and F.const_value(F.strip(p['c'][1])) == c and c % M == 0:
                        return frozenset([0])
                a, b = self.ev(l, st), self.ev(r, st)
                if len(a) * len(b) <= M * M:
                    return frozenset((x * y) % M for x in a for y in b)
            if op == '&':
                for p, q in ((e['c'][0], e['c'][1]), (e['c'][1], e['c'][0])):
                    c = F.const_value(F.strip(q))
                    if c is not None:
                        low = (~c) & 0xFFFFFFFFFFFFFFFF
                        if low + 1 >= M and (low + 1) % M == 0 and (low & (low + 1)) == 0:
                            return frozenset([0])
            if op == '<<':
                c = F.const_value(F.strip(e['c'][1]))
                if c is not None and (1 << c) % M == 0:
                    return frozenset([0])
        return self.TOP

    def transfer(self, B, st):
        st = dict(st)
        for e in B.elems:
            k = e['k']
            if k == 'DeclStmt':
                for d in e['decls']:
                    if d.get('init') is not None:
                        st[d['n']] = self.ev(d['init'], st)
                    else:
                        st[d['n']] = self.TOP
            elif k == 'BinaryOperator' and e['op'] == '=':
                l = F.strip(e['c'][0])
                if l['k'] == 'DeclRefExpr':
                    st[l['n']] = self.ev(e['c'][1], st)
            elif k == 'CompoundAssignOperator':
                l = F.strip(e['c'][0])
                if l['k'] == 'DeclRefExpr':
                    cur = st.get(l['n'], self.TOP)
                    if e['op'] in ('+=', '-='):
                        b = self.ev(e['c'][1], st)
                        st[l['n']] = frozenset(((x + y) if e['op'] == '+=' else (x - y)) % self.M for x in cur for y in b)
                    else:
                        st[l['n']] = self.TOP
            elif k == 'UnaryOperator' and e['op'] in ('++', '--'):
                l = F.strip(e['c'][0])
                if l['k'] == 'DeclRefExpr':
                    cur = st.get(l['n'], self.TOP)
                    st[l['n']] = frozenset((x + (1 if e['op'] == '++' else -1)) % self.M for x in cur)
            elif k == 'CallExpr':
                for a in F.call_args(e):
                    a = F.strip(a)
                    if a['k'] == 'UnaryOperator' and a['op'] == '&' and F.strip(a['c'][0])['k'] == 'DeclRefExpr':
                        st[F.strip(a['c'][0])['n']] = self.TOP
        return st

    def _solve(self):
        cfg = self.cfg
        inn = {cfg.entry: {}}
        work = [cfg.entry]
        seen_out = {}
        while work:
            b = work.pop()
            out = self.transfer(cfg.blocks[b], inn.get(b, {}))
            for s in cfg.live_succs(b):
                cur = inn.get(s)
                if cur is None:
                    inn[s] = dict(out)
                    work.append(s)
                    continue
                changed = False
                for v in set(cur) | set(out):
                    a = cur.get(v)
                    o = out.get(v)
                    # a variable unknown on one side is unassigned there (declared later): keep the known side
                    n = (a | o) if (a is not None and o is not None) else (a if a is not None else o)
                    if n != a:
                        cur[v] = n
                        changed = True
                if changed:
                    work.append(s)
        self.inn = inn

    def at(self, node, expr=None):
        """residues of expr (default: node) evaluated where node is evaluated"""
        cfg = self.cfg
        b = cfg.block_of(node)
        if b is None or b not in self.inn:
            raise F.AnalysisBroken('%s: node at line %s not in a reachable block' % (self.f.name, node.get('l')))
        B = cfg.blocks[b]
        st = dict(self.inn[b])
        for e in B.elems:
            if any(x is node for x in F.walk(e)):
                break
            st = self.transfer(type('B', (), {'elems': [e]})(), st)
        return self.ev(expr if expr is not None else node, st)
