"""Handler regions: statements that implement one opcode in a label-dispatched function (eval) or
in a switch (gvn folder, mir2c)."""
from . import facts as F

TERMINATORS = ('BreakStmt', 'ContinueStmt', 'ReturnStmt', 'GotoStmt', 'IndirectGotoStmt')


def label_regions(func, prefix='L_'):
    """for a function whose top-level compound statement is a sequence of  L_X: stmts…  returns
    {label name: [LabelStmt, following sibling statements up to the next prefixed label]}"""
    out = {}
    for comp in F.walk(func.body):
        if comp['k'] != 'CompoundStmt':
            continue
        ks = F.kids(comp)
        cur = None
        for s in ks:
            if s['k'] == 'LabelStmt' and s['n'].startswith(prefix):
                cur = s['n']
                if cur in out:
                    raise F.AnalysisBroken('label %s defined twice' % cur)
                out[cur] = [s]
                # a chain of labels on one statement: L_A: L_B: stmt
                sub = s
                while F.kids(sub) and F.kids(sub)[0]['k'] == 'LabelStmt':
                    sub = F.kids(sub)[0]
                    out[sub['n']] = out[cur]
            elif cur is not None:
                out[cur].append(s)
    return out


def ends_flow(stmt):
    """does the statement unconditionally leave the straight-line flow (break/goto/return/…)"""
    k = stmt['k']
    if k in TERMINATORS:
        return True
    if k == 'CompoundStmt':
        ks = F.kids(stmt)
        return bool(ks) and ends_flow(ks[-1])
    if k == 'IfStmt':
        c = stmt['c']
        return c[2] is not None and ends_flow(c[1]) and ends_flow(c[2])
    if k == 'LabelStmt':
        ks = F.kids(stmt)
        return bool(ks) and ends_flow(ks[0])
    return False


def switch_regions(func, sw):
    """regions of a switch: list of dicts {cases: [names or values], default: bool, stmts: [...],
    falls_into: index of next region or None}.  Handles `case A: case B: stmt` nesting."""
    body = sw['c'][1]
    if body is None or body['k'] != 'CompoundStmt':
        raise F.AnalysisBroken('switch body is not a compound statement in %s' % func.name)
    regions = []
    cur = None
    for s in F.kids(body):
        labels = []
        x = s
        while x is not None and x['k'] in ('CaseStmt', 'DefaultStmt'):
            labels.append(x)
            x = F.kids(x)[0] if F.kids(x) else None
        if labels:
            prev = cur
            cur = {'cases': [], 'default': False, 'stmts': [], 'falls_into': None, 'labels': labels, 'line': s['l']}
            for lb in labels:
                if lb['k'] == 'DefaultStmt':
                    cur['default'] = True
                else:
                    lo, hi = lb.get('lo'), lb.get('hi', lb.get('lo'))
                    cur['cases'].append((lb.get('n'), lo, hi))
            regions.append(cur)
            if prev is not None and not (prev['stmts'] and ends_flow(prev['stmts'][-1])):
                prev['falls_into'] = len(regions) - 1
            if x is not None:
                cur['stmts'].append(x)
        elif cur is not None:
            cur['stmts'].append(s)
    return regions


def region_nodes(stmts):
    for s in stmts:
        for n in F.walk(s):
            yield n


def find_switches(func, on=None):
    """switch statements of a function; `on` = predicate over the rendered condition"""
    out = []
    for n in func.walk():
        if n['k'] == 'SwitchStmt':
            c = F.src(n['c'][0])
            if on is None or on(c):
                out.append(n)
    return out


def case_names(tu, regions, enum_vals):
    """expand regions' case lists into enumerator names, using the enum's value->name map for ranges"""
    byval = {}
    for n, v in enum_vals:
        byval.setdefault(v, n)
    res = []
    for r in regions:
        names = []
        for (nm, lo, hi) in r['cases']:
            if lo is None:
                continue
            for v in range(lo, (hi if hi is not None else lo) + 1):
                names.append(byval.get(v, str(v)))
        res.append(names)
    return res
